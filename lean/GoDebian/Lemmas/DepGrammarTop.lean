/-
  `parsePossibility`, `parseRelation` and `parse` over the renderings of an alternative, a
  relation (alternatives joined by `|`) and a field (relations joined by `,`), with
  arbitrary legal white space: the main theorem of C04.  Core Lean only.
-/
import GoDebian.Lemmas.DepGrammarPoss

namespace GoDebian.Lemmas.DepGrammarTop
open GoDebian GoDebian.Dep GoDebian.Spec.Dependency GoDebian.Lemmas.DepGrammarLex
open GoDebian.Lemmas.DepGrammarShape GoDebian.Lemmas.DepGrammarClause
open GoDebian.Lemmas.DepGrammarPoss

theorem not_end_or_comma {c : Nat} (h : 33 ≤ c) (h44 : c ≠ 44) : (c = 0 || c = 44) = false := by
  simp; omega

theorem not_bar {c : Nat} (h : c ≠ 124) : (c = 124) = False := by simp [h]
theorem not_end {c : Nat} (h : 33 ≤ c) : (c = 0) = False := by simp; omega
theorem not_comma {c : Nat} (h : c ≠ 44) : (c = 44) = False := by simp [h]

/-! ### one alternative -/

/-- an alternative starts with `$` or with a byte of its name -/
theorem possShape_peek {p : SPoss} (hwf : wfPoss p = true) {t : Bytes} (ht : PossShape p t)
    (R : Bytes) :
    33 ≤ peek (t ++ R) ∧ peek (t ++ R) ≠ 44 ∧ peek (t ++ R) ≠ 124 ∧
      (p.substvar = false → peek (t ++ R) ≠ 36) := by
  cases ht with
  | substvar hs => simp [peek, hs]
  | @normal fixed cl out hs _ _ _ =>
    obtain ⟨hname, _⟩ := wfPoss_normal hwf hs
    have e : headOf p ++ out ++ R = p.name ++ (qualOf p ++ out ++ R) := by
      simp [headOf]
    rw [e]
    have := token_reserved_mem hname (peek_token_append hname (qualOf p ++ out ++ R))
    exact ⟨this.1, by omega, by omega, fun _ => by omega⟩

theorem possShape_length {p : SPoss} (hwf : wfPoss p = true) {t : Bytes} (ht : PossShape p t) :
    1 ≤ t.length := by
  have := (possShape_peek hwf ht []).1
  cases t with
  | nil => simp [peek] at this
  | cons _ _ => simp

theorem parsePossibility_ok {p : SPoss} (hwf : wfPoss p = true) {t : Bytes} (ht : PossShape p t)
    {w r : Bytes} (hw : IsWs w) (hr : Stops r) :
    ∃ w', IsWs w' ∧ w'.length ≤ w.length ∧
      parsePossibility (t ++ w ++ r) = .ok (some (denotePoss p), w' ++ r) := by
  have hpk := possShape_peek hwf ht (w ++ r)
  rw [← List.append_assoc] at hpk
  cases ht with
  | substvar hs =>
    refine ⟨w, hw, Nat.le_refl _, ?_⟩
    have hname := wfPoss_substvar hwf hs
    have htu : takeUntil (fun c => c = 0 || c = 125) (p.name ++ 125 :: (w ++ r)) =
        (p.name, 125 :: (w ++ r)) := by
      apply takeUntil_append
      · intro c hc
        have := (token_iff.1 hname).2 c hc
        simp at this ⊢; omega
      · right; simp [peek]
    have e : [36, 123] ++ p.name ++ [125] ++ w ++ r = 36 :: 123 :: (p.name ++ 125 :: (w ++ r)) := by
      simp
    rw [e]
    simp [parsePossibility, parseSubstvar, eatWs_cons_not, isWs, peek, next, htu, denotePoss, hs]
  | @normal fixed cl out hs hf hm hsh =>
    refine ⟨[], isWs_nil, Nat.zero_le _, ?_⟩
    obtain ⟨hok, hval⟩ := clauses_denote hwf hs hf hm
    have h36 : (peek (headOf p ++ out ++ w ++ r) = 36) = False := by simpa using hpk.2.2.2 hs
    unfold parsePossibility
    rw [eatWs_of_peek (not_isWs_of_range hpk.1)]
    simp only [h36, if_false]
    rw [parsePossibilityLoop_ok hwf hs hsh hok hw hr _ (Nat.le_refl _), hval]
    rfl

/-! ### relations -/

/-- white space before `,`, `|` or the end costs one iteration and appends nothing -/
theorem relLoop_skip {w r : Bytes} (hw : IsWs w) (hr : Stops r) (acc : Relation)
    (X : Res (Relation × Bytes))
    (h : ∀ f, r.length + 1 ≤ f → parseRelationLoop f acc r = X) :
    ∀ f, (w ++ r).length + 1 ≤ f → parseRelationLoop f acc (w ++ r) = X := by
  intro f hf
  cases w with
  | nil => exact h f (by simpa using hf)
  | cons c w =>
    obtain ⟨f', rfl⟩ : ∃ f', f = f' + 1 := ⟨f - 1, by simp at hf; omega⟩
    have hc := (isWs_cons.1 hw).1
    have hcw := (isWs_iff c).1 hc
    have hne0 : c ≠ 0 := by omega
    have hne44 : c ≠ 44 := by omega
    have hne124 : c ≠ 124 := by omega
    have h36 : (peek r = 36) = False := by rcases hr with h | h | h <;> simp [h]
    have h58 : (peek r = 58) = False := by rcases hr with h | h | h <;> simp [h]
    have hst : (peek r = 44 || peek r = 124 || peek r = 0) = true := by
      rcases hr with h | h | h <;> simp [h]
    have hpp : parsePossibility (c :: (w ++ r)) = .ok (none, r) := by
      unfold parsePossibility
      rw [← List.cons_append, eatWs_append_peek hw (stops_not_ws hr)]
      simp only [h36, if_false]
      have htu : takeUntil nameStop r = ([], r) := by
        simpa using takeUntil_append (t := []) (by simp) r (Or.inr (stops_nameStop hr))
      rw [parsePossibilityLoop, htu]
      simp [h58, hst, emptyPossibility]
    rw [List.cons_append, parseRelationLoop]
    simp only [peek_cons]
    simp only [hne0, hne44, hne124, decide_false, Bool.or_self, Bool.false_eq_true, if_false, hpp]
    exact h f' (by simp at hf; omega)

theorem relLoop_ok (ps : List SPoss) :
    ∀ (p : SPoss) (t tail : Bytes) (acc : Relation) (fuel : Nat) {w r : Bytes},
      wfPoss p = true → (∀ q ∈ ps, wfPoss q = true) → PossShape p t →
      JoinTail PossShape 124 ps tail → IsWs w → (peek r = 44 ∨ peek r = 0) →
      (t ++ tail ++ w ++ r).length + 1 ≤ fuel →
      parseRelationLoop fuel acc (t ++ tail ++ w ++ r) =
        .ok (acc ++ (p :: ps).map denotePoss, r) := by
  induction ps with
  | nil =>
    intro p t tail acc fuel w r hwf _ ht htail hw hr hfuel
    cases htail
    obtain ⟨f, rfl⟩ : ∃ f, fuel = f + 1 := ⟨fuel - 1, by omega⟩
    have hpk := possShape_peek hwf ht (w ++ r)
    rw [← List.append_assoc] at hpk
    have hlen := possShape_length hwf ht
    have hst : Stops r := by rcases hr with h | h; exact Or.inl h; exact Or.inr (Or.inr h)
    obtain ⟨w', hw', hwl, hpp⟩ := parsePossibility_ok hwf ht hw hst
    have e : t ++ [] ++ w ++ r = t ++ w ++ r := by simp
    rw [e, parseRelationLoop]
    have h1 := not_end_or_comma hpk.1 hpk.2.1
    have h2 := not_bar hpk.2.2.1
    simp only [h1, h2, if_false, Bool.false_eq_true, hpp]
    apply relLoop_skip hw' hst
    · intro f' hf'
      obtain ⟨f'', rfl⟩ : ∃ f'', f' = f'' + 1 := ⟨f' - 1, by omega⟩
      have : (peek r = 0 || peek r = 44) = true := by rcases hr with h | h <;> simp [h]
      rw [parseRelationLoop]
      simp [this]
    · simp only [List.length_append] at hfuel ⊢; omega
  | cons q qs ih =>
    intro p t tail acc fuel w r hwf hps ht htail hw hr hfuel
    cases htail with
    | @cons _ _ s t2 tail' hs ht2 htail' =>
    obtain ⟨hw1, hw2⟩ := hs
    rename_i w1 w2
    obtain ⟨f, rfl⟩ : ∃ f, fuel = f + 1 := ⟨fuel - 1, by omega⟩
    have hq := hps q (List.mem_cons_self ..)
    have hlen := possShape_length hwf ht
    have e : t ++ (w1 ++ [124] ++ w2 ++ t2 ++ tail') ++ w ++ r
        = t ++ w1 ++ 124 :: (w2 ++ (t2 ++ tail' ++ w ++ r)) := by simp
    have hst : Stops (124 :: (w2 ++ (t2 ++ tail' ++ w ++ r))) := Or.inr (Or.inl rfl)
    have hpk := possShape_peek hwf ht (w1 ++ 124 :: (w2 ++ (t2 ++ tail' ++ w ++ r)))
    rw [← List.append_assoc] at hpk
    obtain ⟨w', hw', hwl, hpp⟩ := parsePossibility_ok hwf ht hw1 hst
    rw [e] at hfuel ⊢
    rw [parseRelationLoop]
    have h1 := not_end_or_comma hpk.1 hpk.2.1
    have h2 := not_bar hpk.2.2.1
    simp only [h1, h2, if_false, Bool.false_eq_true, hpp]
    apply relLoop_skip hw' hst
    · intro f' hf'
      obtain ⟨f'', rfl⟩ : ∃ f'', f' = f'' + 1 := ⟨f' - 1, by omega⟩
      have hpk2 := possShape_peek hq ht2 (tail' ++ w ++ r)
      rw [parseRelationLoop]
      simp only [peek_cons, next_cons]
      have e2 : t2 ++ tail' ++ w ++ r = t2 ++ (tail' ++ w ++ r) := by simp
      rw [e2, eatWs_append_peek hw2 (not_isWs_of_range hpk2.1), ← e2]
      rw [ih q t2 tail' _ f'' hq (fun z hz => hps z (List.mem_cons_of_mem _ hz)) ht2 htail' hw hr
        (by simp only [List.length_append, List.length_cons] at hf' ⊢; omega)]
      simp
    · simp only [List.length_append, List.length_cons] at hfuel ⊢; omega

/-- a relation: non-empty, every alternative well-formed -/
def WfRel (r : SRel) : Prop := r ≠ [] ∧ ∀ p ∈ r, wfPoss p = true

theorem relShape_peek {rel : SRel} (hwf : WfRel rel) {T : Bytes} (hT : RelShape rel T) (R : Bytes) :
    33 ≤ peek (T ++ R) ∧ peek (T ++ R) ≠ 44 := by
  cases rel with
  | nil => exact absurd rfl hwf.1
  | cons p ps =>
    obtain ⟨t, tail, ht, _, rfl⟩ := hT
    have := possShape_peek (hwf.2 p (List.mem_cons_self ..)) ht (tail ++ R)
    rw [List.append_assoc]
    exact ⟨this.1, this.2.1⟩

theorem relShape_length {rel : SRel} (hwf : WfRel rel) {T : Bytes} (hT : RelShape rel T) :
    1 ≤ T.length := by
  have := (relShape_peek hwf hT []).1
  cases T with
  | nil => simp [peek] at this
  | cons _ _ => simp

theorem parseRelation_ok {rel : SRel} (hwf : WfRel rel) {T : Bytes} (hT : RelShape rel T)
    {w r : Bytes} (hw : IsWs w) (hr : peek r = 44 ∨ peek r = 0) :
    parseRelation (T ++ w ++ r) = .ok (rel.map denotePoss, r) := by
  have hpk := relShape_peek hwf hT (w ++ r)
  cases rel with
  | nil => exact absurd rfl hwf.1
  | cons p ps =>
    obtain ⟨t, tail, ht, htail, rfl⟩ := hT
    unfold parseRelation
    rw [← List.append_assoc] at hpk
    rw [eatWs_of_peek (not_isWs_of_range hpk.1)]
    rw [relLoop_ok ps p t tail [] _ (hwf.2 p (List.mem_cons_self ..))
      (fun z hz => hwf.2 z (List.mem_cons_of_mem _ hz)) ht htail hw hr (Nat.le_refl _)]
    simp

/-! ### the field -/

theorem depLoop_ok (rs : List SRel) :
    ∀ (rel : SRel) (T tail : Bytes) (acc : Dependency) (fuel : Nat) {trail : Bytes},
      WfRel rel → (∀ r ∈ rs, WfRel r) → RelShape rel T → JoinTail RelShape 44 rs tail →
      IsWs trail → (T ++ tail ++ trail).length + 1 ≤ fuel →
      parseDependencyLoop fuel acc (T ++ tail ++ trail) =
        .ok (acc ++ (rel :: rs).map (·.map denotePoss)) := by
  induction rs with
  | nil =>
    intro rel T tail acc fuel trail hwf _ hT htail htr hfuel
    cases htail
    have hlen := relShape_length hwf hT
    obtain ⟨f, rfl⟩ : ∃ f, fuel = f + 2 := ⟨fuel - 2, by
      simp only [List.length_append] at hfuel ⊢; omega⟩
    have hpk := relShape_peek hwf hT (trail ++ [])
    rw [← List.append_assoc] at hpk
    have hpr := parseRelation_ok hwf hT htr (r := []) (Or.inr rfl)
    have e : T ++ [] ++ trail = T ++ trail ++ [] := by simp
    rw [e, parseDependencyLoop]
    have h1 := not_end hpk.1
    have h2 := not_comma hpk.2
    have hne : (rel.map denotePoss).isEmpty = false := by
      cases rel with
      | nil => exact absurd rfl hwf.1
      | cons _ _ => rfl
    simp only [h1, h2, if_false, hpr, hne, Bool.false_eq_true]
    rw [parseDependencyLoop]
    simp [peek]
  | cons r2 rs ih =>
    intro rel T tail acc fuel trail hwf hrs hT htail htr hfuel
    cases htail with
    | @cons _ _ s T2 tail' hs hT2 htail' =>
    obtain ⟨hw1, hw2⟩ := hs
    rename_i w1 w2
    have hlen := relShape_length hwf hT
    have hwf2 := hrs r2 (List.mem_cons_self ..)
    obtain ⟨f, rfl⟩ : ∃ f, fuel = f + 2 := ⟨fuel - 2, by
      simp only [List.length_append] at hfuel ⊢; omega⟩
    have hpk := relShape_peek hwf hT (w1 ++ 44 :: (w2 ++ (T2 ++ tail' ++ trail)))
    rw [← List.append_assoc] at hpk
    have hpr := parseRelation_ok hwf hT hw1 (r := 44 :: (w2 ++ (T2 ++ tail' ++ trail))) (Or.inl rfl)
    have e : T ++ (w1 ++ [44] ++ w2 ++ T2 ++ tail') ++ trail
        = T ++ w1 ++ 44 :: (w2 ++ (T2 ++ tail' ++ trail)) := by simp
    rw [e, parseDependencyLoop]
    have h1 := not_end hpk.1
    have h2 := not_comma hpk.2
    have hne : (rel.map denotePoss).isEmpty = false := by
      cases rel with
      | nil => exact absurd rfl hwf.1
      | cons _ _ => rfl
    simp only [h1, h2, if_false, hpr, hne, Bool.false_eq_true]
    rw [parseDependencyLoop]
    simp only [peek_cons, next_cons]
    have hpk2 := relShape_peek hwf2 hT2 (tail' ++ trail)
    have e2 : T2 ++ tail' ++ trail = T2 ++ (tail' ++ trail) := by simp
    have h0 : (44 = 0) = False := by simp
    simp only [h0, if_false, if_true]
    rw [e2, eatWs_append_peek hw2 (not_isWs_of_range hpk2.1), ← e2]
    rw [ih r2 T2 tail' _ f hwf2 (fun z hz => hrs z (List.mem_cons_of_mem _ hz)) hT2 htail' htr
      (by simp only [List.length_append, List.length_cons] at hfuel ⊢; omega)]
    simp

theorem wfDep_iff {d : SDep} (h : wfDep d = true) : ∀ r ∈ d, WfRel r := by
  intro r hr
  have := (List.all_eq_true.1 h) r hr
  simp only [Bool.and_eq_true, Bool.not_eq_true', List.isEmpty_eq_false_iff, ne_eq,
    List.all_eq_true] at this
  exact ⟨by simpa using this.1, this.2⟩

/-- every shape of a well-formed field parses to what the field denotes -/
theorem parse_shape {d : SDep} (h : wfDep d = true) {lead body trail : Bytes} (hl : IsWs lead)
    (ht : IsWs trail) (hb : DepShape d body) :
    Dep.parse (lead ++ body ++ trail) = .ok (denote d) := by
  have hwf := wfDep_iff h
  unfold Dep.parse
  cases d with
  | nil =>
    cases hb
    have : eatWs (lead ++ [] ++ trail) = [] := by
      have := eatWs_append (isWs_append hl ht) []
      simpa [eatWs_nil] using this
    rw [this]
    rfl
  | cons rel rs =>
    obtain ⟨T, tail, hT, htail, rfl⟩ := hb
    have hpk := relShape_peek (hwf rel (List.mem_cons_self ..)) hT (tail ++ trail)
    have e : lead ++ (T ++ tail) ++ trail = lead ++ (T ++ (tail ++ trail)) := by simp
    rw [e, eatWs_append_peek hl (not_isWs_of_range hpk.1), ← List.append_assoc]
    rw [depLoop_ok rs rel T tail [] _ (hwf rel (List.mem_cons_self ..))
      (fun z hz => hwf z (List.mem_cons_of_mem _ hz)) hT htail ht (Nat.le_refl _)]
    rfl

theorem parse_render (d : SDep) (cs : Spec.Deb822.Choices) (h : wfDep d = true) :
    Dep.parse (Spec.Dependency.render d cs) = .ok (denote d) := by
  obtain ⟨lead, body, trail, hl, ht, hb, e⟩ := render_spec d cs
  rw [e]
  exact parse_shape h hl ht hb

end GoDebian.Lemmas.DepGrammarTop
