/-
  `.deb` loading of a package built by the archive specification (`Spec.Ar.build`): the
  entries read back are the members (`readAll_build`), so `plan` selects the members the
  specification names and `load` returns their extensions and the member index.
  Core Lean only.
-/
import GoDebian.Lemmas.DebPlan
import GoDebian.Lemmas.ArBuild

namespace GoDebian.Lemmas.Deb
open GoDebian GoDebian.Ar GoDebian.Deb GoDebian.Spec.Ar GoDebian.Lemmas.Ar

/-- distinct images: the function is injective on the list -/
theorem eq_of_nodup_map {α β : Type} {f : α → β} {l : List α} (h : (l.map f).Nodup)
    {a b : α} (ha : a ∈ l) (hb : b ∈ l) (hab : f a = f b) : a = b := by
  induction l with
  | nil => cases ha
  | cons x rest ih =>
    rw [List.map_cons, List.nodup_cons] at h
    rcases List.mem_cons.mp ha with rfl | ha' <;> rcases List.mem_cons.mp hb with rfl | hb'
    · rfl
    · exact absurd (hab ▸ List.mem_map.mpr ⟨b, hb', rfl⟩) h.1
    · exact absurd (hab ▸ List.mem_map.mpr ⟨a, ha', rfl⟩) h.1
    · exact ih h.2 ha' hb'

theorem names_of_view {bs : Bytes} {es : List Entry} {ms : List Member}
    (hv : es.map (entryView bs) = ms.map view) : es.map (·.name) = ms.map (·.name) := by
  have := congrArg (List.map View.name) hv
  simpa [List.map_map, Function.comp_def, entryView, view] using this

/-- looking a member up by name in the entries read back: the entry found carries the
    data of the (unique) member of that name -/
theorem find_of_view {bs : Bytes} {es : List Entry} {ms : List Member}
    (hv : es.map (entryView bs) = ms.map view) (hnd : (ms.map (·.name)).Nodup)
    {m : Member} (hm : m ∈ ms) :
    ∃ b, find m.name es = some b ∧ Ar.data bs b = m.data := by
  have hnames := names_of_view hv
  have hmem : m.name ∈ es.map (·.name) := by
    rw [hnames]; exact List.mem_map.mpr ⟨m, hm, rfl⟩
  obtain ⟨e, he, hen⟩ := List.mem_map.mp hmem
  cases hf : find m.name es with
  | none =>
    unfold find at hf
    rw [List.find?_eq_none] at hf
    exact absurd (by simpa using hen) (hf e he)
  | some b =>
    refine ⟨b, rfl, ?_⟩
    unfold find at hf
    have hb := List.mem_of_find?_eq_some hf
    have hbn : b.name = m.name := by simpa using List.find?_some hf
    have : entryView bs b ∈ ms.map view := by
      rw [← hv]; exact List.mem_map.mpr ⟨b, hb, rfl⟩
    obtain ⟨m', hm', hvm⟩ := List.mem_map.mp this
    have hn' : m'.name = m.name := by
      have := congrArg View.name hvm
      simp only [view, entryView] at this
      rw [this, hbn]
    have : m' = m := eq_of_nodup_map hnd hm' hm hn'
    subst this
    have := congrArg View.data hvm
    simpa [view, entryView] using this.symm

/-- the members selected by a predicate on the name, on the entries read back -/
theorem filter_of_view {bs : Bytes} {es : List Entry} {ms : List Member}
    (hv : es.map (entryView bs) = ms.map view) (q : Bytes → Bool) {n : Bytes}
    (h : (ms.filter (fun m => q m.name)).map (·.name) = [n]) :
    ∃ c, es.filter (fun e => q e.name) = [c] ∧ c.name = n := by
  have hnames := names_of_view hv
  have e1 : (es.filter (fun e => q e.name)).map (·.name) = (es.map (·.name)).filter q := by
    rw [List.filter_map]; rfl
  have e2 : (ms.filter (fun m => q m.name)).map (·.name) = (ms.map (·.name)).filter q := by
    rw [List.filter_map]; rfl
  rw [hnames, ← e2, h] at e1
  cases hl : es.filter (fun e => q e.name) with
  | nil => rw [hl] at e1; cases e1
  | cons c rest =>
    rw [hl] at e1
    cases rest with
    | nil =>
      simp only [List.map_cons, List.map_nil, List.cons.injEq, and_true] at e1
      exact ⟨c, rfl, e1⟩
    | cons _ _ => simp at e1

/-- `plan` on a well-formed package built by the archive specification -/
theorem plan_built (ms : List Member) {ctlName dataName : Bytes}
    (hw : ms.all wfMember = true) (hnd : (ms.map (·.name)).Nodup)
    (hb : ∃ m ∈ ms, m.name = sDebianBinary ∧ m.data = [50, 46, 48, 10])
    (hc : (ms.filter (fun m => Str.hasPrefix m.name sControlDot)).map (·.name) = [ctlName])
    (hd : (ms.filter (fun m => Str.hasPrefix m.name sDataDot)).map (·.name) = [dataName])
    (htc : isTarfile ctlName = true) (htd : isTarfile dataName = true) :
    ∃ p, plan (build ms) = .ok p ∧ p.members.map (·.name) = ms.map (·.name) ∧
      p.control.name = ctlName ∧ p.data.name = dataName := by
  obtain ⟨hr, hv⟩ := readAll_build ms hw
  have hnames := names_of_view hv
  obtain ⟨m, hm, hmn, hmd⟩ := hb
  obtain ⟨b, hfb, hdb⟩ := find_of_view hv hnd hm
  rw [hmn] at hfb
  rw [hmd] at hdb
  obtain ⟨c, hcs, hcn⟩ := filter_of_view hv (fun n => Str.hasPrefix n sControlDot) hc
  obtain ⟨d, hds, hdn⟩ := filter_of_view hv (fun n => Str.hasPrefix n sDataDot) hd
  refine ⟨⟨entriesOf 8 ms, c, d⟩, ?_, hnames, hcn, hdn⟩
  exact plan_intro hr (by rw [hnames]; exact hnd) hfb hdb hcs hds (by rw [hcn]; exact htc)
    (by rw [hdn]; exact htd)

theorem load_built (ms : List Member) (schema : Codec.Schema) {ctlName dataName content : Bytes}
    {rec : List Codec.Val}
    (hw : ms.all wfMember = true) (hnd : (ms.map (·.name)).Nodup)
    (hb : ∃ m ∈ ms, m.name = sDebianBinary ∧ m.data = [50, 46, 48, 10])
    (hc : (ms.filter (fun m => Str.hasPrefix m.name sControlDot)).map (·.name) = [ctlName])
    (hd : (ms.filter (fun m => Str.hasPrefix m.name sDataDot)).map (·.name) = [dataName])
    (htc : isTarfile ctlName = true) (htd : isTarfile dataName = true)
    (es : List (Bytes × Option Bytes)) {n : Bytes}
    (hfind : es.find? (fun (n, _) => Path.clean n = sControl) = some (n, some content))
    (hu : Codec.unmarshal schema content = .ok rec) :
    ∃ l, load (build ms) schema (.entries es false) true = .ok l ∧ l.control = rec ∧
      l.controlExt = ctlName.drop 8 ∧ l.dataExt = dataName.drop 5 ∧
      l.members = ms.map (·.name) := by
  obtain ⟨p, hp, hpn, hpc, hpd⟩ := plan_built ms hw hnd hb hc hd htc htd
  refine ⟨_, load_intro hp hfind hu, rfl, ?_, ?_, hpn⟩
  · rw [hpc]
  · rw [hpd]

end GoDebian.Lemmas.Deb
