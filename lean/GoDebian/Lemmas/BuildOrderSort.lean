/-
  Lemmas about the topological sort of Model/BuildOrder.lean (`pass`, `sortNodes`),
  for an arbitrary edge list `es` and node list `nodes`.

  * `gens es l marked` is the list of nodes one pass over `l` marks, in order; `pass` is
    expressed through it (`pass_eq`).
  * `Inv`: the marked list (newest first) has no duplicates, consists of nodes, and every
    marked node has all its inbound neighbours marked EARLIER (`Ord`).
  * `um`: the number of unmarked node occurrences, the termination measure.
  * a pass over a list that contains an unmarked node whose inbound neighbours are all
    marked outputs something (`gens_progress`); with a rank function such a node exists
    whenever there is an unmarked node (`exists_ready`).
-/
import GoDebian.Model.BuildOrder

namespace GoDebian.Lemmas.BuildOrder
open GoDebian GoDebian.BuildOrder

abbrev Edges := List (Bytes × Bytes)

/-! ### inbound -/

theorem mem_inbound {es : Edges} {n f : Bytes} : f ∈ inbound es n ↔ (n, f) ∈ es := by
  unfold inbound
  rw [List.mem_map]
  constructor
  · rintro ⟨⟨a, b⟩, hp, rfl⟩
    rw [List.mem_filter] at hp
    have : a = n := by simpa using hp.2
    subst this
    exact hp.1
  · intro h
    exact ⟨(n, f), List.mem_filter.mpr ⟨h, by simp⟩, rfl⟩

theorem contains_true {l : List Bytes} {a : Bytes} : l.contains a = true ↔ a ∈ l :=
  List.contains_iff_mem

theorem contains_false {l : List Bytes} {a : Bytes} : l.contains a = false ↔ a ∉ l := by
  rw [← contains_true]
  cases l.contains a <;> simp

/-- the test `sortSingleNodes` makes on a node -/
theorem ready_iff {es : Edges} {marked : List Bytes} {n : Bytes} :
    (inbound es n).all (marked.contains ·) = true ↔ ∀ f, (n, f) ∈ es → f ∈ marked := by
  rw [List.all_eq_true]
  constructor
  · intro h f hf
    exact contains_true.mp (h f (mem_inbound.mpr hf))
  · intro h f hf
    exact contains_true.mpr (h f (mem_inbound.mp hf))

/-! ### one pass -/

/-- the nodes a pass over `l` marks, in order -/
def gens (es : Edges) : List Bytes → List Bytes → List Bytes
  | [], _ => []
  | n :: rest, marked =>
    if marked.contains n then gens es rest marked
    else if (inbound es n).all (marked.contains ·) then n :: gens es rest (n :: marked)
    else gens es rest marked

theorem gens_nil (es : Edges) (marked : List Bytes) : gens es [] marked = [] := rfl

theorem gens_marked {es : Edges} {n : Bytes} {rest marked : List Bytes} (h : n ∈ marked) :
    gens es (n :: rest) marked = gens es rest marked := by
  rw [gens, if_pos (contains_true.mpr h)]

theorem gens_ready {es : Edges} {n : Bytes} {rest marked : List Bytes} (h : n ∉ marked)
    (hr : ∀ f, (n, f) ∈ es → f ∈ marked) :
    gens es (n :: rest) marked = n :: gens es rest (n :: marked) := by
  have h1 : ¬ marked.contains n = true := fun e => h (contains_true.mp e)
  rw [gens, if_neg h1, if_pos (ready_iff.mpr hr)]

theorem gens_blocked {es : Edges} {n : Bytes} {rest marked : List Bytes} (h : n ∉ marked)
    (hr : ¬ ∀ f, (n, f) ∈ es → f ∈ marked) :
    gens es (n :: rest) marked = gens es rest marked := by
  have h1 : ¬ marked.contains n = true := fun e => h (contains_true.mp e)
  have h2 : ¬ (inbound es n).all (marked.contains ·) = true := fun e => hr (ready_iff.mp e)
  rw [gens, if_neg h1, if_neg h2]

/-- `pass` in terms of `gens`: the newly marked nodes are pushed onto `marked`, appended
    to `gen`, and `unpruned` is raised iff some scanned node was unmarked at the start -/
theorem pass_eq (es : Edges) (l marked gen : List Bytes) (u : Bool) :
    pass es l marked gen u =
      ((gens es l marked).reverse ++ marked, gen ++ gens es l marked,
        u || l.any (fun n => !marked.contains n)) := by
  induction l generalizing marked gen u with
  | nil => simp [pass, gens]
  | cons n rest ih =>
    by_cases h1 : marked.contains n = true
    · rw [pass, gens, if_pos h1, if_pos h1, ih]
      have h1' : n ∈ marked := contains_true.mp h1
      simp [h1']
    · by_cases h2 : (inbound es n).all (marked.contains ·) = true
      · rw [pass, gens, if_neg h1, if_neg h1, if_pos h2, if_pos h2, ih]
        have h1' : n ∉ marked := fun e => h1 (contains_true.mpr e)
        simp [h1']
      · rw [pass, gens, if_neg h1, if_neg h1, if_neg h2, if_neg h2, ih]
        have h1' : n ∉ marked := fun e => h1 (contains_true.mpr e)
        simp [h1']

/-! ### the invariant -/

/-- newest first: every element has all its inbound neighbours further down -/
def Ord (es : Edges) : List Bytes → Prop
  | [] => True
  | x :: m => (∀ f, (x, f) ∈ es → f ∈ m) ∧ Ord es m

structure Inv (es : Edges) (nodes marked : List Bytes) : Prop where
  nodup : marked.Nodup
  ord : Ord es marked
  sub : ∀ x ∈ marked, x ∈ nodes

theorem Inv.nil (es : Edges) (nodes : List Bytes) : Inv es nodes [] :=
  ⟨List.nodup_nil, trivial, fun _ h => nomatch h⟩

theorem Inv.cons {es : Edges} {nodes marked : List Bytes} {n : Bytes} (hi : Inv es nodes marked)
    (hn : n ∈ nodes) (hm : n ∉ marked) (hr : ∀ f, (n, f) ∈ es → f ∈ marked) :
    Inv es nodes (n :: marked) :=
  ⟨List.nodup_cons.mpr ⟨hm, hi.nodup⟩, ⟨hr, hi.ord⟩, fun x hx => by
    rcases List.mem_cons.mp hx with e | e
    · exact e ▸ hn
    · exact hi.sub x e⟩

theorem gens_inv {es : Edges} {nodes : List Bytes} (l : List Bytes) (hl : ∀ x ∈ l, x ∈ nodes) :
    ∀ marked, Inv es nodes marked → Inv es nodes ((gens es l marked).reverse ++ marked) := by
  induction l with
  | nil => intro marked hi; simpa [gens] using hi
  | cons n rest ih =>
    have hrest : ∀ x ∈ rest, x ∈ nodes := fun x hx => hl x (List.mem_cons_of_mem _ hx)
    intro marked hi
    by_cases h1 : n ∈ marked
    · rw [gens_marked h1]; exact ih hrest marked hi
    · by_cases h2 : ∀ f, (n, f) ∈ es → f ∈ marked
      · rw [gens_ready h1 h2]
        have := ih hrest (n :: marked) (hi.cons (hl n List.mem_cons_self) h1 h2)
        simpa using this
      · rw [gens_blocked h1 h2]; exact ih hrest marked hi

/-! ### the measure -/

/-- number of unmarked node occurrences -/
def um (nodes marked : List Bytes) : Nat := (nodes.filter (fun n => !marked.contains n)).length

theorem um_nil (nodes : List Bytes) : um nodes [] = nodes.length := by
  simp [um]

theorem um_cons_nodes (x : Bytes) (nodes marked : List Bytes) :
    um (x :: nodes) marked = (if x ∈ marked then 0 else 1) + um nodes marked := by
  unfold um
  by_cases h : x ∈ marked
  · simp [h]
  · simp [h]; omega

theorem um_cons_le (nodes marked : List Bytes) (n : Bytes) :
    um nodes (n :: marked) ≤ um nodes marked := by
  induction nodes with
  | nil => simp [um]
  | cons x nodes ih =>
    rw [um_cons_nodes, um_cons_nodes]
    by_cases h : x ∈ marked
    · simp [h]; exact ih
    · by_cases h' : x = n
      · simp [h']; omega
      · simp [h, h']; omega

theorem um_cons_lt {nodes marked : List Bytes} {n : Bytes} (hn : n ∈ nodes) (hm : n ∉ marked) :
    um nodes (n :: marked) < um nodes marked := by
  induction nodes with
  | nil => cases hn
  | cons x nodes ih =>
    rw [um_cons_nodes, um_cons_nodes]
    by_cases h' : x = n
    · subst h'
      have := um_cons_le nodes marked x
      simp [hm]; omega
    · have hn' : n ∈ nodes := by
        rcases List.mem_cons.mp hn with e | e
        · exact absurd e.symm h'
        · exact e
      have := ih hn'
      by_cases h : x ∈ marked
      · simp [h]; omega
      · simp [h, h']; omega

theorem gens_um {es : Edges} {nodes : List Bytes} (l : List Bytes) (hl : ∀ x ∈ l, x ∈ nodes) :
    ∀ marked, um nodes ((gens es l marked).reverse ++ marked) + (gens es l marked).length
      ≤ um nodes marked := by
  induction l with
  | nil => intro marked; simp [gens]
  | cons n rest ih =>
    have hrest : ∀ x ∈ rest, x ∈ nodes := fun x hx => hl x (List.mem_cons_of_mem _ hx)
    intro marked
    by_cases h1 : n ∈ marked
    · rw [gens_marked h1]; exact ih hrest marked
    · by_cases h2 : ∀ f, (n, f) ∈ es → f ∈ marked
      · rw [gens_ready h1 h2]
        have h3 := ih hrest (n :: marked)
        have h4 := um_cons_lt (hl n List.mem_cons_self) h1
        have e : (n :: gens es rest (n :: marked)).reverse ++ marked
            = (gens es rest (n :: marked)).reverse ++ n :: marked := by simp
        rw [e, List.length_cons]
        omega
      · rw [gens_blocked h1 h2]; exact ih hrest marked

/-! ### progress -/

/-- a pass that scans an unmarked node all of whose inbound neighbours are marked outputs
    something -/
theorem gens_progress {es : Edges} {n : Bytes} (l : List Bytes) :
    ∀ marked, n ∈ l → n ∉ marked → (∀ f, (n, f) ∈ es → f ∈ marked) → gens es l marked ≠ [] := by
  induction l with
  | nil => intro _ h; cases h
  | cons x rest ih =>
    intro marked hn hm hr
    by_cases h1 : x ∈ marked
    · rw [gens_marked h1]
      have : n ∈ rest := by
        rcases List.mem_cons.mp hn with e | e
        · exact absurd (e ▸ h1) hm
        · exact e
      exact ih marked this hm hr
    · by_cases h2 : ∀ f, (x, f) ∈ es → f ∈ marked
      · rw [gens_ready h1 h2]; exact List.cons_ne_nil _ _
      · rw [gens_blocked h1 h2]
        have : n ∈ rest := by
          rcases List.mem_cons.mp hn with e | e
          · exact absurd (e ▸ hr) h2
          · exact e
        exact ih marked this hm hr

/-- with a rank function that decreases along edges, and edges that only come from nodes,
    an unmarked node yields an unmarked node that is ready -/
theorem exists_ready {es : Edges} {nodes marked : List Bytes} (rank : Bytes → Nat)
    (hrank : ∀ to from_, (to, from_) ∈ es → rank from_ < rank to)
    (hfrom : ∀ to from_, (to, from_) ∈ es → from_ ∈ nodes) :
    ∀ k n, rank n < k → n ∈ nodes → n ∉ marked →
      ∃ n', n' ∈ nodes ∧ n' ∉ marked ∧ ∀ f, (n', f) ∈ es → f ∈ marked := by
  intro k
  induction k with
  | zero => intro n h; cases h
  | succ k ih =>
    intro n hk hn hm
    by_cases hr : ∀ f, (n, f) ∈ es → f ∈ marked
    · exact ⟨n, hn, hm, hr⟩
    · rcases Classical.not_forall.mp hr with ⟨f, hf⟩
      rcases not_imp.mp hf with ⟨he, hfm⟩
      have := hrank n f he
      exact ih f (by omega) (hfrom n f he) hfm

/-! ### the loop -/

theorem sortNodes_succ (es : Edges) (nodes : List Bytes) (fuel : Nat) (marked out : List Bytes) :
    sortNodes es nodes (fuel + 1) marked out =
      if (nodes.any (fun n => !marked.contains n) && (gens es nodes marked).isEmpty) = true then
        .error .err
      else if (gens es nodes marked).isEmpty = true then .ok out
      else sortNodes es nodes fuel ((gens es nodes marked).reverse ++ marked)
        (out ++ gens es nodes marked) := by
  rw [sortNodes, pass_eq]
  simp

theorem any_unmarked_false {nodes marked : List Bytes}
    (h : nodes.any (fun n => !marked.contains n) = false) : ∀ n ∈ nodes, n ∈ marked := by
  intro n hn
  rw [List.any_eq_false] at h
  have := h n hn
  have : marked.contains n = true := by simpa using this
  exact contains_true.mp this

theorem any_unmarked_true {nodes marked : List Bytes}
    (h : nodes.any (fun n => !marked.contains n) = true) : ∃ n, n ∈ nodes ∧ n ∉ marked := by
  rcases List.any_eq_true.mp h with ⟨n, hn, hc⟩
  have : marked.contains n = false := by simpa using hc
  exact ⟨n, hn, contains_false.mp this⟩

/-- the fuel suffices: each continuing pass marks at least one node occurrence -/
theorem sortNodes_not_fuel (es : Edges) (nodes : List Bytes) :
    ∀ fuel marked out, um nodes marked < fuel → sortNodes es nodes fuel marked out ≠ .error .fuel := by
  intro fuel
  induction fuel with
  | zero => intro _ _ h; cases h
  | succ fuel ih =>
    intro marked out h
    rw [sortNodes_succ]
    split
    · simp
    · split
      · simp
      · rename_i hg
        have hlen : 0 < (gens es nodes marked).length := by
          cases hgs : gens es nodes marked with
          | nil => rw [hgs] at hg; simp at hg
          | cons _ _ => simp
        have := gens_um (es := es) nodes (fun _ hx => hx) marked
        exact ih _ _ (by omega)

/-- a successful sort ends with every node marked; its output is the marked list, oldest
    first -/
theorem sortNodes_ok (es : Edges) (nodes : List Bytes) :
    ∀ fuel marked out r, sortNodes es nodes fuel marked out = .ok r → Inv es nodes marked →
      out = marked.reverse → ∃ m, Inv es nodes m ∧ r = m.reverse ∧ ∀ n ∈ nodes, n ∈ m := by
  intro fuel
  induction fuel with
  | zero => intro _ _ _ h; simp [sortNodes] at h
  | succ fuel ih =>
    intro marked out r h hi ho
    rw [sortNodes_succ] at h
    split at h
    · simp at h
    · rename_i hc
      split at h
      · rename_i hg
        rw [hg, Bool.and_true] at hc
        have hany : nodes.any (fun n => !marked.contains n) = false := by simpa using hc
        have hr : out = r := by simpa using h
        exact ⟨marked, hi, hr ▸ ho, any_unmarked_false hany⟩
      · refine ih _ _ r h (gens_inv nodes (fun _ hx => hx) marked hi) ?_
        rw [ho]; simp

/-- with a rank function (and edges that only come from nodes) the sort succeeds -/
theorem sortNodes_rank_ok {es : Edges} {nodes : List Bytes} (rank : Bytes → Nat)
    (hrank : ∀ to from_, (to, from_) ∈ es → rank from_ < rank to)
    (hfrom : ∀ to from_, (to, from_) ∈ es → from_ ∈ nodes) :
    ∀ fuel marked out, um nodes marked < fuel → ∃ r, sortNodes es nodes fuel marked out = .ok r := by
  intro fuel
  induction fuel with
  | zero => intro _ _ h; cases h
  | succ fuel ih =>
    intro marked out h
    rw [sortNodes_succ]
    cases hgs : gens es nodes marked with
    | nil =>
      cases hany : nodes.any (fun n => !marked.contains n) with
      | false => exact ⟨out, by simp⟩
      | true =>
        exfalso
        rcases any_unmarked_true hany with ⟨n, hn, hm⟩
        rcases exists_ready rank hrank hfrom (rank n + 1) n (Nat.lt_succ_self _) hn hm with
          ⟨n', hn', hm', hr'⟩
        exact gens_progress nodes marked hn' hm' hr' hgs
    | cons g gs =>
      have := gens_um (es := es) nodes (fun _ hx => hx) marked
      rw [hgs, List.length_cons] at this
      rcases ih ((g :: gs).reverse ++ marked) (out ++ g :: gs) (by omega) with ⟨r, hr⟩
      exact ⟨r, by simpa using hr⟩

/-! ### consequences of `Ord` -/

/-- in the output (oldest first) every inbound neighbour of a marked node comes strictly
    before it -/
theorem ord_index {es : Edges} :
    ∀ m : List Bytes, Ord es m → ∀ to from_, to ∈ m → (to, from_) ∈ es →
      ∃ i j : Nat, m.reverse[i]? = some from_ ∧ m.reverse[j]? = some to ∧ i < j := by
  intro m
  induction m with
  | nil => intro _ _ _ h; cases h
  | cons x m ih =>
    intro ho to from_ hto he
    rw [List.reverse_cons]
    by_cases hx : to = x
    · subst hx
      have hf : from_ ∈ m.reverse := List.mem_reverse.mpr (ho.1 from_ he)
      rcases List.mem_iff_getElem?.mp hf with ⟨i, hi⟩
      have hil : i < m.reverse.length := by
        rcases List.getElem?_eq_some_iff.mp hi with ⟨hl, _⟩
        exact hl
      refine ⟨i, m.reverse.length, ?_, ?_, hil⟩
      · rw [List.getElem?_append_left hil]; exact hi
      · rw [List.getElem?_append_right (Nat.le_refl _)]; simp
    · have hto' : to ∈ m := by
        rcases List.mem_cons.mp hto with e | e
        · exact absurd e hx
        · exact e
      rcases ih ho.2 to from_ hto' he with ⟨i, j, hi, hj, hij⟩
      have hjl : j < m.reverse.length := by
        rcases List.getElem?_eq_some_iff.mp hj with ⟨hl, _⟩
        exact hl
      refine ⟨i, j, ?_, ?_, hij⟩
      · rw [List.getElem?_append_left (by omega)]; exact hi
      · rw [List.getElem?_append_left hjl]; exact hj

/-- inbound neighbours of marked nodes are marked -/
theorem ord_mem {es : Edges} :
    ∀ m : List Bytes, Ord es m → ∀ to from_, to ∈ m → (to, from_) ∈ es → from_ ∈ m := by
  intro m
  induction m with
  | nil => intro _ _ _ h; cases h
  | cons x m ih =>
    intro ho to from_ hto he
    rcases List.mem_cons.mp hto with e | e
    · subst e; exact List.mem_cons_of_mem _ (ho.1 from_ he)
    · exact List.mem_cons_of_mem _ (ih ho.2 to from_ e he)

/-- position from the bottom of the marked list (0 for elements that are not in it) -/
def rk : List Bytes → Bytes → Nat
  | [], _ => 0
  | x :: m, y => if x = y then m.length + 1 else rk m y

theorem rk_le (m : List Bytes) (y : Bytes) : rk m y ≤ m.length := by
  induction m with
  | nil => simp [rk]
  | cons x m ih =>
    rw [rk]
    split
    · simp
    · simp; omega

/-- `rk` increases along edges into marked nodes -/
theorem rk_lt {es : Edges} :
    ∀ m : List Bytes, m.Nodup → Ord es m → ∀ to from_, to ∈ m → (to, from_) ∈ es →
      rk m from_ < rk m to := by
  intro m
  induction m with
  | nil => intro _ _ _ _ h; cases h
  | cons x m ih =>
    intro hn ho to from_ hto he
    rcases List.nodup_cons.mp hn with ⟨hxm, hnm⟩
    by_cases hx : to = x
    · subst hx
      have hf : from_ ∈ m := ho.1 from_ he
      have hne : ¬ to = from_ := fun e => hxm (e ▸ hf)
      have := rk_le m from_
      simp [rk, hne]; omega
    · have hto' : to ∈ m := by
        rcases List.mem_cons.mp hto with e | e
        · exact absurd e hx
        · exact e
      have hlt := ih hnm ho.2 to from_ hto' he
      have hx' : ¬ x = to := fun e => hx e.symm
      have hfm : from_ ∈ m := ord_mem m ho.2 to from_ hto' he
      have hne : ¬ x = from_ := fun e => hxm (e ▸ hfm)
      simp [rk, hx', hne]; exact hlt

/-- a strictly increasing function around a cycle is impossible -/
theorem no_cycle (r : Bytes → Nat) (cyc : List Bytes) (hne : cyc ≠ [])
    (h : ∀ i, i < cyc.length → r cyc[i]! < r cyc[(i + 1) % cyc.length]!) : False := by
  have hpos : 0 < cyc.length := List.length_pos_iff.mpr hne
  have key : ∀ i, i < cyc.length → r cyc[0]! + i ≤ r cyc[i]! := by
    intro i
    induction i with
    | zero => intro _; simp
    | succ i ih =>
      intro hi
      have h1 := ih (by omega)
      have h2 := h i (by omega)
      rw [Nat.mod_eq_of_lt hi] at h2
      omega
  have h1 := key (cyc.length - 1) (by omega)
  have h2 := h (cyc.length - 1) (by omega)
  have e : (cyc.length - 1 + 1) % cyc.length = 0 := by
    rw [Nat.sub_add_cancel hpos, Nat.mod_self]
  rw [e] at h2
  omega

end GoDebian.Lemmas.BuildOrder
