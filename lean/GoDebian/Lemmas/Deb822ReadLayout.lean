/-
  What `render` produces, with the choice stream abstracted away: the contents of the
  physical lines of a rendered document follow the grammar `BodyC` (comment lines,
  field lines, continuation lines, runs of empty lines between paragraphs), surrounded by
  empty lines; every line terminator is LF or CRLF (`AllEol`).  Core Lean only.
-/
import GoDebian.Lemmas.Deb822ReadLines

namespace GoDebian.Lemmas.Deb822ReadLayout
open GoDebian GoDebian.Deb822 GoDebian.Spec.Deb822 GoDebian.Lemmas.Deb822ReadLines

/-! ### the grammar of line contents -/

/-- the white space `Spec.Deb822.trailing` may put at the end of a line: nothing, blank,
    tab, two blanks, U+00A0, U+0085, U+2003, U+2028, U+3000 (UTF-8), VT, FF -/
def trailAlts : List Bytes :=
  [[], [32], [9], [32, 32], [194, 160], [194, 133], [226, 128, 131], [226, 128, 168],
   [227, 128, 128], [11], [12]]

def Trail (t : Bytes) : Prop := t ∈ trailAlts
def Pad (p : Bytes) : Prop := p = [32] ∨ p = [] ∨ p = [32, 32] ∨ p = [9]

/-- a comment line -/
def CommentC (c : Bytes) : Prop := ∃ r, c = 35 :: r

/-- the continuation line for the logical line `x` -/
def ContC (x c : Bytes) : Prop :=
  ∃ m t, (m = 32 ∨ m = 9) ∧ Trail t ∧ c = m :: ((if x.isEmpty then [46] else x) ++ t)

/-- the field's own line -/
def FieldC (f : Field) (c : Bytes) : Prop :=
  ∃ pad t, Pad pad ∧ Trail t ∧
    c = f.name ++ [58] ++ (if f.first.isEmpty then [] else pad) ++ f.first ++ t

inductive ContsC : List Bytes → List Bytes → Prop
  | nil : ContsC [] []
  | comment {xs cl : List Bytes} {c : Bytes} : CommentC c → ContsC xs cl → ContsC xs (c :: cl)
  | cons {x : Bytes} {xs cl : List Bytes} {c : Bytes} :
      ContC x c → ContsC xs cl → ContsC (x :: xs) (c :: cl)

inductive FieldLC (f : Field) : List Bytes → Prop
  | comment {cl : List Bytes} {c : Bytes} : CommentC c → FieldLC f cl → FieldLC f (c :: cl)
  | line {cl : List Bytes} {c : Bytes} : FieldC f c → ContsC f.conts cl → FieldLC f (c :: cl)

inductive ParaC : Para → List Bytes → Prop
  | nil : ParaC [] []
  | cons {f : Field} {fs : Para} {a b : List Bytes} :
      FieldLC f a → ParaC fs b → ParaC (f :: fs) (a ++ b)

/-- a non-empty sequence of paragraphs separated by one or more empty lines -/
inductive BodyC : Doc → List Bytes → Prop
  | one {p : Para} {cl : List Bytes} : ParaC p cl → BodyC [p] cl
  | cons {p q : Para} {d : Doc} {a b : List Bytes} (n : Nat) :
      ParaC p a → BodyC (q :: d) b → BodyC (p :: q :: d) (a ++ List.replicate (n + 1) [] ++ b)

/-! ### well-formedness, unpacked -/

theorem wfCont_iff {c : Bytes} (h : wfCont c = true) :
    Str.trimRightSpace c = c ∧ 10 ∉ c ∧ 13 ∉ c ∧ c ≠ [46] := by
  simpa [wfCont, and_assoc] using h

theorem wfFirst_iff {v : Bytes} (h : wfFirst v = true) :
    Str.trimSpace v = v ∧ 10 ∉ v ∧ 13 ∉ v := by
  simpa [wfFirst, trimmed, and_assoc] using h

theorem wfName_iff {n : Bytes} (h : wfName n = true) :
    n ≠ [] ∧ Str.hasSpaceRune n = false ∧ 58 ∉ n ∧ n.head? ≠ some 35 ∧ 10 ∉ n ∧ 13 ∉ n := by
  simpa [wfName, noSpaceRune, and_assoc] using h

theorem wfField_iff {f : Field} (h : wfField f = true) :
    wfName f.name = true ∧ wfFirst f.first = true ∧ ∀ c ∈ f.conts, wfCont c = true := by
  simpa [wfField, and_assoc] using h

theorem wfPara_iff {p : Para} (h : wfPara p = true) :
    p ≠ [] ∧ (∀ f ∈ p, wfField f = true) ∧ nodupNames (p.map (·.name)) = true := by
  simpa [wfPara, and_assoc] using h

/-! ### the choice-stream primitives -/

theorem eol_spec (cs : Choices) : Eol (eol cs).1 := by
  unfold eol
  simp only
  split
  · exact Or.inl rfl
  · exact Or.inr rfl

theorem trailing_spec (cs : Choices) : Trail (trailing cs).1 := by
  unfold trailing Trail
  simp only
  split <;> decide

theorem pad_spec (cs : Choices) : Pad (padAfterColon cs).1 := by
  unfold padAfterColon Pad
  simp only
  split <;> simp

theorem commentLine_spec (cs : Choices) :
    (commentLine cs).1 = [] ∨ ∃ e, Eol e ∧ (commentLine cs).1 = [35, 32, 110, 111, 116, 101] ++ e := by
  unfold commentLine
  simp only
  split
  · exact Or.inr ⟨_, eol_spec _, rfl⟩
  · exact Or.inl rfl

/-- the lines of a comment slot: none or one -/
theorem commentLine_lines (cs : Choices) :
    ∃ ps : List LP, (commentLine cs).1 = text ps ∧
      (ps = [] ∨ ∃ c e, ps = [(c, e)] ∧ CommentC c ∧ Eol e ∧ 10 ∉ c ∧ 13 ∉ c) := by
  rcases commentLine_spec cs with h | ⟨e, he, h⟩
  · exact ⟨[], by simp [h, text], Or.inl rfl⟩
  · exact ⟨[([35, 32, 110, 111, 116, 101], e)], by simp [h, text, cat],
      Or.inr ⟨_, _, rfl, ⟨_, rfl⟩, he, by decide, by decide⟩⟩

theorem blankLines_spec (n : Nat) (cs : Choices) :
    ∃ ps : List LP, (blankLines n cs).1 = text ps ∧ ps.map Prod.fst = List.replicate n [] ∧
      Clean ps := by
  induction n generalizing cs with
  | zero => exact ⟨[], rfl, rfl, clean_nil⟩
  | succ n ih =>
    obtain ⟨ps, h1, h2, h3⟩ := ih (eol cs).2
    refine ⟨([], (eol cs).1) :: ps, ?_, ?_, clean_cons ⟨eol_spec cs, by simp, by simp⟩ h3⟩
    · simp only [blankLines, text_cons, List.nil_append, h1]
    · simp [h2, List.replicate_succ]

/-! ### unfolding the renderers to projections -/

theorem renderConts_cons (c : Bytes) (rest : List Bytes) (cs : Choices) :
    renderConts (c :: rest) cs =
      let r1 := commentLine cs
      let r2 := pick 2 r1.2
      let r3 := trailing r2.2
      let r4 := eol r3.2
      let r5 := renderConts rest r4.2
      (r1.1 ++ (if r2.1 = 0 then [32] else [9]) ++ (if c.isEmpty then [46] else c) ++ r3.1
        ++ r4.1 ++ r5.1, r5.2) := rfl

theorem renderField_eq (f : Field) (cs : Choices) :
    renderField f cs =
      let r1 := commentLine cs
      let r2 := padAfterColon r1.2
      let r3 := trailing r2.2
      let r4 := eol r3.2
      let r5 := renderConts f.conts r4.2
      (r1.1 ++ f.name ++ [58] ++ (if f.first.isEmpty then [] else r2.1) ++ f.first ++ r3.1
        ++ r4.1 ++ r5.1, r5.2) := rfl

theorem renderPara_cons (f : Field) (rest : Para) (cs : Choices) :
    renderPara (f :: rest) cs =
      let r1 := renderField f cs
      let r2 := renderPara rest r1.2
      (r1.1 ++ r2.1, r2.2) := rfl

theorem renderParas_cons (p q : Para) (rest : Doc) (cs : Choices) :
    renderParas (p :: q :: rest) cs =
      let r1 := renderPara p cs
      let r2 := pick 3 r1.2
      let r3 := blankLines (r2.1 + 1) r2.2
      let r4 := renderParas (q :: rest) r3.2
      (r1.1 ++ r3.1 ++ r4.1, r4.2) := rfl

theorem render_eq (d : Doc) (cs : Choices) :
    render d cs =
      let r0 := pick 3 cs
      let r1 := blankLines r0.1 r0.2
      let r2 := renderParas d r1.2
      let r3 := pick 3 r2.2
      let r4 := blankLines r3.1 r3.2
      let r5 := pick 4 r4.2
      if r5.1 = 1 ∧ r3.1 = 0 then dropFinalEol (r1.1 ++ r2.1 ++ r4.1) else r1.1 ++ r2.1 ++ r4.1 :=
  rfl

/-! ### the renderers follow the grammar -/

/-- lines that are neither empty nor contain CR or LF, with proper terminators -/
def Good (ps : List LP) : Prop := ∀ p ∈ ps, Eol p.2 ∧ 10 ∉ p.1 ∧ 13 ∉ p.1 ∧ p.1 ≠ []

theorem Good.clean {ps : List LP} (h : Good ps) : Clean ps :=
  fun p hp => ⟨(h p hp).1, (h p hp).2.1, (h p hp).2.2.1⟩

theorem good_nil : Good [] := fun _ h => by cases h
theorem good_cons {p : LP} {ps : List LP} (hp : Eol p.2 ∧ 10 ∉ p.1 ∧ 13 ∉ p.1 ∧ p.1 ≠ [])
    (h : Good ps) : Good (p :: ps) := by
  intro q hq
  rcases List.mem_cons.mp hq with e | hq
  · subst e; exact hp
  · exact h q hq
theorem good_append {a b : List LP} (ha : Good a) (hb : Good b) : Good (a ++ b) := by
  intro q hq
  rcases List.mem_append.mp hq with hq | hq
  · exact ha q hq
  · exact hb q hq

theorem good_comment {ps : List LP}
    (h : ps = [] ∨ ∃ c e, ps = [(c, e)] ∧ CommentC c ∧ Eol e ∧ 10 ∉ c ∧ 13 ∉ c) : Good ps := by
  rcases h with h | ⟨c, e, h, ⟨r, hc⟩, he, h10, h13⟩
  · subst h; exact good_nil
  · subst h; exact good_cons ⟨he, h10, h13, by simp [hc]⟩ good_nil

theorem marker_spec (k : Nat) :
    ∃ m, (m = 32 ∨ m = 9) ∧ (if k = 0 then [32] else [9] : Bytes) = [m] := by
  split
  · exact ⟨32, Or.inl rfl, rfl⟩
  · exact ⟨9, Or.inr rfl, rfl⟩

theorem body_clean {x : Bytes} (h10 : 10 ∉ x) (h13 : 13 ∉ x) :
    10 ∉ (if x.isEmpty then [46] else x) ∧ 13 ∉ (if x.isEmpty then [46] else x) := by
  split <;> simp [h10, h13]

theorem trail_clean {t : Bytes} (h : Trail t) : 10 ∉ t ∧ 13 ∉ t := by
  have : ∀ t ∈ trailAlts, 10 ∉ t ∧ 13 ∉ t := by decide
  exact this t h

theorem pad_clean {t : Bytes} (h : Pad t) : 10 ∉ t ∧ 13 ∉ t := by
  rcases h with h | h | h | h <;> subst h <;> decide

/-- one continuation line (with its optional comment) in front of rendered ones -/
theorem conts_step {x : Bytes} {xs : List Bytes} (h10 : 10 ∉ x) (h13 : 13 ∉ x)
    {cmb : Bytes} {cm : List LP} (hcm : cmb = text cm)
    (hcm' : cm = [] ∨ ∃ c e, cm = [(c, e)] ∧ CommentC c ∧ Eol e ∧ 10 ∉ c ∧ 13 ∉ c)
    (k : Nat) {t e r : Bytes} (ht : Trail t) (he : Eol e) {ps : List LP} (hr : r = text ps)
    (hg : Good ps) (hc : ContsC xs (ps.map Prod.fst)) :
    ∃ ps' : List LP,
      cmb ++ (if k = 0 then [32] else [9]) ++ (if x.isEmpty then [46] else x) ++ t ++ e ++ r
        = text ps' ∧ Good ps' ∧ ContsC (x :: xs) (ps'.map Prod.fst) := by
  obtain ⟨m, hm, hm'⟩ := marker_spec k
  rw [hm']
  refine ⟨cm ++ (m :: ((if x.isEmpty then [46] else x) ++ t), e) :: ps, ?_, ?_, ?_⟩
  · simp [hcm, hr, text_append, text_cons]
  · refine good_append (good_comment hcm') (good_cons ⟨he, ?_, ?_, by simp⟩ hg)
    · have h1 := (body_clean h10 h13).1
      have h2 := (trail_clean ht).1
      generalize (if x.isEmpty then [46] else x) = body at h1 ⊢
      rcases hm with hm | hm <;> subst hm <;> simp [h1, h2]
    · have h1 := (body_clean h10 h13).2
      have h2 := (trail_clean ht).2
      generalize (if x.isEmpty then [46] else x) = body at h1 ⊢
      rcases hm with hm | hm <;> subst hm <;> simp [h1, h2]
  · have hcons : ContsC (x :: xs) ((m :: ((if x.isEmpty then [46] else x) ++ t)) :: ps.map Prod.fst) :=
      .cons ⟨m, t, hm, ht, rfl⟩ hc
    rcases hcm' with h | ⟨c, e0, h, hc0, _⟩
    · subst h; simpa using hcons
    · subst h; simpa using ContsC.comment hc0 hcons

theorem renderConts_spec (xs : List Bytes) (hwf : ∀ x ∈ xs, wfCont x = true) (cs : Choices) :
    ∃ ps : List LP, (renderConts xs cs).1 = text ps ∧ Good ps ∧ ContsC xs (ps.map Prod.fst) := by
  induction xs generalizing cs with
  | nil => exact ⟨[], rfl, good_nil, .nil⟩
  | cons x xs ih =>
    rw [renderConts_cons]
    simp only
    obtain ⟨_, hx10, hx13, _⟩ := wfCont_iff (hwf x (by simp))
    obtain ⟨cm, hcm, hcm'⟩ := commentLine_lines cs
    obtain ⟨ps, hps, hg, hc⟩ := ih (fun y hy => hwf y (List.mem_cons_of_mem _ hy))
      (eol (trailing (pick 2 (commentLine cs).2).2).2).2
    exact conts_step hx10 hx13 hcm hcm' _ (trailing_spec _) (eol_spec _) hps hg hc

/-- the field line (with its optional comment) in front of its continuation lines -/
theorem field_step {f : Field} (hn : wfName f.name = true) (hv : wfFirst f.first = true)
    {cmb : Bytes} {cm : List LP} (hcm : cmb = text cm)
    (hcm' : cm = [] ∨ ∃ c e, cm = [(c, e)] ∧ CommentC c ∧ Eol e ∧ 10 ∉ c ∧ 13 ∉ c)
    {pad t e r : Bytes} (hp : Pad pad) (ht : Trail t) (he : Eol e) {ps : List LP}
    (hr : r = text ps) (hg : Good ps) (hc : ContsC f.conts (ps.map Prod.fst)) :
    ∃ ps' : List LP,
      cmb ++ f.name ++ [58] ++ (if f.first.isEmpty then [] else pad) ++ f.first ++ t ++ e ++ r
        = text ps' ∧ Good ps' ∧ FieldLC f (ps'.map Prod.fst) ∧ ps' ≠ [] := by
  obtain ⟨hne, _, _, _, hn10, hn13⟩ := wfName_iff hn
  obtain ⟨_, hv10, hv13⟩ := wfFirst_iff hv
  refine ⟨cm ++ (f.name ++ [58] ++ (if f.first.isEmpty then [] else pad) ++ f.first ++ t, e) :: ps,
    ?_, ?_, ?_, by simp⟩
  · simp [hcm, hr, text_append, text_cons]
  · have hpc : 10 ∉ (if f.first.isEmpty then [] else pad) ∧ 13 ∉ (if f.first.isEmpty then [] else pad) := by
      split
      · simp
      · exact pad_clean hp
    refine good_append (good_comment hcm') (good_cons ⟨he, ?_, ?_, by simp [hne]⟩ hg)
    · have h2 := (trail_clean ht).1
      generalize (if f.first.isEmpty then [] else pad) = pd at hpc ⊢
      simp [hn10, hv10, h2, hpc.1]
    · have h2 := (trail_clean ht).2
      generalize (if f.first.isEmpty then [] else pad) = pd at hpc ⊢
      simp [hn13, hv13, h2, hpc.2]
  · have hline : FieldLC f ((f.name ++ [58] ++ (if f.first.isEmpty then [] else pad) ++ f.first ++ t)
        :: ps.map Prod.fst) := .line ⟨pad, t, hp, ht, rfl⟩ hc
    rcases hcm' with h | ⟨c, e0, h, hc0, _⟩
    · subst h; simpa using hline
    · subst h; simpa using FieldLC.comment hc0 hline

theorem renderField_spec (f : Field) (hwf : wfField f = true) (cs : Choices) :
    ∃ ps : List LP, (renderField f cs).1 = text ps ∧ Good ps ∧ FieldLC f (ps.map Prod.fst) ∧
      ps ≠ [] := by
  obtain ⟨hn, hv, hcs⟩ := wfField_iff hwf
  rw [renderField_eq]
  simp only
  obtain ⟨cm, hcm, hcm'⟩ := commentLine_lines cs
  obtain ⟨ps, hps, hg, hc⟩ := renderConts_spec f.conts hcs
    (eol (trailing (padAfterColon (commentLine cs).2).2).2).2
  exact field_step hn hv hcm hcm' (pad_spec _) (trailing_spec _) (eol_spec _) hps hg hc

theorem renderPara_spec (p : Para) (hwf : ∀ f ∈ p, wfField f = true) (cs : Choices) :
    ∃ ps : List LP, (renderPara p cs).1 = text ps ∧ Good ps ∧ ParaC p (ps.map Prod.fst) ∧
      (p ≠ [] → ps ≠ []) := by
  induction p generalizing cs with
  | nil => exact ⟨[], rfl, good_nil, .nil, fun h => absurd rfl h⟩
  | cons f fs ih =>
    rw [renderPara_cons]
    simp only
    obtain ⟨a, ha, hga, hfa, hne⟩ := renderField_spec f (hwf f (by simp)) cs
    obtain ⟨b, hb, hgb, hpb, _⟩ := ih (fun g hg => hwf g (List.mem_cons_of_mem _ hg))
      (renderField f cs).2
    refine ⟨a ++ b, by rw [ha, hb, text_append], good_append hga hgb, ?_, fun _ => by simp [hne]⟩
    rw [List.map_append]
    exact .cons hfa hpb

/-- a non-empty list of good lines ends with a non-empty line -/
theorem good_last {ps : List LP} (hg : Good ps) (hne : ps ≠ []) :
    ∃ init p, ps = init ++ [p] ∧ p.1 ≠ [] := by
  rcases List.eq_nil_or_concat ps with e | ⟨init, p, e⟩
  · exact absurd e hne
  · rw [List.concat_eq_append] at e
    exact ⟨init, p, e, (hg p (by simp [e])).2.2.2⟩

theorem renderParas_spec : ∀ (d : Doc) (_ : d ≠ []) (_ : ∀ p ∈ d, wfPara p = true) (cs : Choices),
    ∃ ps : List LP, (renderParas d cs).1 = text ps ∧ Clean ps ∧ BodyC d (ps.map Prod.fst) ∧
      ∃ init p, ps = init ++ [p] ∧ p.1 ≠ []
  | [], h, _, _ => absurd rfl h
  | [p], _, hwf, cs => by
    obtain ⟨hne, hf, _⟩ := wfPara_iff (hwf p (by simp))
    obtain ⟨ps, h1, hg, hp, hps⟩ := renderPara_spec p hf cs
    exact ⟨ps, h1, hg.clean, .one hp, good_last hg (hps hne)⟩
  | p :: q :: rest, _, hwf, cs => by
    obtain ⟨hne, hf, _⟩ := wfPara_iff (hwf p (by simp))
    rw [renderParas_cons]
    simp only
    obtain ⟨a, ha, hga, hpa, _⟩ := renderPara_spec p hf cs
    obtain ⟨bl, hbl, hbl', hcl⟩ := blankLines_spec ((pick 3 (renderPara p cs).2).1 + 1)
      (pick 3 (renderPara p cs).2).2
    obtain ⟨b, hb, hcb, hbb, init, l, hl, hl'⟩ := renderParas_spec (q :: rest) (by simp)
      (fun r hr => hwf r (List.mem_cons_of_mem _ hr))
      (blankLines ((pick 3 (renderPara p cs).2).1 + 1) (pick 3 (renderPara p cs).2).2).2
    refine ⟨a ++ bl ++ b, by rw [ha, hbl, hb, text_append, text_append],
      clean_append (clean_append hga.clean hcl) hcb, ?_, (a ++ bl) ++ init, l, by rw [hl]; simp, hl'⟩
    rw [List.map_append, List.map_append, hbl']
    exact .cons _ hpa hbb

/-! ### the physical lines of a rendered document -/

theorem replicate_nil_of_map {ps : List LP} {n : Nat} (h : ps.map Prod.fst = List.replicate n []) :
    ∀ p ∈ ps, p.1 = [] := by
  intro p hp
  have : p.1 ∈ ps.map Prod.fst := List.mem_map_of_mem hp
  rw [h] at this
  exact (List.mem_replicate.mp this).2

theorem physLines_text_lines {ps : List LP} (h : Clean ps) :
    physLines (text ps) = lines (ps.map Prod.fst) (eolsOf ps) ∧ AllEol (eolsOf ps) := by
  refine ⟨?_, allEol_eolsOf (fun p hp => (h p hp).1)⟩
  have := physLines_text h []
  rw [List.append_nil] at this
  rw [this, map_cat_eq_lines]
  simp [physLines, linesAux]

/-- The three parts of the text put together, with or without the final terminator. -/
theorem render_core (d : Doc) {leadB bodyB tailB : Bytes} {lead body tail : List LP} {n0 n1 : Nat}
    (hl : leadB = text lead) (hl' : lead.map Prod.fst = List.replicate n0 []) (hlc : Clean lead)
    (hb : bodyB = text body) (hbc : Clean body)
    (hbody : (d = [] ∧ body = []) ∨
      (BodyC d (body.map Prod.fst) ∧ ∃ init p, body = init ++ [p] ∧ p.1 ≠ []))
    (ht : tailB = text tail) (ht' : tail.map Prod.fst = List.replicate n1 []) (htc : Clean tail)
    (drop : Prop) [Decidable drop] (hdrop : drop → n1 = 0) :
    ∃ (n0 n1 : Nat) (cl : List Bytes) (E : Nat → Bytes), AllEol E ∧
      physLines (if drop then dropFinalEol (leadB ++ bodyB ++ tailB) else leadB ++ bodyB ++ tailB)
        = lines (List.replicate n0 [] ++ cl ++ List.replicate n1 []) E ∧
      ((d = [] ∧ cl = []) ∨ BodyC d cl) := by
  have hcl : (d = [] ∧ body.map Prod.fst = []) ∨ BodyC d (body.map Prod.fst) := by
    rcases hbody with ⟨h1, h2⟩ | ⟨h1, _⟩
    · exact Or.inl ⟨h1, by simp [h2]⟩
    · exact Or.inr h1
  by_cases hd : drop
  · rw [if_pos hd]
    have h0 := hdrop hd
    subst h0
    have : tail = [] := by simpa using ht'
    subst this
    subst ht
    rw [text_nil, List.append_nil, hl, hb, ← text_append]
    rcases hbody with ⟨h1, h2⟩ | ⟨h1, init, p, h2, hp⟩
    · subst h2
      rw [List.append_nil]
      rcases List.eq_nil_or_concat lead with e | ⟨init, p, e⟩
      · subst e
        exact ⟨0, 0, [], fun _ => [10], fun _ => Or.inl rfl, rfl, Or.inl ⟨h1, rfl⟩⟩
      · rw [List.concat_eq_append] at e
        subst e
        have hp : p.1 = [] := replicate_nil_of_map hl' p (by simp)
        have hi : Clean init := fun q hq => hlc q (by simp [hq])
        rw [dropFinalEol_blank hlc hp]
        obtain ⟨e1, e2⟩ := physLines_text_lines hi
        refine ⟨init.length, 0, [], _, e2, ?_, Or.inl ⟨h1, rfl⟩⟩
        rw [e1]
        congr 1
        rw [List.append_nil, List.replicate_zero, List.append_nil, List.eq_replicate_iff]
        refine ⟨by simp, fun b hb => ?_⟩
        obtain ⟨q, hq, rfl⟩ := List.mem_map.mp hb
        exact replicate_nil_of_map hl' q (by simp [hq])
    · subst h2
      have hfull : Clean ((lead ++ init) ++ [p]) := by
        rw [List.append_assoc]; exact clean_append hlc hbc
      rw [← List.append_assoc, physLines_dropFinalEol hfull hp, map_cat_eq_lines]
      refine ⟨n0, 0, (init ++ [p]).map Prod.fst, eolsOf ((lead ++ init) ++ [(p.1, [10])]),
        allEol_eolsOf ?_, ?_, Or.inr h1⟩
      · intro q hq
        rcases List.mem_append.mp hq with hq | hq
        · exact (hfull q (List.mem_append_left _ hq)).1
        · simp only [List.mem_singleton] at hq; subst hq; exact Or.inl rfl
      · congr 1
        simp [hl']
  · rw [if_neg hd, hl, hb, ht, ← text_append, ← text_append]
    have hfull : Clean (lead ++ body ++ tail) := clean_append (clean_append hlc hbc) htc
    obtain ⟨e1, e2⟩ := physLines_text_lines hfull
    refine ⟨n0, n1, body.map Prod.fst, _, e2, ?_, ?_⟩
    · rw [e1]; congr 1; simp [hl', ht']
    · rcases hcl with ⟨h1, h2⟩ | h1
      · exact Or.inl ⟨h1, h2⟩
      · exact Or.inr h1

theorem physLines_render (d : Doc) (cs : Choices) (h : wfDoc d = true) :
    ∃ (n0 n1 : Nat) (cl : List Bytes) (E : Nat → Bytes), AllEol E ∧
      physLines (render d cs) = lines (List.replicate n0 [] ++ cl ++ List.replicate n1 []) E ∧
      ((d = [] ∧ cl = []) ∨ BodyC d cl) := by
  have hwf : ∀ p ∈ d, wfPara p = true := by simpa [wfDoc] using h
  rw [render_eq]
  simp only
  obtain ⟨lead, hl, hl', hlc⟩ := blankLines_spec (pick 3 cs).1 (pick 3 cs).2
  have hbody : ∃ body : List LP, (renderParas d (blankLines (pick 3 cs).1 (pick 3 cs).2).2).1
      = text body ∧ Clean body ∧ ((d = [] ∧ body = []) ∨
        (BodyC d (body.map Prod.fst) ∧ ∃ init p, body = init ++ [p] ∧ p.1 ≠ [])) := by
    by_cases hd : d = []
    · subst hd; exact ⟨[], rfl, clean_nil, Or.inl ⟨rfl, rfl⟩⟩
    · obtain ⟨ps, h1, h2, h3, h4⟩ := renderParas_spec d hd hwf
        (blankLines (pick 3 cs).1 (pick 3 cs).2).2
      exact ⟨ps, h1, h2, Or.inr ⟨h3, h4⟩⟩
  obtain ⟨body, hb, hbc, hbody⟩ := hbody
  obtain ⟨tail, ht, ht', htc⟩ := blankLines_spec
    (pick 3 (renderParas d (blankLines (pick 3 cs).1 (pick 3 cs).2).2).2).1
    (pick 3 (renderParas d (blankLines (pick 3 cs).1 (pick 3 cs).2).2).2).2
  exact render_core d hl hl' hlc hb hbc hbody ht ht' htc _ (fun h => h.2)

end GoDebian.Lemmas.Deb822ReadLayout
