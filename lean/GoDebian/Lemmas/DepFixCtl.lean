/-
  The controllers loop and the possibility loop consume exactly the canonical rendering
  `name[:arch][ [archs]][ (op num)][ <stages>]*` of a package possibility that satisfies
  the output invariant.  Core Lean only.
-/
import GoDebian.Lemmas.DepFixRender
import GoDebian.Lemmas.DepFixTotal

namespace GoDebian.Lemmas.DepFix
open GoDebian GoDebian.Dep

/-! ### what follows a possibility in a rendering -/

/-- the end, `, …` or ` | …` -/
def TailOk (t : Bytes) : Prop := t = [] ∨ (∃ m, t = 44 :: m) ∨ (∃ m, t = 32 :: 124 :: m)

theorem tailOk_term {t : Bytes} (h : TailOk t) : term (peek (eatWs t)) = true := by
  rcases h with rfl | ⟨m, rfl⟩ | ⟨m, rfl⟩
  · rfl
  · rfl
  · rw [eatWs_cons_ws _ (show isWs 32 = true by decide),
      eatWs_of_head (show isWs 124 = false by decide)]
    rfl

/-! ### the pieces of `Possibility.render` -/

def archsPart (set : ArchSet) : Bytes := if set.archs.isEmpty then [] else 32 :: set.render

def qualPart : Option Arch → Bytes
  | some a => 58 :: a.render
  | none => []

def versionPart : Option VersionRelation → Bytes
  | some v => 32 :: v.render
  | none => []

def stagesPart : List (List Stage) → Bytes
  | [] => []
  | ss :: sss => 32 :: (renderStageSet ss ++ stagesPart sss)

theorem renderStageSet_cons {ss : List Stage} (h : ss ≠ []) :
    ∃ J, renderStageSet ss = 60 :: J := by
  cases ss with
  | nil => exact absurd rfl h
  | cons a ss => exact ⟨_, by simp [renderStageSet]; rfl⟩

theorem archSet_render_cons {set : ArchSet} (h : set.archs ≠ []) :
    ∃ J, set.render = 91 :: J := by
  obtain ⟨neg, as⟩ := set
  cases as with
  | nil => exact absurd rfl h
  | cons a as => exact ⟨_, by simp [ArchSet.render]; rfl⟩

theorem foldl_stages (sss : List (List Stage)) (hall : ∀ ss ∈ sss, ss ≠ []) (s : Bytes) :
    sss.foldl (fun s ss => let r := renderStageSet ss; if r.isEmpty then s else s ++ [32] ++ r) s =
      s ++ stagesPart sss := by
  induction sss generalizing s with
  | nil => simp [stagesPart]
  | cons ss sss ih =>
    obtain ⟨J, hJ⟩ := renderStageSet_cons (hall ss (by simp))
    rw [List.foldl_cons, ih (fun x hx => hall x (List.mem_cons_of_mem _ hx))]
    simp [hJ, stagesPart]

/-- the rendering of a package possibility, piece by piece -/
theorem pkg_render (name : Bytes) (arch : Option Arch) (set : ArchSet) (sss : List (List Stage))
    (v : Option VersionRelation) (hall : ∀ ss ∈ sss, ss ≠ []) :
    (⟨name, arch, some set, sss, v, false⟩ : Possibility).render =
      name ++ qualPart arch ++ (archsPart set ++ (versionPart v ++ stagesPart sss)) := by
  simp only [Possibility.render, Bool.false_eq_true, if_false]
  rw [foldl_stages sss hall]
  have h1 : set.render.isEmpty = set.archs.isEmpty := by
    obtain ⟨neg, as⟩ := set
    cases as with
    | nil => simp [ArchSet.render]
    | cons a as => simp [ArchSet.render]
  cases arch <;> cases v <;> cases h2 : set.archs.isEmpty <;>
    simp [archsPart, versionPart, qualPart, h1, h2]

/-! ### one iteration of the controllers loop -/

theorem ctl_step_done {p : Possibility} {inp : Bytes} (h : term (peek (eatWs inp)) = true)
    (f : Nat) : parseControllers (f + 1) p inp = .ok (p, eatWs inp) := by
  rw [parseControllers]
  have h' : (decide (peek (eatWs inp) = 44) || decide (peek (eatWs inp) = 124) ||
      decide (peek (eatWs inp) = 0)) = true := h
  simp only [h', if_true]

theorem ctl_step_stage {p : Possibility} {inp Z W : Bytes} {ss : List Stage}
    (heat : eatWs inp = 60 :: Z) (hparse : parseStageSet (60 :: Z) = .ok (ss, W))
    (hne : ss ≠ []) (f : Nat) :
    parseControllers (f + 1) p inp =
      parseControllers f { p with stageSets := p.stageSets ++ [ss] } W := by
  have hemp : ss.isEmpty = false := by cases ss with
    | nil => exact absurd rfl hne
    | cons a ss => rfl
  rw [parseControllers]
  simp only [heat, peek_cons, hparse, hemp]
  simp

theorem ctl_step_version {p : Possibility} {inp Z W : Bytes} {v : VersionRelation}
    (heat : eatWs inp = 40 :: Z) (hnone : p.version = none)
    (hparse : parseVersion (40 :: Z) = .ok (v, W)) (f : Nat) :
    parseControllers (f + 1) p inp = parseControllers f { p with version := some v } W := by
  rw [parseControllers]
  simp only [heat, peek_cons, hparse, hnone]
  simp

theorem ctl_step_archs {p : Possibility} {inp Z W : Bytes} {set0 set : ArchSet}
    (heat : eatWs inp = 91 :: Z) (h0 : p.archs = some set0) (hemp : set0.archs = [])
    (hparse : parseArchs set0 (91 :: Z) = .ok (set, W)) (f : Nat) :
    parseControllers (f + 1) p inp = parseControllers f { p with archs := some set } W := by
  rw [parseControllers]
  simp only [heat, peek_cons, h0, hparse, hemp]
  simp

/-! ### the three phases -/

theorem ctl_stages (sss : List (List Stage)) (hall : ∀ ss ∈ sss, StageSetOk ss)
    (n : Bytes) (a : Option Arch) (as : Option ArchSet) (sss0 : List (List Stage))
    (v : Option VersionRelation) (sv : Bool) (tail : Bytes) (ht : TailOk tail) (fuel : Nat)
    (hf : (stagesPart sss ++ tail).length < fuel) :
    parseControllers fuel ⟨n, a, as, sss0, v, sv⟩ (stagesPart sss ++ tail) =
      .ok (⟨n, a, as, sss0 ++ sss, v, sv⟩, eatWs tail) := by
  induction sss generalizing sss0 fuel with
  | nil =>
    cases fuel with
    | zero => omega
    | succ f =>
      simp only [stagesPart, List.nil_append, List.append_nil]
      exact ctl_step_done (tailOk_term ht) f
  | cons ss sss ih =>
    cases fuel with
    | zero => omega
    | succ f =>
      have hss := hall ss (by simp)
      obtain ⟨J, hJ⟩ := renderStageSet_cons hss.1
      have hin : stagesPart (ss :: sss) ++ tail =
          32 :: (renderStageSet ss ++ (stagesPart sss ++ tail)) := by
        simp [stagesPart]
      have heat : eatWs (stagesPart (ss :: sss) ++ tail) =
          60 :: (J ++ (stagesPart sss ++ tail)) := by
        rw [hin, eatWs_cons_ws _ (show isWs 32 = true by decide), hJ]
        exact eatWs_of_head (show isWs 60 = false by decide)
      have hparse : parseStageSet (60 :: (J ++ (stagesPart sss ++ tail))) =
          .ok (ss, stagesPart sss ++ tail) := by
        have := parseStageSet_render hss (stagesPart sss ++ tail)
        rw [hJ] at this
        exact this
      rw [ctl_step_stage heat hparse hss.1 f]
      have := ih (fun x hx => hall x (List.mem_cons_of_mem _ hx)) (sss0 ++ [ss]) f
        (by rw [hin] at hf; simp only [List.length_cons, List.length_append] at hf ⊢; omega)
      simp only at this ⊢
      rw [this]
      simp

theorem ctl_version (vo : Option VersionRelation) (hv : ∀ v, vo = some v → VerOk v)
    (sss : List (List Stage)) (hall : ∀ ss ∈ sss, StageSetOk ss)
    (n : Bytes) (a : Option Arch) (as : Option ArchSet) (sv : Bool) (tail : Bytes)
    (ht : TailOk tail) (fuel : Nat)
    (hf : (versionPart vo ++ (stagesPart sss ++ tail)).length < fuel) :
    parseControllers fuel ⟨n, a, as, [], none, sv⟩ (versionPart vo ++ (stagesPart sss ++ tail)) =
      .ok (⟨n, a, as, sss, vo, sv⟩, eatWs tail) := by
  cases vo with
  | none =>
    simp only [versionPart, List.nil_append] at hf ⊢
    simpa using ctl_stages sss hall n a as [] none sv tail ht fuel hf
  | some v =>
    cases fuel with
    | zero => omega
    | succ f =>
      have hin : versionPart (some v) ++ (stagesPart sss ++ tail) =
          32 :: (v.render ++ (stagesPart sss ++ tail)) := by
        simp [versionPart]
      have hv40 : ∃ J, v.render = 40 :: J := ⟨_, by simp [VersionRelation.render]; rfl⟩
      obtain ⟨J, hJ⟩ := hv40
      have heat : eatWs (versionPart (some v) ++ (stagesPart sss ++ tail)) =
          40 :: (J ++ (stagesPart sss ++ tail)) := by
        rw [hin, eatWs_cons_ws _ (show isWs 32 = true by decide), hJ]
        exact eatWs_of_head (show isWs 40 = false by decide)
      have hparse : parseVersion (40 :: (J ++ (stagesPart sss ++ tail))) =
          .ok (v, stagesPart sss ++ tail) := by
        have := version_render (hv v rfl) (stagesPart sss ++ tail)
        rw [hJ] at this
        exact this
      rw [ctl_step_version heat rfl hparse f]
      have := ctl_stages sss hall n a as [] (some v) sv tail ht f
        (by rw [hin] at hf; simp only [List.length_cons, List.length_append] at hf ⊢; omega)
      simpa using this

theorem ctl_archs (set : ArchSet) (hset : ArchSetOk set)
    (vo : Option VersionRelation) (hv : ∀ v, vo = some v → VerOk v)
    (sss : List (List Stage)) (hall : ∀ ss ∈ sss, StageSetOk ss)
    (n : Bytes) (a : Option Arch) (sv : Bool) (tail : Bytes)
    (ht : TailOk tail) (fuel : Nat)
    (hf : (archsPart set ++ (versionPart vo ++ (stagesPart sss ++ tail))).length < fuel) :
    parseControllers fuel ⟨n, a, some ⟨false, []⟩, [], none, sv⟩
        (archsPart set ++ (versionPart vo ++ (stagesPart sss ++ tail))) =
      .ok (⟨n, a, some set, sss, vo, sv⟩, eatWs tail) := by
  by_cases hemp : set.archs = []
  · have hset' : set = ⟨false, []⟩ := by
      obtain ⟨neg, as⟩ := set
      simp only at hemp
      have := hset.1 hemp
      simp only at this
      rw [hemp, this]
    subst hset'
    simp only [archsPart, List.isEmpty_nil, if_true, List.nil_append] at hf ⊢
    exact ctl_version vo hv sss hall n a _ sv tail ht fuel hf
  · cases fuel with
    | zero => omega
    | succ f =>
      have hne : set.archs.isEmpty = false := by
        cases h : set.archs with
        | nil => exact absurd h hemp
        | cons x xs => rfl
      have hin : archsPart set ++ (versionPart vo ++ (stagesPart sss ++ tail)) =
          32 :: (set.render ++ (versionPart vo ++ (stagesPart sss ++ tail))) := by
        simp [archsPart, hne]
      obtain ⟨J, hJ⟩ := archSet_render_cons hemp
      have heat : eatWs (archsPart set ++ (versionPart vo ++ (stagesPart sss ++ tail))) =
          91 :: (J ++ (versionPart vo ++ (stagesPart sss ++ tail))) := by
        rw [hin, eatWs_cons_ws _ (show isWs 32 = true by decide), hJ]
        exact eatWs_of_head (show isWs 91 = false by decide)
      have hparse : parseArchs ⟨false, []⟩ (91 :: (J ++ (versionPart vo ++ (stagesPart sss ++ tail)))) =
          .ok (set, versionPart vo ++ (stagesPart sss ++ tail)) := by
        have := parseArchs_render hset hemp (versionPart vo ++ (stagesPart sss ++ tail))
        rw [hJ] at this
        exact this
      rw [ctl_step_archs heat rfl rfl hparse f]
      exact ctl_version vo hv sss hall n a _ sv tail ht f
        (by rw [hin] at hf; simp only [List.length_cons, List.length_append] at hf ⊢; omega)

end GoDebian.Lemmas.DepFix
