/-
  Lemmas about the graph `OrderDSCForBuild` builds (Model/BuildOrder.lean): the node list
  (`nodeOrder`), the binary → source map (`sourceMapping`), which edges there are
  (`edges`), and which errors `edges` can produce (only the nil-dereference panic of
  `GetPossibilities` on a substvar-shaped possibility, never `fuel`).
-/
import GoDebian.Model.BuildOrder

namespace GoDebian.Lemmas.BuildOrder
open GoDebian GoDebian.BuildOrder

/-- Decidable equality of results, so that examples about `Res` values can be closed by
    `decide`. -/
instance instDecidableEqRes {α : Type} [DecidableEq α] : DecidableEq (Res α)
  | .ok x, .ok y => if h : x = y then isTrue (h ▸ rfl) else isFalse (fun e => h (Except.ok.inj e))
  | .error x, .error y =>
    if h : x = y then isTrue (h ▸ rfl) else isFalse (fun e => h (Except.error.inj e))
  | .ok _, .error _ => isFalse (fun e => nomatch e)
  | .error _, .ok _ => isFalse (fun e => nomatch e)

/-! ### folds that collect lists in `Res` -/

theorem foldlM_collect_ok {σ α β : Type} (f : σ → Res α) (g : σ → α → List β) :
    ∀ (l : List σ) (init r : List β),
      l.foldlM (fun acc s => (f s).map (fun x => acc ++ g s x)) init = .ok r →
      ∀ p, p ∈ r ↔ p ∈ init ∨ ∃ s ∈ l, ∃ x, f s = .ok x ∧ p ∈ g s x := by
  intro l
  induction l with
  | nil =>
    intro init r h p
    have : init = r := by simpa [pure, Except.pure] using h
    subst this
    simp
  | cons a l ih =>
    intro init r h p
    rw [List.foldlM_cons] at h
    cases hfa : f a with
    | error e => simp [hfa, Except.map, bind, Except.bind] at h
    | ok x =>
      simp only [hfa, Except.map, bind, Except.bind] at h
      rw [ih _ _ h p, List.mem_append]
      constructor
      · rintro ((h1 | h1) | ⟨s, hs, y, hy, hp⟩)
        · exact .inl h1
        · exact .inr ⟨a, List.mem_cons_self, x, hfa, h1⟩
        · exact .inr ⟨s, List.mem_cons_of_mem _ hs, y, hy, hp⟩
      · rintro (h1 | ⟨s, hs, y, hy, hp⟩)
        · exact .inl (.inl h1)
        · rcases List.mem_cons.mp hs with e | e
          · subst e
            rw [hfa] at hy
            cases hy
            exact .inl (.inr hp)
          · exact .inr ⟨s, e, y, hy, hp⟩

theorem foldlM_collect_error {σ α β : Type} (f : σ → Res α) (g : σ → α → List β) :
    ∀ (l : List σ) (init : List β) (e : Err),
      l.foldlM (fun acc s => (f s).map (fun x => acc ++ g s x)) init = .error e →
      ∃ s ∈ l, f s = .error e := by
  intro l
  induction l with
  | nil => intro init e h; simp [pure, Except.pure] at h
  | cons a l ih =>
    intro init e h
    rw [List.foldlM_cons] at h
    cases hfa : f a with
    | error e' =>
      simp only [hfa, Except.map, bind, Except.bind] at h
      cases h
      exact ⟨a, List.mem_cons_self, hfa⟩
    | ok x =>
      simp only [hfa, Except.map, bind, Except.bind] at h
      rcases ih _ _ h with ⟨s, hs, he⟩
      exact ⟨s, List.mem_cons_of_mem _ hs, he⟩

/-! ### errors -/

theorem firstMatch_error (a : Dep.Arch) :
    ∀ (rel : Dep.Relation) (e : Err), Dep.firstMatch a rel = .error e → e = .panic := by
  intro rel
  induction rel with
  | nil => intro e h; simp [Dep.firstMatch] at h
  | cons p rest ih =>
    intro e h
    rw [Dep.firstMatch] at h
    split at h
    · exact ih e h
    · unfold Dep.possMatches at h
      cases hp : p.archs with
      | none => simp [hp] at h; exact h.symm
      | some s =>
        simp only [hp] at h
        cases hm : s.matches a
        · simp only [hm] at h; exact ih e h
        · simp [hm] at h

theorem foldlM_error_of_step {σ β : Type} (F : β → σ → Res β) (P : Err → Prop)
    (hF : ∀ acc s e, F acc s = .error e → P e) :
    ∀ (l : List σ) (acc : β) (e : Err), l.foldlM F acc = .error e → P e := by
  intro l
  induction l with
  | nil => intro acc e h; simp [pure, Except.pure] at h
  | cons s l ih =>
    intro acc e h
    rw [List.foldlM_cons] at h
    cases hs : F acc s with
    | error e' =>
      simp only [hs, bind, Except.bind] at h
      cases h
      exact hF acc s e hs
    | ok acc' =>
      simp only [hs, bind, Except.bind] at h
      exact ih acc' e h

theorem getPossibilities_error (a : Dep.Arch) (d : Dep.Dependency) (e : Err)
    (h : Dep.getPossibilities d a = .error e) : e = .panic := by
  unfold Dep.getPossibilities at h
  refine foldlM_error_of_step _ (fun e => e = .panic) (fun acc rel e h' => ?_) d [] e h
  split at h'
  · rename_i e' hf
    cases h'
    exact firstMatch_error a rel _ hf
  · cases h'
  · cases h'

theorem wanted_error {s : Src} {arch : Dep.Arch} {e : Err} (h : wanted s arch = .error e) :
    e = .panic := by
  unfold wanted at h
  rcases foldlM_collect_error (fun d => Dep.getPossibilities d arch)
    (fun _ ps => ps.map (·.name)) s.deps [] e h with ⟨d, _, hd⟩
  exact getPossibilities_error arch d e hd

theorem edges_error {srcs : List Src} {arch : Dep.Arch} {e : Err} (h : edges srcs arch = .error e) :
    e = .panic := by
  unfold edges at h
  rcases foldlM_collect_error (fun s => wanted s arch)
    (fun s ws => ws.filterMap (fun w => (mapGet w (sourceMapping srcs)).map
      (fun from_ => (s.source, from_)))) srcs [] e h with ⟨s, _, hs⟩
  exact wanted_error hs

/-! ### which edges -/

theorem edges_spec {srcs : List Src} {arch : Dep.Arch} {es : List (Bytes × Bytes)}
    (he : edges srcs arch = .ok es) (to from_ : Bytes) :
    (to, from_) ∈ es ↔ ∃ s ∈ srcs, s.source = to ∧ ∃ ws, wanted s arch = .ok ws ∧
      ∃ w ∈ ws, mapGet w (sourceMapping srcs) = some from_ := by
  unfold edges at he
  rw [foldlM_collect_ok (fun s => wanted s arch)
    (fun s ws => ws.filterMap (fun w => (mapGet w (sourceMapping srcs)).map
      (fun from_ => (s.source, from_)))) srcs [] es he (to, from_)]
  constructor
  · rintro (h | ⟨s, hs, ws, hw, hp⟩)
    · cases h
    · rcases List.mem_filterMap.mp hp with ⟨w, hw', hm⟩
      rcases Option.map_eq_some_iff.mp hm with ⟨f, hf, hpair⟩
      have h1 : s.source = to := congrArg Prod.fst hpair
      have h2 : f = from_ := congrArg Prod.snd hpair
      exact ⟨s, hs, h1, ws, hw, w, hw', h2 ▸ hf⟩
  · rintro ⟨s, hs, hto, ws, hw, w, hw', hm⟩
    refine .inr ⟨s, hs, ws, hw, List.mem_filterMap.mpr ⟨w, hw', ?_⟩⟩
    rw [hm, ← hto]
    rfl

/-! ### the binary → source map only has sources of `srcs` as values -/

theorem mapGet_mem {k v : Bytes} :
    ∀ m : List (Bytes × Bytes), mapGet k m = some v → (k, v) ∈ m := by
  intro m
  induction m with
  | nil => intro h; simp [mapGet] at h
  | cons p m ih =>
    intro h
    rcases p with ⟨k', v'⟩
    rw [mapGet] at h
    split at h
    · rename_i hk
      cases h
      subst hk
      exact List.mem_cons_self
    · exact List.mem_cons_of_mem _ (ih h)

theorem mem_mapInsert {k v : Bytes} {p : Bytes × Bytes} :
    ∀ m : List (Bytes × Bytes), p ∈ mapInsert k v m → p = (k, v) ∨ p ∈ m := by
  intro m
  induction m with
  | nil => intro h; simp [mapInsert] at h; exact .inl h
  | cons q m ih =>
    intro h
    rcases q with ⟨k', v'⟩
    rw [mapInsert] at h
    split at h
    · rcases List.mem_cons.mp h with e | e
      · exact .inl e
      · exact .inr (List.mem_cons_of_mem _ e)
    · rcases List.mem_cons.mp h with e | e
      · exact .inr (e ▸ List.mem_cons_self)
      · rcases ih e with e' | e'
        · exact .inl e'
        · exact .inr (List.mem_cons_of_mem _ e')

theorem mem_insertBinaries {src : Bytes} {p : Bytes × Bytes} :
    ∀ (bins : List Bytes) (m : List (Bytes × Bytes)),
      p ∈ bins.foldl (fun m b => mapInsert b src m) m → p.2 = src ∨ p ∈ m := by
  intro bins
  induction bins with
  | nil => intro m h; exact .inr h
  | cons b bins ih =>
    intro m h
    rw [List.foldl_cons] at h
    rcases ih _ h with e | e
    · exact .inl e
    · rcases mem_mapInsert m e with e' | e'
      · exact .inl (by rw [e'])
      · exact .inr e'

theorem mem_sourceMapping_aux {p : Bytes × Bytes} :
    ∀ (l : List Src) (m : List (Bytes × Bytes)),
      p ∈ l.foldl (fun m s => s.binaries.foldl (fun m b => mapInsert b s.source m) m) m →
      p ∈ m ∨ ∃ s ∈ l, s.source = p.2 := by
  intro l
  induction l with
  | nil => intro m h; exact .inl h
  | cons s l ih =>
    intro m h
    rw [List.foldl_cons] at h
    rcases ih _ h with e | ⟨s', hs', e⟩
    · rcases mem_insertBinaries s.binaries m e with e' | e'
      · exact .inr ⟨s, List.mem_cons_self, e'.symm⟩
      · exact .inl e'
    · exact .inr ⟨s', List.mem_cons_of_mem _ hs', e⟩

theorem sourceMapping_value {srcs : List Src} {w from_ : Bytes}
    (h : mapGet w (sourceMapping srcs) = some from_) : ∃ s ∈ srcs, s.source = from_ := by
  rcases mem_sourceMapping_aux srcs [] (mapGet_mem _ h) with e | e
  · cases e
  · exact e

/-! ### the node list -/

theorem nodeOrder_aux (l : List Src) :
    ∀ o : List Bytes, o.Nodup →
      (l.foldl (fun o s => if o.contains s.source then o else o ++ [s.source]) o).Nodup ∧
      ∀ n, n ∈ l.foldl (fun o s => if o.contains s.source then o else o ++ [s.source]) o ↔
        n ∈ o ∨ ∃ s ∈ l, s.source = n := by
  induction l with
  | nil => intro o ho; exact ⟨ho, fun n => by simp⟩
  | cons s l ih =>
    intro o ho
    rw [List.foldl_cons]
    by_cases hc : o.contains s.source = true
    · rw [if_pos hc]
      refine ⟨(ih o ho).1, fun n => ?_⟩
      rw [(ih o ho).2 n]
      constructor
      · rintro (h | ⟨s', hs', e⟩)
        · exact .inl h
        · exact .inr ⟨s', List.mem_cons_of_mem _ hs', e⟩
      · rintro (h | ⟨s', hs', e⟩)
        · exact .inl h
        · rcases List.mem_cons.mp hs' with e' | e'
          · subst e'; exact .inl (e ▸ List.contains_iff_mem.mp hc)
          · exact .inr ⟨s', e', e⟩
    · rw [if_neg hc]
      have hnm : s.source ∉ o := fun h => hc (List.contains_iff_mem.mpr h)
      have ho' : (o ++ [s.source]).Nodup := by
        rw [List.nodup_append]
        refine ⟨ho, by simp, fun a ha b hb => ?_⟩
        have : b = s.source := by simpa using hb
        subst this
        exact fun e => hnm (e ▸ ha)
      refine ⟨(ih _ ho').1, fun n => ?_⟩
      rw [(ih _ ho').2 n, List.mem_append]
      constructor
      · rintro ((h | h) | ⟨s', hs', e⟩)
        · exact .inl h
        · exact .inr ⟨s, List.mem_cons_self, (List.mem_singleton.mp h).symm⟩
        · exact .inr ⟨s', List.mem_cons_of_mem _ hs', e⟩
      · rintro (h | ⟨s', hs', e⟩)
        · exact .inl (.inl h)
        · rcases List.mem_cons.mp hs' with e' | e'
          · subst e'; exact .inl (.inr (by simp [e]))
          · exact .inr ⟨s', e', e⟩

theorem nodeOrder_nodup (srcs : List Src) : (nodeOrder srcs).Nodup :=
  (nodeOrder_aux srcs [] List.nodup_nil).1

theorem mem_nodeOrder {srcs : List Src} {n : Bytes} :
    n ∈ nodeOrder srcs ↔ ∃ s ∈ srcs, s.source = n := by
  unfold nodeOrder
  rw [(nodeOrder_aux srcs [] List.nodup_nil).2 n]
  simp

theorem mem_nodeOrder_iff_map {srcs : List Src} {n : Bytes} :
    n ∈ nodeOrder srcs ↔ n ∈ srcs.map (·.source) := by
  rw [mem_nodeOrder, List.mem_map]

/-- every edge comes from a node -/
theorem edges_from_node {srcs : List Src} {arch : Dep.Arch} {es : List (Bytes × Bytes)}
    (he : edges srcs arch = .ok es) (to from_ : Bytes) (h : (to, from_) ∈ es) :
    from_ ∈ nodeOrder srcs := by
  rcases (edges_spec he to from_).mp h with ⟨_, _, _, _, _, w, _, hm⟩
  exact mem_nodeOrder.mpr (sourceMapping_value hm)

/-- every edge goes to a node -/
theorem edges_to_node {srcs : List Src} {arch : Dep.Arch} {es : List (Bytes × Bytes)}
    (he : edges srcs arch = .ok es) (to from_ : Bytes) (h : (to, from_) ∈ es) :
    to ∈ nodeOrder srcs := by
  rcases (edges_spec he to from_).mp h with ⟨s, hs, hto, _⟩
  exact mem_nodeOrder.mpr ⟨s, hs, hto⟩

end GoDebian.Lemmas.BuildOrder
