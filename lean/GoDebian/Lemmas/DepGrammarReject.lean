/-
  Malformed relationship fields are rejected: errors of the clause parsers propagate to
  `parse`, and the clause parsers fail on unterminated, duplicated or inconsistent
  clauses.  Core Lean only.
-/
import GoDebian.Lemmas.DepGrammarTop

namespace GoDebian.Lemmas.DepGrammarReject
open GoDebian GoDebian.Dep GoDebian.Spec.Dependency GoDebian.Lemmas.DepGrammarLex
open GoDebian.Lemmas.DepGrammarShape GoDebian.Lemmas.DepGrammarClause
open GoDebian.Lemmas.DepGrammarPoss GoDebian.Lemmas.DepGrammarTop

/-! ### errors propagate -/

theorem parse_error_of_poss {inp : Bytes} {e : Err} (h1 : 33 ≤ peek inp) (h2 : peek inp ≠ 44)
    (h3 : peek inp ≠ 124) (h : parsePossibility inp = .error e) : Dep.parse inp = .error e := by
  have hw := not_isWs_of_range h1
  unfold Dep.parse
  rw [eatWs_of_peek hw, parseDependencyLoop]
  simp only [not_end h1, not_comma h2, if_false]
  unfold parseRelation
  rw [eatWs_of_peek hw, parseRelationLoop]
  simp only [not_end_or_comma h1 h2, not_bar h3, if_false, Bool.false_eq_true, h]

/-- the state after the name `pre` has been read -/
def named (pre : Bytes) : Possibility :=
  { emptyPossibility with name := emptyPossibility.name ++ pre }

theorem named_version (pre : Bytes) : (named pre).version = none := rfl
theorem named_archs (pre : Bytes) : (named pre).archs = some ⟨false, []⟩ := rfl

theorem possibility_error_of_controllers {pre R : Bytes} {e : Err}
    (hpre : token reserved pre = true) (hR : isWs (peek R) = true ∨ peek R = 40)
    (h : parseControllers (R.length + 1) (named pre) R = .error e) :
    parsePossibility (pre ++ R) = .error e := by
  have hpk := token_reserved_mem hpre (peek_token_append hpre R)
  have hs : nameStop (peek R) = true := by
    rcases hR with h | h
    · have := (isWs_iff _).1 h
      rcases this with h | h | h | h <;> simp [h, nameStop]
    · simp [h, nameStop]
  have h1 : (peek R = 58) = False := by
    rcases hR with h | h
    · have := (isWs_iff _).1 h
      simp; omega
    · simp [h]
  have h2 : (peek R = 44 || peek R = 124 || peek R = 0) = false := by
    rcases hR with h | h
    · have := (isWs_iff _).1 h
      simp; omega
    · simp [h]
  have h36 : (peek (pre ++ R) = 36) = False := by simp; omega
  unfold parsePossibility
  rw [eatWs_of_peek (not_isWs_of_range hpk.1)]
  simp only [h36, if_false]
  rw [parsePossibilityLoop, takeUntil_append (token_nameStop hpre) R (Or.inr hs)]
  unfold named at h
  simp only [h1, h2, if_false, Bool.false_eq_true, h]

theorem reject_of_controllers {pre R : Bytes} (hpre : token reserved pre = true)
    (hR : isWs (peek R) = true ∨ peek R = 40)
    (h : ∃ e, parseControllers (R.length + 1) (named pre) R = .error e) :
    ∃ e, Dep.parse (pre ++ R) = .error e := by
  obtain ⟨e, he⟩ := h
  have hpk := token_reserved_mem hpre (peek_token_append hpre R)
  exact ⟨e, parse_error_of_poss hpk.1 (by omega) (by omega)
    (possibility_error_of_controllers hpre hR he)⟩

/-! ### what the sub-parsers leave is part of what they were given -/

theorem eatWs_subset (l : Bytes) : ∀ x ∈ eatWs l, x ∈ l :=
  fun _ hx => (List.dropWhile_sublist _).subset hx

theorem takeUntil_snd_subset (stop : Nat → Bool) (l : Bytes) : ∀ x ∈ (takeUntil stop l).2, x ∈ l := by
  intro x hx
  rw [(takeUntil_spec stop l).1]
  exact List.mem_append_right _ hx

theorem next_subset (l : Bytes) : ∀ x ∈ (next l).2, x ∈ l := by
  cases l with
  | nil => intro x hx; cases hx
  | cons c l => intro x hx; exact List.mem_cons_of_mem _ hx

theorem parseOperator_rest {inp op r : Bytes} (h : parseOperator inp = .ok (op, r)) :
    ∀ x ∈ r, x ∈ inp := by
  unfold parseOperator at h
  have hl := eatWs_subset inp
  generalize eatWs inp = l at h hl
  have key : ∀ x ∈ r, x ∈ l := by
    simp only at h
    by_cases hc : (next l).1 = 61
    · rw [if_pos hc] at h
      simp only [Except.ok.injEq, Prod.mk.injEq] at h
      rw [← h.2]; exact next_subset l
    · rw [if_neg hc] at h
      by_cases h0 : ((next l).1 = 0 || (next (next l).2).1 = 0) = true
      · rw [if_pos h0] at h; cases h
      · rw [if_neg h0] at h
        split at h
        · simp only [Except.ok.injEq, Prod.mk.injEq] at h
          rw [← h.2]; exact fun x hx => next_subset l x (next_subset _ x hx)
        · cases h
  exact fun x hx => hl x (key x hx)

/-! ### unterminated clauses -/

theorem parseNumber_err {inp : Bytes} (h : 41 ∉ inp) : ∃ e, parseNumber inp = .error e := by
  unfold parseNumber
  simp only
  have hsub := takeUntil_snd_subset (fun c => c = 0 || c = 41) (eatWs inp)
  generalize takeUntil (fun c => c = 0 || c = 41) (eatWs inp) = pr at hsub ⊢
  obtain ⟨num, rest⟩ := pr
  simp only at hsub ⊢
  rcases rest with _ | ⟨c, tl⟩
  · exact ⟨_, rfl⟩
  · split
    · rename_i x heq
      simp only [List.cons.injEq] at heq
      exact absurd (eatWs_subset inp 41 (hsub 41 (by rw [heq.1]; exact List.mem_cons_self ..))) h
    · exact ⟨_, rfl⟩

theorem parseVersion_err {body : Bytes} (h : 41 ∉ body) :
    ∃ e, parseVersion (40 :: body) = .error e := by
  unfold parseVersion
  rw [eatWs_cons_not (by decide)]
  simp only [next_cons]
  cases hop : parseOperator body with
  | error e => exact ⟨e, rfl⟩
  | ok v =>
    obtain ⟨op, r⟩ := v
    have hr : 41 ∉ r := fun hm => h (parseOperator_rest hop 41 hm)
    obtain ⟨e, he⟩ := parseNumber_err hr
    exact ⟨e, by simp only [he]⟩

theorem parseArchEntry_rest {set s : ArchSet} {inp r : Bytes}
    (h : parseArchEntry set inp = .ok (s, r)) : ∀ x ∈ r, x ∈ inp := by
  unfold parseArchEntry at h
  simp only at h
  split at h
  · cases h
  · split at h
    · cases h
    · rename_i c tl heq
      split at h
      · cases h
      · split at h
        · simp only [Except.ok.injEq, Prod.mk.injEq] at h
          rw [← h.2]
          intro x hx
          have h1 := takeUntil_snd_subset _ _ x hx
          split at h1
          · exact eatWs_subset _ _ (next_subset _ _ h1)
          · exact eatWs_subset _ _ h1
        · cases h

theorem parseArchsLoop_err (fuel : Nat) :
    ∀ (set : ArchSet) (inp : Bytes), 93 ∉ inp → ∃ e, parseArchsLoop fuel set inp = .error e := by
  induction fuel with
  | zero => intro set inp _; exact ⟨_, rfl⟩
  | succ f ih =>
    intro set inp h
    rw [parseArchsLoop]
    have hl := eatWs_subset inp
    generalize eatWs inp = l at hl
    cases l with
    | nil => exact ⟨_, rfl⟩
    | cons c rest =>
      simp only
      split
      · exact ⟨_, rfl⟩
      · split
        · rename_i hc
          exact absurd (hl 93 (by rw [hc]; exact List.mem_cons_self ..)) h
        · cases hent : parseArchEntry set (c :: rest) with
          | error e => exact ⟨e, rfl⟩
          | ok v =>
            obtain ⟨s', r'⟩ := v
            exact ih s' r' (fun hm => h (hl 93 (parseArchEntry_rest hent 93 hm)))

theorem parseArchs_err {set : ArchSet} {body : Bytes} (h : 93 ∉ body) :
    ∃ e, parseArchs set (91 :: body) = .error e := by
  unfold parseArchs
  rw [eatWs_cons_not (by decide)]
  exact parseArchsLoop_err _ set body h

theorem parseStage_rest {s : Stage} {inp r : Bytes}
    (h : parseStage inp = .ok (s, r)) : ∀ x ∈ r, x ∈ inp := by
  unfold parseStage at h
  simp only at h
  split at h
  · cases h
  · rename_i c tl heq
    split at h
    · cases h
    · simp only [Except.ok.injEq, Prod.mk.injEq] at h
      rw [← h.2]
      intro x hx
      have h1 := takeUntil_snd_subset _ _ x hx
      split at h1
      · exact eatWs_subset _ _ (next_subset _ _ h1)
      · exact eatWs_subset _ _ h1

theorem parseStageSetLoop_err (fuel : Nat) :
    ∀ (acc : List Stage) (inp : Bytes), 62 ∉ inp →
      ∃ e, parseStageSetLoop fuel acc inp = .error e := by
  induction fuel with
  | zero => intro acc inp _; exact ⟨_, rfl⟩
  | succ f ih =>
    intro acc inp h
    rw [parseStageSetLoop]
    have hl := eatWs_subset inp
    generalize eatWs inp = l at hl
    cases l with
    | nil => exact ⟨_, rfl⟩
    | cons c rest =>
      simp only
      split
      · exact ⟨_, rfl⟩
      · split
        · rename_i hc
          exact absurd (hl 62 (by rw [hc]; exact List.mem_cons_self ..)) h
        · cases hent : parseStage (c :: rest) with
          | error e => exact ⟨e, rfl⟩
          | ok v =>
            obtain ⟨s', r'⟩ := v
            exact ih _ r' (fun hm => h (hl 62 (parseStage_rest hent 62 hm)))

theorem parseStageSet_err {body : Bytes} (h : 62 ∉ body) :
    ∃ e, parseStageSet (60 :: body) = .error e := by
  unfold parseStageSet
  rw [eatWs_cons_not (by decide)]
  exact parseStageSetLoop_err _ [] body h

theorem reject_unterminated_paren (pre body : Bytes) (hpre : token reserved pre = true)
    (h : 41 ∉ body) : ∃ e, Dep.parse (pre ++ [32, 40] ++ body) = .error e := by
  rw [List.append_assoc]
  apply reject_of_controllers hpre (Or.inl rfl)
  obtain ⟨e, he⟩ := parseVersion_err h
  refine ⟨e, ?_⟩
  show parseControllers _ (named pre) (32 :: 40 :: body) = _
  rw [parseControllers, eatWs_cons_ws (by decide), eatWs_cons_not (by decide)]
  simp [peek, named_version, he]

theorem reject_unterminated_bracket (pre body : Bytes) (hpre : token reserved pre = true)
    (h : 93 ∉ body) : ∃ e, Dep.parse (pre ++ [32, 91] ++ body) = .error e := by
  rw [List.append_assoc]
  apply reject_of_controllers hpre (Or.inl rfl)
  obtain ⟨e, he⟩ := parseArchs_err (set := ⟨false, []⟩) h
  refine ⟨e, ?_⟩
  show parseControllers _ (named pre) (32 :: 91 :: body) = _
  rw [parseControllers, eatWs_cons_ws (by decide), eatWs_cons_not (by decide)]
  simp [peek, named_archs, he]

theorem reject_unterminated_angle (pre body : Bytes) (hpre : token reserved pre = true)
    (h : 62 ∉ body) : ∃ e, Dep.parse (pre ++ [32, 60] ++ body) = .error e := by
  rw [List.append_assoc]
  apply reject_of_controllers hpre (Or.inl rfl)
  obtain ⟨e, he⟩ := parseStageSet_err h
  refine ⟨e, ?_⟩
  show parseControllers _ (named pre) (32 :: 60 :: body) = _
  rw [parseControllers, eatWs_cons_ws (by decide), eatWs_cons_not (by decide)]
  simp [peek, he]

theorem parseSubstvar_err {body : Bytes} (h : 125 ∉ body) :
    parseSubstvar (36 :: 123 :: body) = .error .err := by
  have hsub := takeUntil_snd_subset (fun c => c = 0 || c = 125) body
  unfold parseSubstvar
  rw [eatWs_cons_not (by decide)]
  simp only [next_cons]
  generalize takeUntil (fun c => c = 0 || c = 125) body = pr at hsub ⊢
  obtain ⟨name, rest⟩ := pr
  simp only at hsub ⊢
  rcases rest with _ | ⟨c, tl⟩
  · rfl
  · split
    · rename_i x heq
      simp only [List.cons.injEq] at heq
      exact absurd (hsub 125 (by rw [heq.1]; exact List.mem_cons_self ..)) h
    · rfl

theorem reject_unterminated_substvar (body : Bytes) (h : 125 ∉ body) :
    ∃ e, Dep.parse ([36, 123] ++ body) = .error e := by
  show ∃ e, Dep.parse (36 :: 123 :: body) = .error e
  refine ⟨.err, parse_error_of_poss (by simp [peek]) (by simp [peek]) (by simp [peek]) ?_⟩
  unfold parsePossibility
  rw [eatWs_cons_not (by decide)]
  simp only [peek, if_true, parseSubstvar_err h]

/-! ### duplicated and inconsistent clauses -/

theorem exists_fuel {n : Nat} (h : 1 ≤ n) : ∃ f, n + 1 = f + 2 := ⟨n - 1, by omega⟩

/-- one blank, a version clause, then the rest -/
theorem controllers_step_version (f : Nat) (p : Possibility) {op num t : Bytes} (rest : Bytes)
    (hp : p.version = none) (hop : ValidOp op) (hnum : token [41] num = true)
    (ht : VersionShape op num t) :
    parseControllers (f + 1) p (32 :: (t ++ rest)) =
      parseControllers f { p with version := some ⟨num, op⟩ } rest := by
  have hv := parseVersion_ok hop hnum ht rest
  obtain ⟨t', rfl⟩ := versionShape_head ht
  rw [parseControllers, eatWs_cons_ws (by decide), List.cons_append, eatWs_cons_not (by decide)]
  rw [List.cons_append] at hv
  simp [peek, hp, hv]

theorem controllers_second_version (f : Nat) (p : Possibility) (X : Bytes)
    (hp : p.version.isSome = true) : parseControllers (f + 1) p (32 :: 40 :: X) = .error .err := by
  rw [parseControllers, eatWs_cons_ws (by decide), eatWs_cons_not (by decide)]
  simp [peek, hp]

theorem controllers_step_archs (f : Nat) (p : Possibility) {neg : Bool} {as : List Bytes} {t : Bytes}
    (rest : Bytes) (hp : p.archs = some ⟨false, []⟩) (hne : as ≠ [])
    (has : ∀ a ∈ as, token reserved a = true) (ht : BracketShape 91 93 (as.map (archItem neg)) t) :
    parseControllers (f + 1) p (32 :: (t ++ rest)) =
      parseControllers f { p with archs := some ⟨neg, as.map denoteArch⟩ } rest := by
  have hv := parseArchs_ok hne has ht rest
  obtain ⟨t', rfl⟩ := bracketShape_head ht
  rw [parseControllers, eatWs_cons_ws (by decide), List.cons_append, eatWs_cons_not (by decide)]
  rw [List.cons_append] at hv
  simp [peek, hp, hv]

theorem controllers_second_archs (f : Nat) (p : Possibility) (X : Bytes) {set : ArchSet}
    (hp : p.archs = some set) (hset : set.archs ≠ []) :
    parseControllers (f + 1) p (32 :: 91 :: X) = .error .err := by
  rw [parseControllers, eatWs_cons_ws (by decide), eatWs_cons_not (by decide)]
  simp [peek, hp, hset]

theorem reject_second_version (n v w : Bytes) (hn : token reserved n = true)
    (hv : token [41] v = true) :
    ∃ e, Dep.parse (n ++ [32, 40, 62, 61, 32] ++ v ++ [41, 32, 40, 60, 61, 32] ++ w ++ [41])
      = .error e := by
  have e0 : n ++ [32, 40, 62, 61, 32] ++ v ++ [41, 32, 40, 60, 61, 32] ++ w ++ [41]
      = n ++ (32 :: (([40] ++ [] ++ opGE ++ [32] ++ v ++ [] ++ [41]) ++
          (32 :: 40 :: ([60, 61, 32] ++ w ++ [41])))) := by simp [opGE]
  rw [e0]
  apply reject_of_controllers hn (Or.inl rfl)
  refine ⟨.err, ?_⟩
  have hsh : VersionShape opGE v ([40] ++ [] ++ opGE ++ [32] ++ v ++ [] ++ [41]) :=
    .mk isWs_nil (by simp [IsWs, isWs]) isWs_nil
  obtain ⟨f, hf⟩ : ∃ f, (32 :: (([40] ++ [] ++ opGE ++ [32] ++ v ++ [] ++ [41]) ++
      (32 :: 40 :: ([60, 61, 32] ++ w ++ [41])))).length + 1 = f + 2 :=
    exists_fuel (by simp)
  rw [hf, controllers_step_version (f + 1) _ _ (named_version n) (Or.inl rfl) hv hsh,
    controllers_second_version f _ _ rfl]

theorem reject_second_arch (n a b : Bytes) (hn : token reserved n = true)
    (ha : token reserved a = true) :
    ∃ e, Dep.parse (n ++ [32, 91] ++ a ++ [93, 32, 91] ++ b ++ [93]) = .error e := by
  have e0 : n ++ [32, 91] ++ a ++ [93, 32, 91] ++ b ++ [93]
      = n ++ (32 :: (([91] ++ [] ++ a ++ [] ++ [93]) ++ (32 :: 91 :: (b ++ [93])))) := by simp
  rw [e0]
  apply reject_of_controllers hn (Or.inl rfl)
  refine ⟨.err, ?_⟩
  have hsh : BracketShape 91 93 ([a].map (archItem false)) ([91] ++ [] ++ a ++ [] ++ [93]) :=
    .mk isWs_nil isWs_nil ⟨[], .nil, by simp [archItem, bang]⟩
  obtain ⟨f, hf⟩ : ∃ f, (32 :: (([91] ++ [] ++ a ++ [] ++ [93]) ++
      (32 :: 91 :: (b ++ [93])))).length + 1 = f + 2 :=
    exists_fuel (by simp)
  rw [hf, controllers_step_archs (f + 1) _ _ (named_archs n) (by simp)
      (by intro x hx; simp at hx; rw [hx]; exact ha) hsh,
    controllers_second_archs f _ _ rfl (by simp)]

/-- the operator is none of `=`, `>=`, `<=`, `>>`, `<<` -/
theorem parseOperator_unknown {c1 c2 : Nat} (X : Bytes) (hws : isWs c1 = false)
    (hop : c1 ≠ 61 ∧ ¬ ((c1 = 62 ∨ c1 = 60) ∧ (c2 = 61 ∨ c2 = c1))) :
    parseOperator (c1 :: c2 :: X) = .error .err := by
  unfold parseOperator
  rw [eatWs_cons_not hws]
  show (if c1 = 61 then (Except.ok ([61], c2 :: X) : Res (Bytes × Bytes)) else
    if (c1 = 0 || c2 = 0) = true then .error .err else
    if ((c1 = 62 && c2 = 61) || (c1 = 60 && c2 = 61) || (c1 = 60 && c2 = 60)
      || (c1 = 62 && c2 = 62)) = true then .ok ([c1, c2], X) else .error .err) = .error .err
  rw [if_neg hop.1]
  by_cases h0 : (c1 = 0 || c2 = 0) = true
  · rw [if_pos h0]
  · rw [if_neg h0, if_neg]
    intro h
    simp only [Bool.or_eq_true, Bool.and_eq_true, decide_eq_true_eq] at h
    omega

theorem reject_unknown_operator (n : Bytes) (c1 c2 : Nat) (X : Bytes) (hn : token reserved n = true)
    (hws : isWs c1 = false) (hop : c1 ≠ 61 ∧ ¬ ((c1 = 62 ∨ c1 = 60) ∧ (c2 = 61 ∨ c2 = c1))) :
    ∃ e, Dep.parse (n ++ [32, 40] ++ [c1, c2] ++ X) = .error e := by
  have e0 : n ++ [32, 40] ++ [c1, c2] ++ X = n ++ (32 :: 40 :: c1 :: c2 :: X) := by simp
  rw [e0]
  apply reject_of_controllers hn (Or.inl rfl)
  refine ⟨.err, ?_⟩
  rw [parseControllers, eatWs_cons_ws (by decide), eatWs_cons_not (by decide)]
  have : parseVersion (40 :: c1 :: c2 :: X) = .error .err := by
    unfold parseVersion
    rw [eatWs_cons_not (by decide)]
    simp only [next_cons, parseOperator_unknown X hws hop]
  simp [peek, named_version, this]

theorem reject_two_names (a b : Bytes) (ha : token reserved a = true) (hb : token reserved b = true) :
    ∃ e, Dep.parse (a ++ [32] ++ b) = .error e := by
  rw [List.append_assoc]
  apply reject_of_controllers ha (Or.inl rfl)
  refine ⟨.err, ?_⟩
  have hpk := token_reserved_mem hb (peek_token_append hb [])
  rw [List.append_nil] at hpk
  show parseControllers _ (named a) (32 :: b) = _
  rw [parseControllers, eatWs_cons_ws (by decide), eatWs_of_peek (not_isWs_of_range hpk.1)]
  have h0 : peek b ≠ 0 := by omega
  obtain ⟨_, _, h40, _, h44, h124, _, h91, _, h60, _⟩ := hpk
  simp [h40, h44, h124, h91, h60, h0]

/-! ### mixed negation -/

theorem archItem_peek {x : Bytes} (hx : token reserved x = true) (neg : Bool) (r : Bytes) :
    peek (archItem neg x ++ r) ≠ 0 ∧ peek (archItem neg x ++ r) ≠ 93 ∧
      isWs (peek (archItem neg x ++ r)) = false := by
  cases neg
  · have := token_reserved_mem hx (peek_token_append hx r)
    simp only [archItem, bang, Bool.false_eq_true, if_false, List.nil_append]
    exact ⟨by omega, by omega, not_isWs_of_range this.1⟩
  · simp [archItem, bang, peek, isWs]

theorem archsLoop_step (f : Nat) {x : Bytes} (hx : token reserved x = true) (neg : Bool)
    (set : ArchSet) (hset : set.archs = [] ∨ set.neg = neg) {r : Bytes}
    (hr : isWs (peek r) = true ∨ peek r = 93) :
    parseArchsLoop (f + 1) set (archItem neg x ++ r) =
      parseArchsLoop f ⟨neg, set.archs ++ [denoteArch x]⟩ r := by
  have hstep := parseArchEntry_ok hx neg isWs_nil set hset hr
  rw [List.nil_append] at hstep
  have hpk := archItem_peek hx neg r
  rw [parseArchsLoop, eatWs_of_peek hpk.2.2]
  generalize archItem neg x ++ r = inp at hpk hstep
  cases inp with
  | nil => simp [peek] at hpk
  | cons c inp =>
    simp only [peek] at hpk
    simp only [hpk.1, hpk.2.1, if_false, hstep]

theorem archsLoop_mismatch (f : Nat) {y : Bytes} (hy : token reserved y = true) (neg : Bool)
    (set : ArchSet) (hne : set.archs ≠ []) (hneg : set.neg ≠ neg) (r : Bytes) :
    parseArchsLoop (f + 1) set (32 :: (archItem neg y ++ r)) = .error .err := by
  obtain ⟨e1, e2, _⟩ := bang_append_eat neg hy isWs_nil r
  rw [List.nil_append] at e1
  have hpk := archItem_peek hy neg r
  have hent : parseArchEntry set (archItem neg y ++ r) = .error .err := by
    unfold parseArchEntry archItem
    simp only [e1, e2]
    have : (!set.archs.isEmpty && (set.neg != decide (neg = true))) = true := by
      cases hs : set.neg <;> cases neg <;> simp_all
    rw [if_pos this]
  rw [parseArchsLoop, eatWs_cons_ws (by decide), eatWs_of_peek hpk.2.2]
  generalize archItem neg y ++ r = inp at hpk hent
  cases inp with
  | nil => simp [peek] at hpk
  | cons c inp =>
    simp only [peek] at hpk
    simp only [hpk.1, hpk.2.1, if_false, hent]

theorem parseArchs_mixed {a b : Bytes} (ha : token reserved a = true) (hb : token reserved b = true)
    (neg neg' : Bool) (hne : neg ≠ neg') :
    parseArchs ⟨false, []⟩ (91 :: (archItem neg a ++ (32 :: (archItem neg' b ++ [93]))))
      = .error .err := by
  unfold parseArchs
  rw [eatWs_cons_not (by decide)]
  simp only [next_cons]
  obtain ⟨f, hf⟩ : ∃ f, (archItem neg a ++ (32 :: (archItem neg' b ++ [93]))).length + 1 = f + 2 :=
    exists_fuel (by simp <;> omega)
  rw [hf, archsLoop_step (f + 1) ha neg _ (Or.inl rfl) (Or.inl rfl),
    archsLoop_mismatch f hb neg' _ (by simp) hne]

theorem reject_mixed_negation (n a b : Bytes) (hn : token reserved n = true)
    (ha : token reserved a = true) (hb : token reserved b = true) :
    (∃ e, Dep.parse (n ++ [32, 91, 33] ++ a ++ [32] ++ b ++ [93]) = .error e) ∧
    (∃ e, Dep.parse (n ++ [32, 91] ++ a ++ [32, 33] ++ b ++ [93]) = .error e) := by
  constructor
  · have e0 : n ++ [32, 91, 33] ++ a ++ [32] ++ b ++ [93]
        = n ++ (32 :: 91 :: (archItem true a ++ (32 :: (archItem false b ++ [93])))) := by
      simp [archItem, bang]
    rw [e0]
    apply reject_of_controllers hn (Or.inl rfl)
    refine ⟨.err, ?_⟩
    rw [parseControllers, eatWs_cons_ws (by decide), eatWs_cons_not (by decide)]
    simp [peek, named_archs, parseArchs_mixed ha hb true false (by decide)]
  · have e0 : n ++ [32, 91] ++ a ++ [32, 33] ++ b ++ [93]
        = n ++ (32 :: 91 :: (archItem false a ++ (32 :: (archItem true b ++ [93])))) := by
      simp [archItem, bang]
    rw [e0]
    apply reject_of_controllers hn (Or.inl rfl)
    refine ⟨.err, ?_⟩
    rw [parseControllers, eatWs_cons_ws (by decide), eatWs_cons_not (by decide)]
    simp [peek, named_archs, parseArchs_mixed ha hb false true (by decide)]

end GoDebian.Lemmas.DepGrammarReject
