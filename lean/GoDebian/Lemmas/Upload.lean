/-
  Lemmas about the upload model (Model/Upload.lean): the directory primitives `get`,
  `del`, `put`; the frame of each primitive step (only the named entry changes, the
  destination kind and `outside` never do); what a successful / failing step leaves
  behind; `runFiles` by induction on the list of names; case analysis of `exec`.
-/
import GoDebian.Model.Upload

namespace GoDebian.Lemmas.Upload
open GoDebian GoDebian.Upload

/-! ### directories -/

theorem get_cons (p : Bytes × Node) (d : Dir) (n : Bytes) :
    Upload.get (p :: d) n = if p.1 = n then some p.2 else Upload.get d n := by
  unfold Upload.get
  by_cases h : p.1 = n <;> simp [h]

theorem get_append_single (d : Dir) (n m : Bytes) (x : Node) :
    Upload.get (d ++ [(n, x)]) m = match Upload.get d m with
      | some y => some y
      | none => if n = m then some x else none := by
  induction d with
  | nil => by_cases h : n = m <;> simp [Upload.get, h]
  | cons p d ih =>
    rw [List.cons_append, get_cons, get_cons]
    by_cases h : p.1 = m <;> simp [h, ih]

theorem del_cons (p : Bytes × Node) (d : Dir) (n : Bytes) :
    del (p :: d) n = if p.1 = n then del d n else p :: del d n := by
  unfold del
  by_cases h : p.1 = n <;> simp [h]

theorem get_del_self (d : Dir) (n : Bytes) : Upload.get (del d n) n = none := by
  induction d with
  | nil => rfl
  | cons p d ih =>
    rw [del_cons]
    by_cases h : p.1 = n
    · simp [h, ih]
    · simp [h, get_cons, ih]

theorem get_del_ne (d : Dir) {n m : Bytes} (hne : m ≠ n) : Upload.get (del d n) m = Upload.get d m := by
  induction d with
  | nil => rfl
  | cons p d ih =>
    rw [del_cons]
    by_cases h : p.1 = n
    · have : p.1 ≠ m := fun e => hne (e.symm.trans h)
      subst h
      simp [get_cons, this, ih]
    · simp [h, get_cons, ih]

theorem get_put_self (d : Dir) (n : Bytes) (x : Node) : Upload.get (put d n x) n = some x := by
  unfold put
  rw [get_append_single, get_del_self]
  simp

theorem get_put_ne (d : Dir) {n m : Bytes} (x : Node) (hne : m ≠ n) :
    Upload.get (put d n x) m = Upload.get d m := by
  unfold put
  rw [get_append_single, get_del_ne d hne]
  have : ¬ n = m := fun e => hne e.symm
  cases Upload.get d m <;> simp [this]

/-! ### one step -/

/-- the state after a primitive step differs from the state before at most in the entry
    `n` of the two directories -/
structure Frame (s s' : State) (n : Bytes) : Prop where
  outside : s'.outside = s.outside
  destKind : s'.destKind = s.destKind
  src : ∀ m, m ≠ n → Upload.get s'.src m = Upload.get s.src m
  dest : ∀ m, m ≠ n → Upload.get s'.dest m = Upload.get s.dest m

theorem Frame.refl (s : State) (n : Bytes) : Frame s s n := ⟨rfl, rfl, fun _ _ => rfl, fun _ _ => rfl⟩

theorem copyFile_frame (s : State) (n : Bytes) : Frame s (copyFile s n).1 n := by
  unfold copyFile
  split
  · exact Frame.refl _ _
  · split
    · exact Frame.refl _ _
    · split
      · exact Frame.refl _ _
      · split
        · exact ⟨rfl, rfl, fun _ _ => rfl, fun m hm => get_del_ne _ hm⟩
        · exact ⟨rfl, rfl, fun _ _ => rfl, fun m hm => get_put_ne _ _ hm⟩

/-- a move either changes nothing and fails, or transfers the entry and succeeds -/
theorem moveFile_cases (s : State) (n : Bytes) :
    moveFile s n = (s, false) ∨
    ∃ node, Upload.get s.src n = some node ∧
      moveFile s n = ({ s with src := del s.src n, dest := put s.dest n node }, true) := by
  unfold moveFile
  split
  · exact .inl rfl
  · rename_i node hsrc
    split
    · exact .inl rfl
    · dsimp only
      split <;> simp [hsrc]

theorem moveFile_frame (s : State) (n : Bytes) : Frame s (moveFile s n).1 n := by
  rcases moveFile_cases s n with h | ⟨node, _, h⟩ <;> rw [h]
  · exact Frame.refl _ _
  · exact ⟨rfl, rfl, fun m hm => get_del_ne _ hm, fun m hm => get_put_ne _ _ hm⟩

theorem removeFile_frame (s : State) (n : Bytes) : Frame s (removeFile s n).1 n := by
  unfold removeFile
  split
  · exact Frame.refl _ _
  · exact Frame.refl _ _
  · exact ⟨rfl, rfl, fun m hm => get_del_ne _ hm, fun _ _ => rfl⟩

theorem step_frame (op : Op) (s : State) (n : Bytes) : Frame s (step op s n).1 n := by
  cases op
  · exact copyFile_frame s n
  · exact moveFile_frame s n
  · exact removeFile_frame s n

/-- a successful copy: the source is untouched, `n` was there, and the destination now
    holds what the source holds -/
theorem copyFile_ok {s s' : State} {n : Bytes} (h : copyFile s n = (s', true)) :
    s'.src = s.src ∧ Upload.get s'.dest n = Upload.get s.src n := by
  unfold copyFile at h
  split at h
  · simp at h
  · rename_i node hsrc
    split at h
    · simp at h
    · split at h
      · simp at h
      · split at h
        · simp at h
        · simp only [Prod.mk.injEq, and_true] at h
          subst h
          exact ⟨rfl, by rw [hsrc]; exact get_put_self _ _ _⟩

/-- a successful move: `n` was in the source and is no longer, and the destination holds
    what the source held -/
theorem moveFile_ok {s s' : State} {n : Bytes} (h : moveFile s n = (s', true)) :
    Upload.get s.src n ≠ none ∧ Upload.get s'.src n = none ∧ Upload.get s'.dest n = Upload.get s.src n := by
  rcases moveFile_cases s n with h' | ⟨node, hsrc, h'⟩ <;> rw [h'] at h
  · simp at h
  · simp only [Prod.mk.injEq, and_true] at h
    subst h
    exact ⟨by simp [hsrc], get_del_self _ _, by rw [hsrc]; exact get_put_self _ _ _⟩

/-- a failing copy leaves the source alone and leaves no (new) entry `n` in the
    destination -/
theorem copyFile_fail {s s' : State} {n : Bytes} (h : copyFile s n = (s', false)) :
    s'.src = s.src ∧ (Upload.get s.dest n = none → Upload.get s'.dest n = none) := by
  unfold copyFile at h
  split at h
  · simp only [Prod.mk.injEq, and_true] at h; subst h; exact ⟨rfl, id⟩
  · split at h
    · simp only [Prod.mk.injEq, and_true] at h; subst h; exact ⟨rfl, id⟩
    · split at h
      · simp only [Prod.mk.injEq, and_true] at h; subst h; exact ⟨rfl, id⟩
      · split at h
        · simp only [Prod.mk.injEq, and_true] at h; subst h
          exact ⟨rfl, fun _ => get_del_self _ _⟩
        · simp at h

/-- a failing move changes nothing -/
theorem moveFile_fail {s s' : State} {n : Bytes} (h : moveFile s n = (s', false)) : s' = s := by
  rcases moveFile_cases s n with h' | ⟨node, hsrc, h'⟩ <;> rw [h'] at h
  · simp only [Prod.mk.injEq, and_true] at h; exact h.symm
  · simp at h

/-- a failing removal changes nothing -/
theorem removeFile_fail {s s' : State} {n : Bytes} (h : removeFile s n = (s', false)) : s' = s := by
  unfold removeFile at h
  split at h
  · simp only [Prod.mk.injEq, and_true] at h; exact h.symm
  · simp only [Prod.mk.injEq, and_true] at h; exact h.symm
  · simp at h

/-- success of a copy/move step, uniformly: the destination entry is the old source entry,
    which existed; any other source entry is as before -/
theorem step_ok {op : Op} (hop : op ≠ .remove) {s s' : State} {n : Bytes}
    (h : step op s n = (s', true)) :
    Upload.get s'.dest n = Upload.get s.src n ∧ (op = .copy → s'.src = s.src) ∧
    (op = .move → Upload.get s.src n ≠ none ∧ Upload.get s'.src n = none) := by
  cases op
  · have := copyFile_ok h
    exact ⟨this.2, fun _ => this.1, fun e => nomatch e⟩
  · have := moveFile_ok h
    exact ⟨this.2.2, fun e => (nomatch e), fun _ => ⟨this.1, this.2.1⟩⟩
  · exact absurd rfl hop

/-- failure of a copy/move step, uniformly -/
theorem step_fail {op : Op} (hop : op ≠ .remove) {s s' : State} {n : Bytes}
    (h : step op s n = (s', false)) :
    (Upload.get s.dest n = none → Upload.get s'.dest n = none) ∧ (op = .move → s' = s) := by
  cases op
  · exact ⟨(copyFile_fail h).2, fun e => nomatch e⟩
  · have := moveFile_fail h
    subst this
    exact ⟨id, fun _ => rfl⟩
  · exact absurd rfl hop

/-! ### the file loop -/

theorem runFiles_nil (op : Op) (s : State) : runFiles op s [] = (s, true) := rfl

theorem runFiles_cons (op : Op) (s : State) (n : Bytes) (rest : List Bytes) :
    runFiles op s (n :: rest) =
      if (step op s n).2 = true then runFiles op (step op s n).1 rest else ((step op s n).1, false) := by
  rw [runFiles]
  rcases hst : step op s n with ⟨s1, b⟩
  cases b <;> simp

/-- the loop never touches `outside` or the destination kind, and changes only listed
    names -/
theorem runFiles_frame (op : Op) (s : State) (names : List Bytes) :
    (runFiles op s names).1.outside = s.outside ∧
    (runFiles op s names).1.destKind = s.destKind ∧
    ∀ m, m ∉ names → Upload.get (runFiles op s names).1.src m = Upload.get s.src m ∧
                      Upload.get (runFiles op s names).1.dest m = Upload.get s.dest m := by
  induction names generalizing s with
  | nil => exact ⟨rfl, rfl, fun _ _ => ⟨rfl, rfl⟩⟩
  | cons n rest ih =>
    have hf := step_frame op s n
    rw [runFiles_cons]
    split
    · have := ih (step op s n).1
      refine ⟨this.1.trans hf.outside, this.2.1.trans hf.destKind, fun m hm => ?_⟩
      have hmn : m ≠ n := fun e => hm (e ▸ List.mem_cons_self)
      have hmr : m ∉ rest := fun e => hm (List.mem_cons_of_mem _ e)
      exact ⟨((this.2.2 m hmr).1).trans (hf.src m hmn), ((this.2.2 m hmr).2).trans (hf.dest m hmn)⟩
    · refine ⟨hf.outside, hf.destKind, fun m hm => ?_⟩
      have hmn : m ≠ n := fun e => hm (e ▸ List.mem_cons_self)
      exact ⟨hf.src m hmn, hf.dest m hmn⟩

/-- a successful run of moves found every listed name at the source -/
theorem runFiles_move_src {s s' : State} {names : List Bytes}
    (h : runFiles .move s names = (s', true)) : ∀ n ∈ names, Upload.get s.src n ≠ none := by
  induction names generalizing s with
  | nil => intro n hn; cases hn
  | cons a rest ih =>
    rw [runFiles_cons] at h
    split at h
    · rename_i hb
      have hst : step .move s a = ((step .move s a).1, true) := by rw [← hb]
      have hok := moveFile_ok hst
      intro n hn
      by_cases hna : n = a
      · subst hna; exact hok.1
      · have hnr : n ∈ rest := by
          rcases List.mem_cons.mp hn with e | e
          · exact absurd e hna
          · exact e
        have := ih h n hnr
        rwa [(step_frame .move s a).src n hna] at this
    · simp at h

/-- after a successful run of copies/moves every listed name is in the destination with
    the entry it had at the source before the run -/
theorem runFiles_ok {op : Op} (hop : op ≠ .remove) {s s' : State} {names : List Bytes}
    (h : runFiles op s names = (s', true)) : ∀ n ∈ names, Upload.get s'.dest n = Upload.get s.src n := by
  induction names generalizing s with
  | nil => intro n hn; cases hn
  | cons a rest ih =>
    rw [runFiles_cons] at h
    split at h
    · rename_i hb
      have hst : step op s a = ((step op s a).1, true) := by rw [← hb]
      have hok := step_ok hop hst
      have hfr := runFiles_frame op (step op s a).1 rest
      rw [h] at hfr
      intro n hn
      by_cases hnr : n ∈ rest
      · rw [ih h n hnr]
        cases op
        · rw [hok.2.1 rfl]
        · by_cases hna : n = a
          · subst hna
            exact absurd (hok.2.2 rfl).2 (runFiles_move_src h n hnr)
          · exact (step_frame .move s a).src n hna
        · exact absurd rfl hop
      · have hna : n = a := by
          rcases List.mem_cons.mp hn with e | e
          · exact e
          · exact absurd e hnr
        subst hna
        rw [(hfr.2.2 n hnr).2]
        exact hok.1
    · simp at h

/-! ### `exec` -/

/-- the ways `exec` can end -/
inductive Shape (op : Op) (s : State) (ctl : Bytes) (names : List Bytes) : Outcome → Prop where
  | early : Shape op s ctl names ⟨s, false, false⟩
  | files (s' : State) : names.contains ctl = false → runFiles op s names = (s', false) →
      Shape op s ctl names ⟨s', false, false⟩
  | ctlFail (s' s'' : State) : names.contains ctl = false → runFiles op s names = (s', true) →
      step op s' ctl = (s'', false) → Shape op s ctl names ⟨s'', false, false⟩
  | done (s' s'' : State) : names.contains ctl = false → runFiles op s names = (s', true) →
      step op s' ctl = (s'', true) → Shape op s ctl names ⟨s'', true, op ≠ .remove⟩

theorem exec_shape (op : Op) (s : State) (ctl : Bytes) (names : List Bytes) :
    Shape op s ctl names (exec op s ctl names) := by
  unfold exec
  split
  · exact .early
  · split
    · exact .early
    · rename_i hc
      have hc : names.contains ctl = false := by simpa using hc
      split
      · exact .early
      · rcases hr : runFiles op s names with ⟨s', b⟩
        cases b
        · exact .files s' hc hr
        · dsimp only
          rcases hs : step op s' ctl with ⟨s'', b2⟩
          cases b2
          · exact .ctlFail s' s'' hc hr hs
          · exact .done s' s'' hc hr hs

theorem not_mem_of_contains_false {ctl : Bytes} {names : List Bytes}
    (h : names.contains ctl = false) : ctl ∉ names := by
  intro hm
  have : names.contains ctl = true := List.contains_iff_mem.mpr hm
  rw [h] at this
  cases this

theorem exec_nonplain (op : Op) (s : State) (ctl : Bytes) (names : List Bytes)
    (h : names.all plain = false) : exec op s ctl names = ⟨s, false, false⟩ := by
  unfold exec
  simp [h]

theorem exec_self_listing (op : Op) (s : State) (ctl : Bytes) (names : List Bytes)
    (h : names.contains ctl = true) :
    (exec op s ctl names).ok = false ∧ (exec op s ctl names).state = s := by
  unfold exec
  split
  · exact ⟨rfl, rfl⟩
  · simp

theorem exec_frame (op : Op) (s : State) (ctl : Bytes) (names : List Bytes) :
    (exec op s ctl names).state.outside = s.outside ∧
    ∀ n, n ∉ names ∧ n ≠ ctl →
      Upload.get (exec op s ctl names).state.src n = Upload.get s.src n ∧
      Upload.get (exec op s ctl names).state.dest n = Upload.get s.dest n := by
  have hsh := exec_shape op s ctl names
  generalize exec op s ctl names = o at hsh
  cases hsh with
  | early => exact ⟨rfl, fun _ _ => ⟨rfl, rfl⟩⟩
  | files s' _ hr =>
    have hf := runFiles_frame op s names
    rw [hr] at hf
    exact ⟨hf.1, fun n hn => hf.2.2 n hn.1⟩
  | ctlFail s' s'' _ hr hs =>
    have hf := runFiles_frame op s names
    rw [hr] at hf
    have hg := step_frame op s' ctl
    rw [hs] at hg
    exact ⟨hg.outside.trans hf.1, fun n hn =>
      ⟨(hg.src n hn.2).trans (hf.2.2 n hn.1).1, (hg.dest n hn.2).trans (hf.2.2 n hn.1).2⟩⟩
  | done s' s'' _ hr hs =>
    have hf := runFiles_frame op s names
    rw [hr] at hf
    have hg := step_frame op s' ctl
    rw [hs] at hg
    exact ⟨hg.outside.trans hf.1, fun n hn =>
      ⟨(hg.src n hn.2).trans (hf.2.2 n hn.1).1, (hg.dest n hn.2).trans (hf.2.2 n hn.1).2⟩⟩

/-- copy/move ending in success: handle in the destination, every listed file and the
    control file in the destination as they were at the source -/
theorem exec_success {op : Op} (hop : op ≠ .remove) (s : State) (ctl : Bytes) (names : List Bytes)
    (hs : (exec op s ctl names).ok = true) :
    (exec op s ctl names).handleDest = true ∧
    ∀ n ∈ names ++ [ctl], Upload.get (exec op s ctl names).state.dest n = Upload.get s.src n := by
  have hsh := exec_shape op s ctl names
  generalize exec op s ctl names = o at hsh hs
  cases hsh with
  | early => cases hs
  | files => cases hs
  | ctlFail => cases hs
  | done s' s'' hc hr hst =>
    have hcm := not_mem_of_contains_false hc
    have hf := runFiles_frame op s names
    rw [hr] at hf
    have hg := step_frame op s' ctl
    rw [hst] at hg
    refine ⟨by simpa using hop, fun n hn => ?_⟩
    rcases List.mem_append.mp hn with hn | hn
    · have hne : n ≠ ctl := fun e => hcm (e ▸ hn)
      exact (hg.dest n hne).trans (runFiles_ok hop hr n hn)
    · have : n = ctl := by simpa using hn
      subst this
      exact (step_ok hop hst).1.trans (hf.2.2 n hcm).1

/-- copy/move ending in failure: no control file appears in the destination; a move leaves
    the control file at the source -/
theorem exec_failure {op : Op} (hop : op ≠ .remove) (s : State) (ctl : Bytes) (names : List Bytes)
    (h0 : Upload.get s.dest ctl = none) (hf : (exec op s ctl names).ok = false) :
    Upload.get (exec op s ctl names).state.dest ctl = none ∧
    (op = .move → Upload.get (exec op s ctl names).state.src ctl = Upload.get s.src ctl) := by
  have hsh := exec_shape op s ctl names
  generalize exec op s ctl names = o at hsh hf
  cases hsh with
  | early => exact ⟨h0, fun _ => rfl⟩
  | files s' hc hr =>
    have hcm := not_mem_of_contains_false hc
    have hfr := runFiles_frame op s names
    rw [hr] at hfr
    exact ⟨(hfr.2.2 ctl hcm).2.trans h0, fun _ => (hfr.2.2 ctl hcm).1⟩
  | ctlFail s' s'' hc hr hst =>
    have hcm := not_mem_of_contains_false hc
    have hfr := runFiles_frame op s names
    rw [hr] at hfr
    have hsf := step_fail hop hst
    refine ⟨hsf.1 ((hfr.2.2 ctl hcm).2.trans h0), fun hm => ?_⟩
    rw [hsf.2 hm]
    exact (hfr.2.2 ctl hcm).1
  | done => cases hf

/-- removal ending in failure: the control file is as it was -/
theorem exec_remove_failure (s : State) (ctl : Bytes) (names : List Bytes)
    (hf : (exec .remove s ctl names).ok = false) :
    Upload.get (exec .remove s ctl names).state.src ctl = Upload.get s.src ctl := by
  have hsh := exec_shape .remove s ctl names
  generalize exec .remove s ctl names = o at hsh hf
  cases hsh with
  | early => rfl
  | files s' hc hr =>
    have hfr := runFiles_frame .remove s names
    rw [hr] at hfr
    exact (hfr.2.2 ctl (not_mem_of_contains_false hc)).1
  | ctlFail s' s'' hc hr hst =>
    have hfr := runFiles_frame .remove s names
    rw [hr] at hfr
    rw [removeFile_fail hst]
    exact (hfr.2.2 ctl (not_mem_of_contains_false hc)).1
  | done => cases hf

/-- every prefix of the file loop leaves the control file's slot in the destination alone -/
theorem runFiles_take_dest (op : Op) (s : State) (ctl : Bytes) (names : List Bytes) (k : Nat)
    (hc : names.contains ctl = false) :
    Upload.get (runFiles op s (names.take k)).1.dest ctl = Upload.get s.dest ctl := by
  have hcm : ctl ∉ names.take k := fun h => not_mem_of_contains_false hc (List.mem_of_mem_take h)
  exact ((runFiles_frame op s (names.take k)).2.2 ctl hcm).2

end GoDebian.Lemmas.Upload
