/-
  The deb822 reader on arbitrary input: `insert`/`lookup` algebra, the loop invariant of
  `nextAux` (order and key set agree, no duplicate in the order), `next` consumes lines,
  `all` never runs out of fuel.  Core Lean only.
-/
import GoDebian.Model.Deb822

namespace GoDebian.Lemmas.Deb822Read
open GoDebian GoDebian.Deb822

/-- Reader results can be compared (for `decide` in examples). -/
instance : DecidableEq (Res (List Paragraph)) := fun a b =>
  match a, b with
  | .ok x, .ok y => if h : x = y then isTrue (by rw [h]) else isFalse (fun e => h (by injection e))
  | .error x, .error y =>
    if h : x = y then isTrue (by rw [h]) else isFalse (fun e => h (by injection e))
  | .ok _, .error _ => isFalse (fun e => by cases e)
  | .error _, .ok _ => isFalse (fun e => by cases e)

/-! ### `lookup` / `insert` -/

theorem lookup_insert_self (k v : Bytes) (m : List (Bytes × Bytes)) :
    lookup k (insert k v m) = some v := by
  induction m with
  | nil => simp [Deb822.insert, lookup]
  | cons a m ih =>
    obtain ⟨k', v'⟩ := a
    by_cases h : k' = k
    · simp [Deb822.insert, lookup, h]
    · simp [Deb822.insert, lookup, h, ih]

theorem lookup_insert_ne {k k' : Bytes} (h : k' ≠ k) (v : Bytes) (m : List (Bytes × Bytes)) :
    lookup k' (insert k v m) = lookup k' m := by
  induction m with
  | nil => simp [Deb822.insert, lookup, Ne.symm h]
  | cons a m ih =>
    obtain ⟨k'', v''⟩ := a
    by_cases h1 : k'' = k
    · subst h1; simp [Deb822.insert, lookup, Ne.symm h]
    · by_cases h2 : k'' = k'
      · subst h2; simp [Deb822.insert, lookup, h1]
      · simp [Deb822.insert, lookup, h1, h2, ih]

theorem insert_insert (k v v' : Bytes) (m : List (Bytes × Bytes)) :
    insert k v (insert k v' m) = insert k v m := by
  induction m with
  | nil => simp [Deb822.insert]
  | cons a m ih =>
    obtain ⟨k', v''⟩ := a
    by_cases h : k' = k
    · simp [Deb822.insert, h]
    · simp [Deb822.insert, h, ih]

theorem get_insert_self (o : List Bytes) (k v : Bytes) (m : List (Bytes × Bytes)) :
    Paragraph.get ⟨o, insert k v m⟩ k = v := by
  simp [Paragraph.get, lookup_insert_self]

/-! ### the loop invariant -/

/-- What every paragraph under construction satisfies. -/
def KeysOK (p : Paragraph) : Prop :=
  p.order.Nodup ∧ ∀ k, k ∈ p.order ↔ (lookup k p.values).isSome

/-- Loop invariant of `nextAux lines p lastKey`. -/
def Inv (p : Paragraph) (lastKey : Bytes) : Prop :=
  KeysOK p ∧ (p.order ≠ [] → lastKey ∈ p.order)

theorem inv_empty : Inv empty [] := by
  refine ⟨⟨List.nodup_nil, ?_⟩, fun h => absurd rfl h⟩
  intro k; simp [empty, lookup]

/-- overwriting the value of a key that is present -/
theorem keysOK_overwrite {p : Paragraph} {k : Bytes} (v : Bytes) (h : KeysOK p)
    (hk : k ∈ p.order) : KeysOK { p with values := insert k v p.values } := by
  refine ⟨h.1, fun k' => ?_⟩
  by_cases e : k' = k
  · subst e; simp [lookup_insert_self, hk]
  · simp only [lookup_insert_ne e]; exact h.2 k'

/-- a field line: the key is appended to the order iff it is new -/
theorem keysOK_field {p : Paragraph} (k v : Bytes) (h : KeysOK p) :
    KeysOK ⟨if (lookup k p.values).isSome then p.order else p.order ++ [k],
      insert k v p.values⟩ := by
  by_cases hs : (lookup k p.values).isSome
  · simp only [hs, if_true]
    exact keysOK_overwrite (p := p) v h ((h.2 k).mpr hs)
  · simp only [hs]
    have hk : k ∉ p.order := fun hm => hs ((h.2 k).mp hm)
    refine ⟨?_, fun k' => ?_⟩
    · simp only [Bool.false_eq_true, if_false]
      exact List.nodup_append.mpr ⟨h.1, (by simp),
        fun a ha b hb => by
          simp only [List.mem_singleton] at hb; subst hb
          exact fun e => hk (e ▸ ha)⟩
    · by_cases e : k' = k
      · subst e; simp [lookup_insert_self]
      · simp only [lookup_insert_ne e, Bool.false_eq_true, if_false, List.mem_append,
          List.mem_singleton, e, or_false]
        exact h.2 k'

theorem mem_order_field {p : Paragraph} (k : Bytes) (h : KeysOK p) :
    k ∈ (if (lookup k p.values).isSome then p.order else p.order ++ [k]) := by
  by_cases hs : (lookup k p.values).isSome
  · simp only [hs, if_true]; exact (h.2 k).mpr hs
  · simp [hs]

/-- `nextAux` returns a paragraph that satisfies the invariant, has a non-empty order, and
    leaves at most the lines it was given (strictly fewer when it started from an empty
    paragraph). -/
theorem nextAux_para {lines : List Bytes} {p : Paragraph} {lastKey : Bytes} {q : Paragraph}
    {rest : List Bytes} (hinv : Inv p lastKey) (h : nextAux lines p lastKey = .para q rest) :
    KeysOK q ∧ q.order ≠ [] ∧ rest.length ≤ lines.length ∧
      (p.order = [] → rest.length < lines.length) := by
  induction lines generalizing p lastKey with
  | nil =>
    simp only [nextAux] at h
    split at h
    · cases h
    · rename_i hne
      injection h with h1 h2
      subst h1 h2
      refine ⟨hinv.1, ?_, Nat.le_refl _, fun he => ?_⟩
      · simpa using hne
      · simp [he] at hne
  | cons line rest' ih =>
    rw [nextAux] at h
    split at h
    · -- blank line
      split at h
      · rename_i hemp
        have := ih hinv h
        refine ⟨this.1, this.2.1, ?_, fun _ => ?_⟩ <;> simp only [List.length_cons] <;> omega
      · rename_i hne
        injection h with h1 h2
        subst h1 h2
        refine ⟨hinv.1, by simpa using hne, by simp, fun he => ?_⟩
        simp [he] at hne
    · split at h
      · -- comment
        have := ih hinv h
        refine ⟨this.1, this.2.1, ?_, fun he => ?_⟩
        · simp only [List.length_cons]; omega
        · have := this.2.2.2 he; simp only [List.length_cons]; omega
      · split at h
        · -- continuation line
          split at h
          · cases h
          · rename_i hne
            have hne' : p.order ≠ [] := by simpa using hne
            have hk := hinv.2 hne'
            have := ih (p := { p with values := insert lastKey _ p.values })
              ⟨keysOK_overwrite _ hinv.1 hk, fun _ => hk⟩ h
            refine ⟨this.1, this.2.1, ?_, fun he => absurd he hne'⟩
            simp only [List.length_cons]; omega
        · -- field line
          split at h
          · rename_i k v _
            simp only at h
            split at h
            · cases h
            · have := ih (p := ⟨_, insert (Str.trimSpace k) (Str.trimSpace v) p.values⟩)
                ⟨keysOK_field _ _ hinv.1, fun _ => mem_order_field _ hinv.1⟩ h
              refine ⟨this.1, this.2.1, ?_, fun _ => ?_⟩ <;>
                simp only [List.length_cons] <;> omega
          · cases h

theorem next_para {lines : List Bytes} {q : Paragraph} {rest : List Bytes}
    (h : next lines = .para q rest) :
    KeysOK q ∧ q.order ≠ [] ∧ rest.length < lines.length := by
  have := nextAux_para inv_empty h
  exact ⟨this.1, this.2.1, this.2.2.2 rfl⟩

/-! ### `allAux` -/

theorem allAux_succ (fuel : Nat) (lines : List Bytes) (acc : List Paragraph) :
    allAux (fuel + 1) lines acc = match next lines with
      | .eof => .ok acc
      | .bad => .error .err
      | .para p rest => allAux fuel rest (acc ++ [p]) := by
  rfl

theorem allAux_total (fuel : Nat) (lines : List Bytes) (acc : List Paragraph)
    (hf : lines.length < fuel) :
    allAux fuel lines acc ≠ .error .fuel ∧ allAux fuel lines acc ≠ .error .panic := by
  induction fuel generalizing lines acc with
  | zero => omega
  | succ fuel ih =>
    rw [allAux_succ]
    split
    · exact ⟨by simp, by simp⟩
    · exact ⟨by simp, by simp⟩
    · rename_i p rest hn
      have := (next_para hn).2.2
      exact ih rest _ (by omega)

theorem allAux_inv (P : Paragraph → Prop)
    (hP : ∀ lines q rest, next lines = .para q rest → P q)
    (fuel : Nat) (lines : List Bytes) (acc ps : List Paragraph)
    (hacc : ∀ p ∈ acc, P p) (h : allAux fuel lines acc = .ok ps) : ∀ p ∈ ps, P p := by
  induction fuel generalizing lines acc with
  | zero => simp [allAux] at h
  | succ fuel ih =>
    rw [allAux_succ] at h
    split at h
    · injection h with h; subst h; exact hacc
    · cases h
    · rename_i q rest hn
      refine ih rest (acc ++ [q]) (fun p hp => ?_) h
      rcases List.mem_append.mp hp with hp | hp
      · exact hacc p hp
      · simp only [List.mem_singleton] at hp; subst hp; exact hP _ _ _ hn

theorem all_invariant (bs : Bytes) (ps : List Paragraph) (h : all bs = .ok ps) :
    ∀ p ∈ ps, p.order ≠ [] ∧ p.order.Nodup ∧ ∀ k, k ∈ p.order ↔ (lookup k p.values).isSome := by
  refine allAux_inv _ (fun lines q rest hn => ?_) _ _ [] ps (by simp) h
  have := next_para hn
  exact ⟨this.2.1, this.1.1, this.1.2⟩

theorem all_total (bs : Bytes) : all bs ≠ .error .fuel ∧ all bs ≠ .error .panic :=
  allAux_total _ _ _ (Nat.lt_succ_self _)

end GoDebian.Lemmas.Deb822Read
