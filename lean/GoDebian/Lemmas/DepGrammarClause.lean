/-
  The clause parsers (`parseVersion`, `parseArchs`, `parseStageSet`) consume exactly the
  rendering of their clause and leave the rest of the input untouched.  Core Lean only.
-/
import GoDebian.Lemmas.DepGrammarShape

namespace GoDebian.Lemmas.DepGrammarClause
open GoDebian GoDebian.Dep GoDebian.Spec.Dependency GoDebian.Lemmas.DepGrammarLex
open GoDebian.Lemmas.DepGrammarShape

/-! ### version clauses -/

def ValidOp (op : Bytes) : Prop := op = opGE ∨ op = opLE ∨ op = opGT ∨ op = opLT ∨ op = opEQ

theorem parseOperator_ok {op : Bytes} (h : ValidOp op) {w : Bytes} (hw : IsWs w) (r : Bytes) :
    parseOperator (w ++ op ++ r) = .ok (op, r) := by
  unfold parseOperator
  rw [List.append_assoc, eatWs_append hw]
  rcases h with rfl | rfl | rfl | rfl | rfl <;>
    simp [opGE, opLE, opGT, opLT, opEQ, eatWs_cons_not, isWs, next]

theorem trimRight_ws {num w : Bytes} (hw : IsWs w) (hn : ∀ c ∈ num, isWs c = false) :
    ((num ++ w).reverse.dropWhile isWs).reverse = num := by
  rw [List.reverse_append, List.dropWhile_append_of_pos (fun c hc => hw c (List.mem_reverse.1 hc))]
  cases h : num.reverse with
  | nil => simp at h; simp [h]
  | cons c l =>
    have hc : isWs c = false := hn c (by rw [← List.mem_reverse, h]; exact List.mem_cons_self ..)
    rw [List.dropWhile_cons_of_neg (by simp [hc]), ← h, List.reverse_reverse]

theorem parseNumber_ok {num : Bytes} (h : token [41] num = true) {w2 w3 : Bytes} (h2 : IsWs w2)
    (h3 : IsWs w3) (r : Bytes) :
    parseNumber (w2 ++ num ++ w3 ++ [41] ++ r) = .ok (num, 41 :: r) := by
  have hn : ∀ c ∈ num, isWs c = false := fun c hc => not_isWs_of_range (token_mem_range h hc).1
  have e1 : eatWs (w2 ++ num ++ w3 ++ [41] ++ r) = (num ++ w3) ++ 41 :: r := by
    have : w2 ++ num ++ w3 ++ [41] ++ r = w2 ++ (num ++ (w3 ++ 41 :: r)) := by simp
    rw [this, eatWs_append_peek h2 (not_isWs_of_range (peek_token_range h _).1)]
    simp
  have e2 : takeUntil (fun c => c = 0 || c = 41) ((num ++ w3) ++ 41 :: r) = (num ++ w3, 41 :: r) := by
    apply takeUntil_append
    · intro c hc
      rcases List.mem_append.1 hc with hc | hc
      · have := (token_iff.1 h).2 c hc
        simp at this ⊢; omega
      · have := (isWs_iff c).1 (h3 c hc)
        simp; omega
    · right; simp [peek]
  unfold parseNumber
  simp only [e1, e2, trimRight_ws h3 hn]

theorem parseVersion_ok {op num t : Bytes} (hop : ValidOp op) (hnum : token [41] num = true)
    (ht : VersionShape op num t) (r : Bytes) :
    parseVersion (t ++ r) = .ok (⟨num, op⟩, r) := by
  obtain ⟨h1, h2, h3⟩ := ht
  rename_i w1 w2 w3
  unfold parseVersion
  have e0 : [40] ++ w1 ++ op ++ w2 ++ num ++ w3 ++ [41] ++ r
      = 40 :: (w1 ++ op ++ (w2 ++ num ++ w3 ++ [41] ++ r)) := by simp
  rw [e0, eatWs_cons_not (by decide)]
  simp only [next_cons, parseOperator_ok hop h1, parseNumber_ok hnum h2 h3]

/-! ### architecture lists -/

theorem bang_append_eat (n : Bool) {a : Bytes} (ha : token reserved a = true) {w : Bytes}
    (hw : IsWs w) (r : Bytes) :
    eatWs (w ++ (bang n ++ a) ++ r) = bang n ++ a ++ r ∧
    (peek (bang n ++ a ++ r) = 33) = (n = true) ∧
    (if n = true then (next (bang n ++ a ++ r)).2 else bang n ++ a ++ r) = a ++ r := by
  have h33 : peek (a ++ r) ≠ 33 := (token_reserved_mem ha (peek_token_append ha r)).2.2.2.2.2.2.2.2.2.2.2.1
  cases n
  · simp only [bang, Bool.false_eq_true, if_false, List.nil_append]
    rw [List.append_assoc, eatWs_append_peek hw (not_isWs_of_range (peek_token_range ha r).1)]
    simp [h33]
  · simp only [bang, if_true]
    rw [List.append_assoc, eatWs_append hw]
    simp [eatWs_cons_not, isWs, peek, next]

theorem parseArchEntry_ok {a : Bytes} (ha : token reserved a = true) (neg : Bool) {w : Bytes}
    (hw : IsWs w) (set : ArchSet) (hset : set.archs = [] ∨ set.neg = neg) {r : Bytes}
    (hr : isWs (peek r) = true ∨ peek r = 93) :
    parseArchEntry set (w ++ archItem neg a ++ r) =
      .ok (⟨neg, set.archs ++ [denoteArch a]⟩, r) := by
  obtain ⟨e1, e2, e3⟩ := bang_append_eat neg ha hw r
  have e4 : takeUntil (fun c => c = 0 || c = 33 || c = 93 || isWs c) (a ++ r) = (a, r) := by
    apply takeUntil_append
    · intro c hc; exact (token_avoids ha hc).2.2.2.1
    · right; rcases hr with hr | hr <;> simp [hr]
  unfold parseArchEntry archItem
  simp only [e1, e2, e3, e4]
  cases r with
  | nil => simp [peek, isWs] at hr
  | cons c r =>
    have hc : (c = 0 || c = 33) = false := by
      simp only [peek] at hr
      rcases hr with hr | hr
      · have := (isWs_iff c).1 hr; simp; omega
      · simp [hr]
    have hcond : (!set.archs.isEmpty && (set.neg != decide (neg = true))) = false := by
      rcases hset with h | h
      · simp [h]
      · simp [h]
    simp only [hcond, hc, Bool.false_eq_true, if_false, parseArch_denote]
    rcases hset with h | h <;> simp [h]

theorem parseArchsLoop_ok (neg : Bool) (xs : List Bytes) :
    ∀ (x : Bytes) (out w : Bytes) (set : ArchSet) (fuel : Nat) {w2 : Bytes} (r : Bytes),
      token reserved x = true → (∀ y ∈ xs, token reserved y = true) →
      SepBy (xs.map (archItem neg)) out → IsWs w → IsWs w2 →
      (set.archs = [] ∨ set.neg = neg) → xs.length + 2 ≤ fuel →
      parseArchsLoop fuel set (w ++ archItem neg x ++ out ++ w2 ++ [93] ++ r) =
        .ok (⟨neg, set.archs ++ (x :: xs).map denoteArch⟩, r) := by
  induction xs with
  | nil =>
    intro x out w set fuel w2 r hx _ hout hw hw2 hset hfuel
    cases hout
    obtain ⟨f, rfl⟩ : ∃ f, fuel = f + 2 := ⟨fuel - 2, by simp at hfuel; omega⟩
    have hpk : peek (archItem neg x ++ (w2 ++ [93] ++ r)) ≠ 0 ∧
        peek (archItem neg x ++ (w2 ++ [93] ++ r)) ≠ 93 ∧
        isWs (peek (archItem neg x ++ (w2 ++ [93] ++ r))) = false := by
      cases neg
      · have := token_reserved_mem hx (peek_token_append hx (w2 ++ [93] ++ r))
        simp only [archItem, bang, Bool.false_eq_true, if_false, List.nil_append]
        exact ⟨by omega, by omega, not_isWs_of_range this.1⟩
      · simp [archItem, bang, peek, isWs]
    have e0 : w ++ archItem neg x ++ [] ++ w2 ++ [93] ++ r
        = w ++ (archItem neg x ++ (w2 ++ [93] ++ r)) := by simp
    have hr : isWs (peek (w2 ++ [93] ++ r)) = true ∨ peek (w2 ++ [93] ++ r) = 93 := by
      cases w2 with
      | nil => right; rfl
      | cons c w2 => left; exact (isWs_cons.1 hw2).1
    have hstep := parseArchEntry_ok hx neg isWs_nil set hset hr
    rw [List.nil_append] at hstep
    rw [e0, parseArchsLoop, eatWs_append_peek hw hpk.2.2]
    generalize hinp : archItem neg x ++ (w2 ++ [93] ++ r) = inp at hpk hstep
    cases inp with
    | nil => simp [peek] at hpk
    | cons c inp =>
      simp only [peek] at hpk
      simp only [hpk.1, hpk.2.1, if_false, hstep]
      rw [parseArchsLoop, List.append_assoc, eatWs_append_peek hw2 (by simp [peek, isWs])]
      simp
  | cons y ys ih =>
    intro x out w set fuel w2 r hx hxs hout hw hw2 hset hfuel
    rw [List.map_cons] at hout
    cases hout
    rename_i w' out' hw' hne hout'
    obtain ⟨f, rfl⟩ : ∃ f, fuel = f + 1 := ⟨fuel - 1, by simp at hfuel; omega⟩
    have hpk : peek (archItem neg x ++ (w' ++ archItem neg y ++ out' ++ w2 ++ [93] ++ r)) ≠ 0 ∧
        peek (archItem neg x ++ (w' ++ archItem neg y ++ out' ++ w2 ++ [93] ++ r)) ≠ 93 ∧
        isWs (peek (archItem neg x ++ (w' ++ archItem neg y ++ out' ++ w2 ++ [93] ++ r))) = false := by
      cases neg
      · have := token_reserved_mem hx (peek_token_append hx (w' ++ archItem false y ++ out' ++ w2 ++ [93] ++ r))
        simp only [archItem, bang, Bool.false_eq_true, if_false, List.nil_append] at this ⊢
        exact ⟨by omega, by omega, not_isWs_of_range this.1⟩
      · simp [archItem, bang, peek, isWs]
    have e0 : w ++ archItem neg x ++ (w' ++ archItem neg y ++ out') ++ w2 ++ [93] ++ r
        = w ++ (archItem neg x ++ (w' ++ archItem neg y ++ out' ++ w2 ++ [93] ++ r)) := by simp
    have hr : isWs (peek (w' ++ archItem neg y ++ out' ++ w2 ++ [93] ++ r)) = true ∨
        peek (w' ++ archItem neg y ++ out' ++ w2 ++ [93] ++ r) = 93 := by
      left
      cases w' with
      | nil => exact absurd rfl hne
      | cons c w' => exact (isWs_cons.1 hw').1
    have hstep := parseArchEntry_ok hx neg isWs_nil set hset hr
    rw [List.nil_append] at hstep
    rw [e0, parseArchsLoop, eatWs_append_peek hw hpk.2.2]
    generalize hinp : archItem neg x ++ (w' ++ archItem neg y ++ out' ++ w2 ++ [93] ++ r) = inp
      at hpk hstep
    cases inp with
    | nil => simp [peek] at hpk
    | cons c inp =>
      simp only [peek] at hpk
      simp only [hpk.1, hpk.2.1, if_false, hstep]
      rw [ih y out' w' _ f r (hxs y (List.mem_cons_self ..))
        (fun z hz => hxs z (List.mem_cons_of_mem _ hz)) hout' hw' hw2 (Or.inr rfl)
        (by simp at hfuel ⊢; omega)]
      simp

theorem sepBy_length {xs : List Bytes} {out : Bytes} (h : SepBy xs out) : xs.length ≤ out.length := by
  induction h with
  | nil => simp
  | @cons w x xs out hw hne _ ih =>
    have : 1 ≤ w.length := by
      cases w with
      | nil => exact absurd rfl hne
      | cons c w => simp
    simp only [List.length_cons, List.length_append]
    omega

theorem parseArchs_ok {neg : Bool} {as : List Bytes} {t : Bytes} (hne : as ≠ [])
    (has : ∀ a ∈ as, token reserved a = true)
    (ht : BracketShape 91 93 (as.map (archItem neg)) t) (r : Bytes) :
    parseArchs ⟨false, []⟩ (t ++ r) = .ok (⟨neg, as.map denoteArch⟩, r) := by
  obtain ⟨h1, h2, hb⟩ := ht
  rename_i w1 w2 body
  cases as with
  | nil => exact absurd rfl hne
  | cons x xs =>
    obtain ⟨out, hout, rfl⟩ := hb
    have e0 : [91] ++ w1 ++ (archItem neg x ++ out) ++ w2 ++ [93] ++ r
        = 91 :: (w1 ++ archItem neg x ++ out ++ w2 ++ [93] ++ r) := by simp
    unfold parseArchs
    rw [e0, eatWs_cons_not (by decide)]
    simp only [next_cons]
    have hl := sepBy_length hout
    rw [parseArchsLoop_ok neg xs x out w1 ⟨false, []⟩ _ r (has x (List.mem_cons_self ..))
      (fun z hz => has z (List.mem_cons_of_mem _ hz)) hout h1 h2 (Or.inl rfl)
      (by simp only [List.length_append, List.length_map, List.length_cons] at hl ⊢; omega)]
    simp

/-! ### profile groups -/

def toStage (x : Bool × Bytes) : Stage := ⟨x.1, x.2⟩

theorem parseStage_ok (x : Bool × Bytes) (hx : token reserved x.2 = true) {w : Bytes}
    (hw : IsWs w) {r : Bytes} (hr : isWs (peek r) = true ∨ peek r = 62) :
    parseStage (w ++ stageItem x ++ r) = .ok (toStage x, r) := by
  obtain ⟨n, s⟩ := x
  obtain ⟨e1, e2, e3⟩ := bang_append_eat n hx hw r
  have e4 : takeUntil (fun c => c = 0 || c = 33 || c = 62 || isWs c) (s ++ r) = (s, r) := by
    apply takeUntil_append
    · intro c hc; exact (token_avoids hx hc).2.2.2.2.1
    · right; rcases hr with hr | hr <;> simp [hr]
  unfold parseStage stageItem
  simp only [e1, e2, e3, e4]
  cases r with
  | nil => simp [peek, isWs] at hr
  | cons c r =>
    have hc : (c = 0 || c = 33) = false := by
      simp only [peek] at hr
      rcases hr with hr | hr
      · have := (isWs_iff c).1 hr; simp; omega
      · simp [hr]
    simp [hc, toStage]

theorem parseStageSetLoop_ok (xs : List (Bool × Bytes)) :
    ∀ (x : Bool × Bytes) (out w : Bytes) (acc : List Stage) (fuel : Nat) {w2 : Bytes} (r : Bytes),
      token reserved x.2 = true → (∀ y ∈ xs, token reserved y.2 = true) →
      SepBy (xs.map stageItem) out → IsWs w → IsWs w2 → xs.length + 2 ≤ fuel →
      parseStageSetLoop fuel acc (w ++ stageItem x ++ out ++ w2 ++ [62] ++ r) =
        .ok (acc ++ (x :: xs).map toStage, r) := by
  have hpeek : ∀ (x : Bool × Bytes) (R : Bytes), token reserved x.2 = true →
      peek (stageItem x ++ R) ≠ 0 ∧ peek (stageItem x ++ R) ≠ 62 ∧
        isWs (peek (stageItem x ++ R)) = false := by
    intro x R hx
    obtain ⟨n, s⟩ := x
    cases n
    · have := token_reserved_mem hx (peek_token_append hx R)
      simp only [stageItem, bang, Bool.false_eq_true, if_false, List.nil_append] at this ⊢
      exact ⟨by omega, by omega, not_isWs_of_range this.1⟩
    · simp [stageItem, bang, peek, isWs]
  induction xs with
  | nil =>
    intro x out w acc fuel w2 r hx _ hout hw hw2 hfuel
    cases hout
    obtain ⟨f, rfl⟩ : ∃ f, fuel = f + 2 := ⟨fuel - 2, by simp at hfuel; omega⟩
    have hpk := hpeek x (w2 ++ [62] ++ r) hx
    have e0 : w ++ stageItem x ++ [] ++ w2 ++ [62] ++ r
        = w ++ (stageItem x ++ (w2 ++ [62] ++ r)) := by simp
    have hr : isWs (peek (w2 ++ [62] ++ r)) = true ∨ peek (w2 ++ [62] ++ r) = 62 := by
      cases w2 with
      | nil => right; rfl
      | cons c w2 => left; exact (isWs_cons.1 hw2).1
    have hstep := parseStage_ok x hx isWs_nil hr
    rw [List.nil_append] at hstep
    rw [e0, parseStageSetLoop, eatWs_append_peek hw hpk.2.2]
    generalize hinp : stageItem x ++ (w2 ++ [62] ++ r) = inp at hpk hstep
    cases inp with
    | nil => simp [peek] at hpk
    | cons c inp =>
      simp only [peek] at hpk
      simp only [hpk.1, hpk.2.1, if_false, hstep]
      rw [parseStageSetLoop, List.append_assoc, eatWs_append_peek hw2 (by simp [peek, isWs])]
      simp
  | cons y ys ih =>
    intro x out w acc fuel w2 r hx hxs hout hw hw2 hfuel
    rw [List.map_cons] at hout
    cases hout
    rename_i w' out' hw' hne hout'
    obtain ⟨f, rfl⟩ : ∃ f, fuel = f + 1 := ⟨fuel - 1, by simp at hfuel; omega⟩
    have hpk := hpeek x (w' ++ stageItem y ++ out' ++ w2 ++ [62] ++ r) hx
    have e0 : w ++ stageItem x ++ (w' ++ stageItem y ++ out') ++ w2 ++ [62] ++ r
        = w ++ (stageItem x ++ (w' ++ stageItem y ++ out' ++ w2 ++ [62] ++ r)) := by simp
    have hr : isWs (peek (w' ++ stageItem y ++ out' ++ w2 ++ [62] ++ r)) = true ∨
        peek (w' ++ stageItem y ++ out' ++ w2 ++ [62] ++ r) = 62 := by
      left
      cases w' with
      | nil => exact absurd rfl hne
      | cons c w' => exact (isWs_cons.1 hw').1
    have hstep := parseStage_ok x hx isWs_nil hr
    rw [List.nil_append] at hstep
    rw [e0, parseStageSetLoop, eatWs_append_peek hw hpk.2.2]
    generalize hinp : stageItem x ++ (w' ++ stageItem y ++ out' ++ w2 ++ [62] ++ r) = inp
      at hpk hstep
    cases inp with
    | nil => simp [peek] at hpk
    | cons c inp =>
      simp only [peek] at hpk
      simp only [hpk.1, hpk.2.1, if_false, hstep]
      rw [ih y out' w' _ f r (hxs y (List.mem_cons_self ..))
        (fun z hz => hxs z (List.mem_cons_of_mem _ hz)) hout' hw' hw2
        (by simp at hfuel ⊢; omega)]
      simp

theorem parseStageSet_ok {g : List (Bool × Bytes)} {t : Bytes} (hne : g ≠ [])
    (hg : ∀ x ∈ g, token reserved x.2 = true)
    (ht : BracketShape 60 62 (g.map stageItem) t) (r : Bytes) :
    parseStageSet (t ++ r) = .ok (g.map toStage, r) := by
  obtain ⟨h1, h2, hb⟩ := ht
  rename_i w1 w2 body
  cases g with
  | nil => exact absurd rfl hne
  | cons x xs =>
    obtain ⟨out, hout, rfl⟩ := hb
    have e0 : [60] ++ w1 ++ (stageItem x ++ out) ++ w2 ++ [62] ++ r
        = 60 :: (w1 ++ stageItem x ++ out ++ w2 ++ [62] ++ r) := by simp
    unfold parseStageSet
    rw [e0, eatWs_cons_not (by decide)]
    simp only [next_cons]
    have hl := sepBy_length hout
    rw [parseStageSetLoop_ok xs x out w1 [] _ r (hg x (List.mem_cons_self ..))
      (fun z hz => hg z (List.mem_cons_of_mem _ hz)) hout h1 h2
      (by simp only [List.length_append, List.length_map, List.length_cons] at hl ⊢; omega)]
    simp

end GoDebian.Lemmas.DepGrammarClause
