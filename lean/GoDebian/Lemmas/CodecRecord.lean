/-
  C09 lemmas, part 6: whole records — the decoder on flat schemas, the paragraph written for
  a flat schema, the round trip at the paragraph level.
-/
import GoDebian.Model.Codec
import GoDebian.Spec.Codec
import GoDebian.Lemmas.CodecRound
import GoDebian.Lemmas.Deb822WriteDoc

namespace GoDebian.Lemmas.Codec
open GoDebian GoDebian.Deb822 GoDebian.Codec GoDebian.Spec.Codec

/-! ### the decoder, one flat field at a time -/

theorem flatField_spec {f : FieldDesc} (hf : flatField f = true) :
    f.anonymous = false ∧ f.key ≠ [45] ∧ flatKind f.kind = true := by
  simp only [flatField, Bool.and_eq_true, Bool.not_eq_eq_eq_not, Bool.not_true, bne_iff_ne, ne_eq,
    Bool.or_eq_true] at hf
  exact ⟨hf.1.1.1, hf.1.1.2, hf.1.2⟩

theorem decodeFields_cons_flat (fuel : Nat) (p : Paragraph) (f : FieldDesc) (fs : Schema)
    (olds : List Val) (hf : flatField f = true) :
    decodeFields (fuel+1) p (f :: fs) olds =
      match lookup f.key p.values with
      | some value =>
        (match decodeValue 16 f.kind f.delim f.strip (olds.headD .zero) value with
         | .error e => .error e
         | .ok v => (decodeFields fuel p fs olds.tail).map (v :: ·))
      | none =>
        if f.required then .error .err
        else (decodeFields fuel p fs olds.tail).map (olds.headD .zero :: ·) := by
  obtain ⟨ha, hk45, hkind⟩ := flatField_spec hf
  rw [decodeFields]
  cases hk : f.kind <;> rw [hk] at hkind <;> simp [flatKind, scalarKind] at hkind <;>
    simp only [ha, hk45, if_false, Bool.false_eq_true] <;> rfl

/-- what the paragraph holds for one field of the record -/
def FieldOK (p : Paragraph) (f : FieldDesc) (v : Val) : Prop :=
  ∃ v', canon f.kind v = canon f.kind v' ∧
    match lookup f.key p.values with
    | some value => decodeValue 16 f.kind f.delim f.strip .zero value = .ok v'
    | none => f.required = false ∧ v' = .zero

theorem decode_all (p : Paragraph) : ∀ (s : Schema) (r : List Val) (fuel : Nat),
    (∀ f ∈ s, flatField f = true) → s.length = r.length → s.length < fuel →
    (∀ fv ∈ s.zip r, FieldOK p fv.1 fv.2) →
    ∃ r', decodeFields fuel p s [] = .ok r' ∧ SameRec s r r' := by
  intro s
  induction s with
  | nil =>
    intro r fuel _ hlen hfuel _
    cases r with
    | cons => simp at hlen
    | nil =>
      cases fuel with
      | zero => simp at hfuel
      | succ n => exact ⟨[], by rw [decodeFields]; simp, trivial⟩
  | cons f s ih =>
    intro r fuel hflat hlen hfuel hok
    cases r with
    | nil => simp at hlen
    | cons v r =>
      cases fuel with
      | zero => simp at hfuel
      | succ n =>
        obtain ⟨r', hr', hsame⟩ := ih r n (fun g hg => hflat g (List.mem_cons_of_mem _ hg))
          (by simpa using hlen) (by simp at hfuel; omega)
          (fun fv hfv => hok fv (by rw [List.zip_cons_cons]; exact List.mem_cons_of_mem _ hfv))
        obtain ⟨v', hc, hv'⟩ := hok (f, v) (by rw [List.zip_cons_cons]; exact List.mem_cons_self)
        rw [decodeFields_cons_flat _ _ _ _ _ (hflat f List.mem_cons_self)]
        simp only [List.headD_nil, List.tail_nil]
        cases hl : lookup f.key p.values with
        | some value =>
          rw [hl] at hv'
          simp only at hv' ⊢
          rw [hv', hr']
          exact ⟨v' :: r', rfl, hc, hsame⟩
        | none =>
          rw [hl] at hv'
          obtain ⟨hreq, rfl⟩ := hv'
          simp only [hreq, Bool.false_eq_true, if_false]
          rw [hr']
          exact ⟨.zero :: r', rfl, hc, hsame⟩

/-! ### the value stored for a known field -/

theorem lookup_convert {s : Schema} {r : List Val} {p : Paragraph}
    (h : convertToParagraph s r = .ok p) {f : FieldDesc} {v : Val} (hf : (f, v) ∈ s.zip r)
    (ha : f.anonymous = false) (hk : f.key ≠ [45]) {data : Bytes}
    (hd : marshalValue 16 f.kind f.delim v = .ok data)
    (hu : (knownKeys s).count f.key ≤ 1) :
    lookup f.key p.values =
      if (data.isEmpty && !f.required) = true then none
      else some (if f.multiline then 10 :: data else data) := by
  have hord := mem_order_convert h hf ha hk hd hu
  obtain ⟨es, hes, rfl⟩ := convert_spec h
  have hall := mapRes_ok hes
  obtain ⟨x, hx, hem⟩ := all₂_mem_left hall hf
  rw [emit_of_marshal (fv := (f, v)) ha hk hd] at hem
  rw [lookup_update]
  by_cases hc : (data.isEmpty && !f.required) = true
  · rw [if_pos hc] at hem ⊢
    cases hem
    have hc' : data = [] ∧ f.required = false := by simpa using hc
    have hnot : f.key ∉ ((baseOf (lastFound Deb822.empty es) (omits es)).update
        ⟨(writes es).map Prod.fst, insertAll (writes es) []⟩).order := by
      rw [hord]
      rintro (h1 | h1)
      · rw [hc'.2] at h1; cases h1
      · exact h1 hc'.1
    rw [mem_order_update] at hnot
    simp only [not_or] at hnot
    rw [if_neg hnot.2, if_neg hnot.1]
  · rw [if_neg hc] at hem ⊢
    cases hem
    have hmem : (f.key, if f.multiline then 10 :: data else data) ∈ writes es := mem_writes.mpr hx
    have hin : f.key ∈ (writes es).map Prod.fst := List.mem_map.mpr ⟨_, hmem, rfl⟩
    rw [if_pos hin, get_mk, lookup_insertAll_some hmem]
    · rfl
    · intro d'' hd''
      obtain ⟨⟨g, w⟩, hg, hgem⟩ := all₂_mem_right hall (mem_writes.mp hd'')
      obtain ⟨hga, _, hgk, _⟩ := emit_write hgem
      have := zip_unique_key hu hf hg ha hga hk rfl hgk.symm
      cases this
      rw [emit_of_marshal (fv := (f, v)) ha hk hd, if_neg hc] at hgem
      cases hgem
      rfl

/-! ### the round trip at the paragraph level -/

theorem flatSchema_spec {s : Schema} (hs : flatSchema s = true) :
    (∀ f ∈ s, flatField f = true) ∧ (s.map FieldDesc.key).Nodup ∧ s.length < 100000 := by
  simp only [flatSchema, Bool.and_eq_true, List.all_eq_true, decide_eq_true_eq] at hs
  exact ⟨hs.1.1, Lemmas.Deb822Write.nodup_of_nodupNames hs.1.2, hs.2⟩

theorem wfRec_spec : ∀ {s : Schema} {r : List Val}, wfRec s r →
    s.length = r.length ∧ ∀ fv ∈ s.zip r, wfVal fv.1 fv.2
  | [], [], _ => ⟨rfl, by simp⟩
  | [], _ :: _, h => by simp [wfRec] at h
  | _ :: _, [], h => by simp [wfRec] at h
  | f :: s, v :: r, h => by
    simp only [wfRec] at h
    obtain ⟨h1, h2⟩ := wfRec_spec h.2
    refine ⟨by simp [h1], fun fv hfv => ?_⟩
    rw [List.zip_cons_cons] at hfv
    rcases List.mem_cons.mp hfv with rfl | hfv
    · exact h.1
    · exact h2 fv hfv

theorem marshal_ok_of_convert {s : Schema} {r : List Val} {p : Paragraph}
    (h : convertToParagraph s r = .ok p) {f : FieldDesc} {v : Val} (hf : (f, v) ∈ s.zip r)
    (ha : f.anonymous = false) (hk : f.key ≠ [45]) :
    ∃ data, marshalValue 16 f.kind f.delim v = .ok data := by
  obtain ⟨es, hes, _⟩ := convert_spec h
  obtain ⟨x, _, hem⟩ := all₂_mem_left (mapRes_ok hes) hf
  rcases emit_inv hem with ⟨h0, _⟩ | ⟨_, h0, _⟩ | ⟨_, _, data, hm, _⟩
  · rw [ha] at h0; cases h0
  · exact absurd h0 hk
  · exact ⟨data, hm⟩

theorem fieldOK_of_convert {s : Schema} {r : List Val} {p : Paragraph}
    (hs : flatSchema s = true) (hr : wfRec s r) (h : convertToParagraph s r = .ok p) :
    ∀ fv ∈ s.zip r, FieldOK p fv.1 fv.2 := by
  obtain ⟨hflat, hnd, _⟩ := flatSchema_spec hs
  obtain ⟨_, hwf⟩ := wfRec_spec hr
  rintro ⟨f, v⟩ hfv
  have hff := hflat f (mem_zip_left hfv)
  obtain ⟨ha, hk, _⟩ := flatField_spec hff
  obtain ⟨data, hm⟩ := marshal_ok_of_convert h hfv ha hk
  have hl := lookup_convert h hfv ha hk hm (Nat.le_trans (count_knownKeys_le s _) (List.nodup_iff_count.mp hnd _))
  obtain ⟨h1, h2⟩ := field_roundtrip hff (hwf _ hfv) hm
  unfold FieldOK
  by_cases hc : (data.isEmpty && !f.required) = true
  · rw [if_pos hc] at hl
    have hc' : data = [] ∧ f.required = false := by simpa using hc
    refine ⟨.zero, h2 hc'.1 hc'.2, ?_⟩
    simp only [hl]
    exact ⟨hc'.2, trivial⟩
  · rw [if_neg hc] at hl
    obtain ⟨v', hv', hcv⟩ := h1 (by simpa using hc)
    refine ⟨v', hcv.symm, ?_⟩
    simp only [hl]
    exact hv'

theorem roundtrip_paragraph {s : Schema} {r : List Val} {p : Paragraph}
    (hs : flatSchema s = true) (hr : wfRec s r) (h : convertToParagraph s r = .ok p) :
    ∃ r', decodeStruct p s [] = .ok r' ∧ SameRec s r r' := by
  obtain ⟨hflat, _, hlen⟩ := flatSchema_spec hs
  exact decode_all p s r 100000 hflat (wfRec_spec hr).1 hlen (fieldOK_of_convert hs hr h)

end GoDebian.Lemmas.Codec
