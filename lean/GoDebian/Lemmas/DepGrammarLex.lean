/-
  Lexical lemmas for the dependency-field parser: white space, `takeUntil`, tokens, and
  the fact that `parseArch` never fails.  Core Lean only.
-/
import GoDebian.Model.Dependency
import GoDebian.Spec.Dependency

namespace GoDebian.Lemmas.DepGrammarLex
open GoDebian GoDebian.Dep GoDebian.Spec.Dependency

/-! ### white space -/

/-- every byte is one of the four white-space bytes of the parser -/
def IsWs (w : Bytes) : Prop := ∀ c ∈ w, isWs c = true

theorem isWs_nil : IsWs [] := by intro c h; cases h

theorem isWs_cons {c : Nat} {w : Bytes} : IsWs (c :: w) ↔ isWs c = true ∧ IsWs w := by
  simp [IsWs]

theorem isWs_append {a b : Bytes} (ha : IsWs a) (hb : IsWs b) : IsWs (a ++ b) := by
  intro c h
  rcases List.mem_append.1 h with h | h
  · exact ha c h
  · exact hb c h

theorem isWs_iff (c : Nat) : isWs c = true ↔ (c = 13 ∨ c = 10 ∨ c = 32 ∨ c = 9) := by
  simp [isWs, or_assoc]

theorem eatWs_nil : eatWs [] = [] := rfl

theorem eatWs_cons_ws {c : Nat} {l : Bytes} (h : isWs c = true) : eatWs (c :: l) = eatWs l := by
  simp [eatWs, List.dropWhile, h]

theorem eatWs_cons_not {c : Nat} {l : Bytes} (h : isWs c = false) : eatWs (c :: l) = c :: l := by
  simp [eatWs, List.dropWhile, h]

theorem eatWs_append {w : Bytes} (hw : IsWs w) (r : Bytes) : eatWs (w ++ r) = eatWs r := by
  induction w with
  | nil => rfl
  | cons c w ih =>
    rw [isWs_cons] at hw
    rw [List.cons_append, eatWs_cons_ws hw.1, ih hw.2]

/-- the cursor is at the end or at a byte that is not white space -/
theorem eatWs_of_peek {r : Bytes} (h : isWs (peek r) = false) : eatWs r = r := by
  cases r with
  | nil => rfl
  | cons c r => exact eatWs_cons_not h

theorem eatWs_append_peek {w : Bytes} (hw : IsWs w) {r : Bytes} (h : isWs (peek r) = false) :
    eatWs (w ++ r) = r := by
  rw [eatWs_append hw, eatWs_of_peek h]

theorem peek_cons (c : Nat) (l : Bytes) : peek (c :: l) = c := rfl
theorem peek_nil : peek [] = 0 := rfl

theorem peek_append_of_ne {a : Bytes} (h : a ≠ []) (b : Bytes) : peek (a ++ b) = peek a := by
  cases a with
  | nil => exact absurd rfl h
  | cons c a => rfl

theorem next_cons (c : Nat) (l : Bytes) : next (c :: l) = (c, l) := rfl

theorem isWs_peek_of_isWs {w : Bytes} (hw : IsWs w) (h : w ≠ []) : isWs (peek w) = true := by
  cases w with
  | nil => exact absurd rfl h
  | cons c w => exact (isWs_cons.1 hw).1

/-! ### `takeUntil` -/

theorem span_loop {α} (p : α → Bool) (l acc : List α) :
    List.span.loop p l acc = (acc.reverse ++ l.takeWhile p, l.dropWhile p) := by
  induction l generalizing acc with
  | nil => simp [List.span.loop]
  | cons a l ih =>
    cases h : p a <;> simp [List.span.loop, h, ih, List.takeWhile, List.dropWhile]

theorem takeUntil_eq (stop : Nat → Bool) (l : Bytes) :
    takeUntil stop l = (l.takeWhile (fun c => !stop c), l.dropWhile (fun c => !stop c)) := by
  simp [takeUntil, List.span, span_loop]

theorem takeUntil_nil (stop : Nat → Bool) : takeUntil stop [] = ([], []) := rfl

theorem takeUntil_cons_stop {stop : Nat → Bool} {c : Nat} (h : stop c = true) (r : Bytes) :
    takeUntil stop (c :: r) = ([], c :: r) := by
  simp [takeUntil_eq, List.takeWhile, List.dropWhile, h]

theorem takeUntil_cons_go {stop : Nat → Bool} {c : Nat} (h : stop c = false) (r : Bytes) :
    takeUntil stop (c :: r) = (c :: (takeUntil stop r).1, (takeUntil stop r).2) := by
  simp [takeUntil_eq, List.takeWhile, List.dropWhile, h]

theorem takeUntil_append {stop : Nat → Bool} {t : Bytes} (ht : ∀ c ∈ t, stop c = false)
    (r : Bytes) (hr : r = [] ∨ stop (peek r) = true) : takeUntil stop (t ++ r) = (t, r) := by
  induction t with
  | nil =>
    cases r with
    | nil => rfl
    | cons c r =>
      rcases hr with hr | hr
      · cases hr
      · exact takeUntil_cons_stop hr r
  | cons c t ih =>
    have h1 := ht c (List.mem_cons_self ..)
    have h2 := ih (fun x hx => ht x (List.mem_cons_of_mem _ hx))
    rw [List.cons_append, takeUntil_cons_go h1, h2]

/-- `takeUntil` on an arbitrary tail: the prefix contains no stop byte and what is left
    is empty or starts with one -/
theorem takeUntil_spec (stop : Nat → Bool) (l : Bytes) :
    l = (takeUntil stop l).1 ++ (takeUntil stop l).2 ∧
    (∀ c ∈ (takeUntil stop l).1, stop c = false) ∧
    ((takeUntil stop l).2 = [] ∨ stop (peek (takeUntil stop l).2) = true) := by
  induction l with
  | nil => simp [takeUntil_nil]
  | cons c l ih =>
    cases hc : stop c
    · rw [takeUntil_cons_go hc]
      refine ⟨by simpa using ih.1, ?_, ih.2.2⟩
      intro x hx
      rcases List.mem_cons.1 hx with rfl | hx
      · exact hc
      · exact ih.2.1 x hx
    · rw [takeUntil_cons_stop hc]
      simp [peek, hc]

/-! ### tokens -/

theorem token_iff {extra : List Nat} {b : Bytes} :
    token extra b = true ↔ b ≠ [] ∧ ∀ c ∈ b, 33 ≤ c ∧ c ≤ 126 ∧ c ∉ extra := by
  simp [token, and_assoc]

theorem token_ne_nil {extra : List Nat} {b : Bytes} (h : token extra b = true) : b ≠ [] :=
  (token_iff.1 h).1

/-- a byte of a `reserved`-token: printable and none of the reserved bytes -/
theorem token_reserved_mem {b : Bytes} (h : token reserved b = true) {c : Nat} (hc : c ∈ b) :
    33 ≤ c ∧ c ≤ 126 ∧ c ≠ 40 ∧ c ≠ 41 ∧ c ≠ 44 ∧ c ≠ 124 ∧ c ≠ 58 ∧ c ≠ 91 ∧ c ≠ 93 ∧ c ≠ 60 ∧
      c ≠ 62 ∧ c ≠ 33 ∧ c ≠ 36 ∧ c ≠ 123 ∧ c ≠ 125 ∧ c ≠ 61 := by
  have := (token_iff.1 h).2 c hc
  simpa [reserved, and_assoc] using this

theorem token_mem_range {extra : List Nat} {b : Bytes} (h : token extra b = true) {c : Nat}
    (hc : c ∈ b) : 33 ≤ c ∧ c ≤ 126 := by
  have := (token_iff.1 h).2 c hc
  exact ⟨this.1, this.2.1⟩

theorem not_isWs_of_range {c : Nat} (h : 33 ≤ c) : isWs c = false := by
  cases hc : isWs c
  · rfl
  · rw [isWs_iff] at hc; omega

/-- `token_avoids`: no byte of a `reserved`-token is a stop byte of any of the parser's
    accumulation loops, nor white space -/
theorem token_avoids {b : Bytes} (h : token reserved b = true) {c : Nat} (hc : c ∈ b) :
    isWs c = false ∧ nameStop c = false ∧ multiarchStop c = false ∧
    (c = 0 || c = 33 || c = 93 || isWs c) = false ∧
    (c = 0 || c = 33 || c = 62 || isWs c) = false ∧
    (c = 0 || c = 125) = false ∧ (c = 0 || c = 41) = false := by
  have h1 := token_reserved_mem h hc
  have hw := not_isWs_of_range h1.1
  refine ⟨hw, ?_, ?_, ?_, ?_, ?_, ?_⟩
  · simp [nameStop]; omega
  · simp [multiarchStop]; omega
  · simp [hw]; omega
  · simp [hw]; omega
  · simp; omega
  · simp; omega

theorem peek_token_append {extra : List Nat} {b : Bytes} (h : token extra b = true) (r : Bytes) :
    peek (b ++ r) ∈ b := by
  cases b with
  | nil => simp [token] at h
  | cons c b => simp [peek]

theorem peek_token_range {extra : List Nat} {b : Bytes} (h : token extra b = true) (r : Bytes) :
    33 ≤ peek (b ++ r) ∧ peek (b ++ r) ≤ 126 :=
  token_mem_range h (peek_token_append h r)

/-! ### `parseArch` never fails -/

theorem splitNAux_three_length (sep : Bytes) (fuel : Nat) (s : Bytes) :
    (Str.splitNAux sep fuel 3 s).length = 1 ∨ (Str.splitNAux sep fuel 3 s).length = 2 ∨
      (Str.splitNAux sep fuel 3 s).length = 3 := by
  cases fuel with
  | zero => simp [Str.splitNAux]
  | succ fuel =>
    simp only [Str.splitNAux]
    cases h1 : Str.cut sep s with
    | none => simp
    | some ab =>
      obtain ⟨a, b⟩ := ab
      cases fuel with
      | zero => simp [Str.splitNAux]
      | succ fuel =>
        simp only [Str.splitNAux]
        cases h2 : Str.cut sep b with
        | none => simp
        | some ab2 =>
          obtain ⟨a2, b2⟩ := ab2
          cases fuel <;> simp [Str.splitNAux]

theorem parseArch_ok (s : Bytes) : ∃ a, parseArch s = .ok a := by
  unfold parseArch
  have h := splitNAux_three_length [45] (s.length + 1) s
  unfold Str.splitN
  generalize Str.splitNAux [45] (s.length + 1) 3 s = l at h
  match l, h with
  | [f], _ => by_cases hf : f = sAll ∨ f = sAny <;> simp [hf]
  | [o, c], _ => exact ⟨_, rfl⟩
  | [a, o, c], _ => exact ⟨_, rfl⟩
  | [], h => simp at h
  | _ :: _ :: _ :: _ :: _, h => simp at h

theorem parseArch_denote (s : Bytes) : parseArch s = .ok (denoteArch s) := by
  obtain ⟨a, h⟩ := parseArch_ok s
  simp [denoteArch, h]

end GoDebian.Lemmas.DepGrammarLex
