/-
  Lemmas for C05_arch: `Str.cut` / `Str.splitN` on '-' and the architecture
  parse → render → parse round trip.  Core Lean only.
-/
import GoDebian.Model.Dependency

namespace GoDebian.Lemmas.Arch
open GoDebian GoDebian.Dep

/-! ### `Str.indexOf [45]` and `Str.cut [45]` by recursion on the string -/

theorem indexOf_dash_nil : Str.indexOf [45] [] = none := by
  simp [Str.indexOf]

theorem indexOf_dash_cons (c : Nat) (r : Bytes) :
    Str.indexOf [45] (c :: r) =
      if c = 45 then some 0 else (Str.indexOf [45] r).map (· + 1) := by
  by_cases h : c = 45
  · subst h; simp [Str.indexOf, Str.isPrefix]
  · have h' : ¬ (45 = c) := fun e => h e.symm
    simp [Str.indexOf, Str.isPrefix, h, h']

theorem cut_dash_nil : Str.cut [45] [] = none := by
  simp [Str.cut, indexOf_dash_nil]

theorem cut_dash_cons (c : Nat) (r : Bytes) :
    Str.cut [45] (c :: r) =
      if c = 45 then some ([], r) else (Str.cut [45] r).map (fun p => (c :: p.1, p.2)) := by
  unfold Str.cut
  rw [indexOf_dash_cons]
  by_cases h : c = 45
  · simp [h]
  · simp only [h, if_false]
    cases Str.indexOf [45] r <;> simp

/-- no '-' : nothing to cut -/
theorem cut_dash_none (s : Bytes) (h : 45 ∉ s) : Str.cut [45] s = none := by
  induction s with
  | nil => exact cut_dash_nil
  | cons c r ih =>
    have hc : c ≠ 45 := fun e => h (by simp [e])
    have hr : 45 ∉ r := fun e => h (List.mem_cons_of_mem _ e)
    rw [cut_dash_cons, if_neg hc, ih hr]; rfl

/-- the first '-' is the one after a '-'-free prefix -/
theorem cut_dash_append (x y : Bytes) (h : 45 ∉ x) :
    Str.cut [45] (x ++ 45 :: y) = some (x, y) := by
  induction x with
  | nil => simp [cut_dash_cons]
  | cons c r ih =>
    have hc : c ≠ 45 := fun e => h (by simp [e])
    have hr : 45 ∉ r := fun e => h (List.mem_cons_of_mem _ e)
    rw [List.cons_append, cut_dash_cons, if_neg hc, ih hr]; rfl

/-- the part before the cut has no '-' and the pieces reassemble the string -/
theorem cut_dash_some (s x y : Bytes) (h : Str.cut [45] s = some (x, y)) :
    45 ∉ x ∧ s = x ++ 45 :: y := by
  induction s generalizing x with
  | nil => rw [cut_dash_nil] at h; cases h
  | cons c r ih =>
    rw [cut_dash_cons] at h
    by_cases hc : c = 45
    · rw [if_pos hc] at h
      cases h
      simp [hc]
    · rw [if_neg hc] at h
      cases hr : Str.cut [45] r with
      | none => rw [hr] at h; cases h
      | some p =>
        obtain ⟨x', y'⟩ := p
        rw [hr] at h
        simp only [Option.map_some, Option.some.injEq, Prod.mk.injEq] at h
        obtain ⟨rfl, rfl⟩ := h
        obtain ⟨h1, h2⟩ := ih x' hr
        refine ⟨?_, by rw [h2]; rfl⟩
        intro hm
        rcases List.mem_cons.mp hm with e | e
        · exact hc e.symm
        · exact h1 e

/-! ### `Str.splitN [45] 3` -/

theorem splitN3 (s : Bytes) :
    Str.splitN [45] 3 s =
      match Str.cut [45] s with
      | none => [s]
      | some (a, b) =>
        match Str.cut [45] b with
        | none => [a, b]
        | some (a', b') => [a, a', b'] := by
  cases s with
  | nil => simp [Str.splitN, Str.splitNAux, cut_dash_nil]
  | cons c r =>
    simp only [Str.splitN, List.length_cons, Str.splitNAux]
    cases Str.cut [45] (c :: r) with
    | none => simp
    | some p =>
      obtain ⟨a, b⟩ := p
      simp only [Nat.succ_ne_zero, if_false]
      cases Str.cut [45] b with
      | none => simp
      | some q =>
        obtain ⟨a', b'⟩ := q
        cases r.length <;> simp [Str.splitNAux]

theorem splitN3_one (x : Bytes) (hx : 45 ∉ x) : Str.splitN [45] 3 x = [x] := by
  rw [splitN3, cut_dash_none x hx]

theorem splitN3_two (x y : Bytes) (hx : 45 ∉ x) (hy : 45 ∉ y) :
    Str.splitN [45] 3 (x ++ 45 :: y) = [x, y] := by
  rw [splitN3, cut_dash_append x y hx]
  simp only [cut_dash_none y hy]

theorem splitN3_three (x y z : Bytes) (hx : 45 ∉ x) (hy : 45 ∉ y) :
    Str.splitN [45] 3 (x ++ 45 :: (y ++ 45 :: z)) = [x, y, z] := by
  rw [splitN3, cut_dash_append x _ hx]
  simp only [cut_dash_append y z hy]

/-- every part but the last is '-'-free -/
theorem splitN3_parts (s : Bytes) :
    (∃ f, Str.splitN [45] 3 s = [f] ∧ f = s) ∨
    (∃ o c, Str.splitN [45] 3 s = [o, c] ∧ 45 ∉ o) ∨
    (∃ a o c, Str.splitN [45] 3 s = [a, o, c] ∧ 45 ∉ a ∧ 45 ∉ o) := by
  cases h1 : Str.cut [45] s with
  | none => exact Or.inl ⟨s, by rw [splitN3, h1], rfl⟩
  | some p =>
    obtain ⟨a, b⟩ := p
    have ha := (cut_dash_some s a b h1).1
    cases h2 : Str.cut [45] b with
    | none => exact Or.inr (Or.inl ⟨a, b, by rw [splitN3, h1]; simp only [h2], ha⟩)
    | some q =>
      obtain ⟨a', b'⟩ := q
      have ha' := (cut_dash_some b a' b' h2).1
      exact Or.inr (Or.inr ⟨a, a', b', by rw [splitN3, h1]; simp only [h2], ha, ha'⟩)

/-! ### The round trip -/

/-- What `parseArch` guarantees about its result: the abi and os components are
    '-'-free (the cpu component may contain '-'). -/
def ArchInv (a : Arch) : Prop := 45 ∉ a.abi ∧ 45 ∉ a.os

theorem dash_not_mem_any : 45 ∉ sAny := by decide
theorem dash_not_mem_all : 45 ∉ sAll := by decide
theorem dash_not_mem_gnu : 45 ∉ sGnu := by decide
theorem dash_not_mem_linux : 45 ∉ sLinux := by decide

theorem parseArch_inv (n : Bytes) (a : Arch) (h : parseArch n = .ok a) : ArchInv a := by
  unfold parseArch at h
  rcases splitN3_parts n with ⟨f, e, -⟩ | ⟨o, c, e, ho⟩ | ⟨x, o, c, e, hx, ho⟩
  · rw [e] at h
    simp only at h
    split at h
    · rename_i hf
      cases h
      rcases hf with rfl | rfl
      · exact ⟨dash_not_mem_all, dash_not_mem_all⟩
      · exact ⟨dash_not_mem_any, dash_not_mem_any⟩
    · cases h
      exact ⟨dash_not_mem_gnu, dash_not_mem_linux⟩
  · rw [e] at h
    cases h
    exact ⟨dash_not_mem_any, ho⟩
  · rw [e] at h
    cases h
    exact ⟨hx, ho⟩

theorem parseArch_render (a : Arch) (h : ArchInv a) : parseArch a.render = .ok a := by
  obtain ⟨abi, os, cpu⟩ := a
  obtain ⟨habi, hos⟩ := h
  simp only at habi hos
  simp only [Arch.render, List.contains_eq_mem, decide_eq_true_eq, dash]
  split
  · -- "any" / "all"
    rename_i hc
    obtain ⟨hw, rfl, rfl⟩ := hc
    rcases hw with rfl | rfl
    · simp [parseArch, splitN3_one sAny dash_not_mem_any]
    · simp [parseArch, splitN3_one sAll dash_not_mem_all]
  · split
    · -- the bare cpu name
      rename_i hw hc
      obtain ⟨hw', -, hd, rfl, rfl⟩ := hc
      have hw'' : ¬ (cpu = sAll ∨ cpu = sAny) := fun e => hw' (Or.symm e)
      simp only [parseArch, splitN3_one cpu hd, if_neg hw'']
    · split
      · -- os-cpu
        rename_i hc
        obtain ⟨hd, rfl⟩ := hc
        simp only [parseArch, List.append_assoc, List.singleton_append, splitN3_two os cpu hos hd]
      · -- abi-os-cpu
        simp only [parseArch, List.append_assoc, List.cons_append, List.nil_append,
          splitN3_three abi os cpu habi hos]

theorem parseArch_roundtrip (n : Bytes) (a : Arch) (h : parseArch n = .ok a) :
    parseArch a.render = .ok a :=
  parseArch_render a (parseArch_inv n a h)

end GoDebian.Lemmas.Arch
