/-
  Whole-version lemmas: `Version.compare` against `Spec.Version.compare`, the
  total-preorder laws of the model transported from the specification, and sorting.
  Core Lean only.
-/
import GoDebian.Lemmas.VersionModel

namespace GoDebian.Lemmas.Version
open GoDebian
open GoDebian.Spec.Version (isDigit natVal cmpN cmp ordInt)
open GoDebian.Version (Version verrevcmp sgn)

/-- both components free of NUL bytes -/
def NulFree (v : Version) : Prop := 0 ∉ v.upstream ∧ 0 ∉ v.revision

theorem compare_spec (x y : Version) (hx : NulFree x) (hy : NulFree y) :
    sgn (GoDebian.Version.compare x y) = ordInt (Spec.Version.compare x y) := by
  have h1 := verrevcmp_spec x.upstream y.upstream hx.1 hy.1
  have h2 := verrevcmp_spec x.revision y.revision hx.2 hy.2
  rw [specCompare_eq]
  unfold GoDebian.Version.compare
  rcases Nat.lt_trichotomy x.epoch y.epoch with h | h | h
  · have hng : ¬ x.epoch > y.epoch := by omega
    rw [if_neg hng, if_pos h, Nat.compare_eq_lt.mpr h]; rfl
  · have hng : ¬ x.epoch > y.epoch := by omega
    have hnl : ¬ x.epoch < y.epoch := by omega
    rw [if_neg hng, if_neg hnl, Nat.compare_eq_eq.mpr h]
    show sgn (if verrevcmp x.upstream y.upstream ≠ 0 then verrevcmp x.upstream y.upstream
      else verrevcmp x.revision y.revision) =
      ordInt ((cmp x.upstream y.upstream).then (cmp x.revision y.revision))
    cases hc : cmp x.upstream y.upstream <;> rw [hc] at h1
    · have : verrevcmp x.upstream y.upstream < 0 := (sgn_neg_iff _).mp h1
      have hne : verrevcmp x.upstream y.upstream ≠ 0 := by omega
      rw [if_pos hne, h1]; rfl
    · have : verrevcmp x.upstream y.upstream = 0 := (sgn_zero_iff _).mp h1
      rw [this, if_neg (by simp), h2]; rfl
    · have : 0 < verrevcmp x.upstream y.upstream := (sgn_pos_iff _).mp h1
      have hne : verrevcmp x.upstream y.upstream ≠ 0 := by omega
      rw [if_pos hne, h1]; rfl
  · rw [if_pos h, Nat.compare_eq_gt.mpr h]; rfl

/-- reflexivity needs no side condition -/
theorem compare_self (a : Version) : GoDebian.Version.compare a a = 0 := by
  unfold GoDebian.Version.compare
  simp [verrevcmp_self]

/-- a missing revision compares equal to revision "0" -/
theorem compare_missing_revision (e : Nat) (u : Bytes) :
    GoDebian.Version.compare ⟨e, u, []⟩ ⟨e, u, [48]⟩ = 0 := by
  have h : verrevcmp [] [48] = 0 := by decide
  unfold GoDebian.Version.compare
  simp [verrevcmp_self, h]

theorem compare_le_iff (x y : Version) (hx : NulFree x) (hy : NulFree y) :
    GoDebian.Version.compare x y ≤ 0 ↔ Spec.Version.compare x y ≠ .gt := by
  rw [← sgn_le_zero_iff, compare_spec x y hx hy, ordInt_le_zero_iff]

theorem compare_lt_iff (x y : Version) (hx : NulFree x) (hy : NulFree y) :
    GoDebian.Version.compare x y < 0 ↔ Spec.Version.compare x y = .lt := by
  rw [← sgn_neg_iff, ← ordInt_neg_iff, compare_spec x y hx hy]
  cases Spec.Version.compare x y <;> simp [ordInt]

theorem compare_eq_iff (x y : Version) (hx : NulFree x) (hy : NulFree y) :
    GoDebian.Version.compare x y = 0 ↔ Spec.Version.compare x y = .eq := by
  rw [← sgn_zero_iff, compare_spec x y hx hy, ordInt_eq_zero_iff]

theorem compare_swap (a b : Version) (ha : NulFree a) (hb : NulFree b) :
    sgn (GoDebian.Version.compare b a) = - sgn (GoDebian.Version.compare a b) := by
  rw [compare_spec b a hb ha, compare_spec a b ha hb, specCompare_laws.swap a b, ordInt_swap]

theorem compare_trans (a b c : Version) (ha : NulFree a) (hb : NulFree b) (hc : NulFree c)
    (hab : GoDebian.Version.compare a b ≤ 0) (hbc : GoDebian.Version.compare b c ≤ 0) :
    GoDebian.Version.compare a c ≤ 0 := by
  rw [compare_le_iff _ _ ‹_› ‹_›] at *
  exact specCompare_laws.le_trans a b c hab hbc

theorem compare_lt_trans (a b c : Version) (ha : NulFree a) (hb : NulFree b) (hc : NulFree c)
    (hab : GoDebian.Version.compare a b < 0) (hbc : GoDebian.Version.compare b c < 0) :
    GoDebian.Version.compare a c < 0 := by
  rw [compare_lt_iff _ _ ‹_› ‹_›] at *
  exact specCompare_laws.lt_trans a b c hab hbc

theorem compare_congr (a b c : Version) (ha : NulFree a) (hb : NulFree b) (hc : NulFree c)
    (hab : GoDebian.Version.compare a b = 0) :
    sgn (GoDebian.Version.compare a c) = sgn (GoDebian.Version.compare b c) := by
  rw [compare_eq_iff _ _ ha hb] at hab
  rw [compare_spec a c ha hc, compare_spec b c hb hc, specCompare_laws.congr a b c hab]

theorem compare_total (a b : Version) (ha : NulFree a) (hb : NulFree b) :
    GoDebian.Version.compare a b ≤ 0 ∨ GoDebian.Version.compare b a ≤ 0 := by
  have h := compare_swap a b ha hb
  by_cases h1 : GoDebian.Version.compare a b ≤ 0
  · exact .inl h1
  · right
    have hpos : sgn (GoDebian.Version.compare a b) = 1 := sgn_of_pos (by omega)
    rw [hpos] at h
    have := (sgn_neg_iff _).mp h
    omega

/-- incomparability (neither `Less a b` nor `Less b a`) is `compare = 0` up to sign -/
theorem incomparable_iff (a b : Version) (ha : NulFree a) (hb : NulFree b) :
    (¬ GoDebian.Version.compare a b < 0 ∧ ¬ GoDebian.Version.compare b a < 0) ↔
      Spec.Version.compare a b = .eq := by
  rw [compare_lt_iff a b ha hb, compare_lt_iff b a hb ha, specCompare_laws.swap a b]
  cases Spec.Version.compare a b <;> simp [Ordering.swap]

theorem incomparable_trans (a b c : Version) (ha : NulFree a) (hb : NulFree b) (hc : NulFree c)
    (hab : ¬ GoDebian.Version.compare a b < 0 ∧ ¬ GoDebian.Version.compare b a < 0)
    (hbc : ¬ GoDebian.Version.compare b c < 0 ∧ ¬ GoDebian.Version.compare c b < 0) :
    ¬ GoDebian.Version.compare a c < 0 ∧ ¬ GoDebian.Version.compare c a < 0 := by
  rw [incomparable_iff _ _ ‹_› ‹_›] at *
  rw [specCompare_laws.congr a b c hab]; exact hbc

/-! ### sorting -/

/-- the boolean "not greater" relation used for sorting -/
def leB (x y : Version) : Bool := decide (GoDebian.Version.compare x y ≤ 0)

theorem sort_sorted (l : List Version) (h : ∀ v ∈ l, NulFree v) :
    (l.mergeSort leB).Pairwise (fun x y => GoDebian.Version.compare x y ≤ 0) := by
  let T := { v : Version // NulFree v }
  let leT : T → T → Bool := fun x y => leB x.1 y.1
  have htrans : ∀ a b c : T, leT a b = true → leT b c = true → leT a c = true := by
    intro a b c hab hbc
    simp only [leT, leB, decide_eq_true_eq] at *
    exact compare_trans a.1 b.1 c.1 a.2 b.2 c.2 hab hbc
  have htotal : ∀ a b : T, (leT a b || leT b a) = true := by
    intro a b
    simp only [leT, leB, Bool.or_eq_true, decide_eq_true_eq]
    exact compare_total a.1 b.1 a.2 b.2
  have hsorted := List.pairwise_mergeSort htrans htotal (l.attachWith NulFree h)
  have hmap : ((l.attachWith NulFree h).mergeSort leT).map Subtype.val = l.mergeSort leB := by
    rw [List.map_mergeSort (s := leB) (fun a _ b _ => rfl), List.attachWith_map_subtype_val]
  rw [← hmap, List.pairwise_map]
  exact hsorted.imp (fun {a b} hab => by simpa [leT, leB] using hab)

/-! ### digit strings compare numerically -/

theorem P_of_allDigits {d : Bytes} (h : AllDigits d) : P d = [] ∧ Q d = d := by
  cases d with
  | nil => exact ⟨rfl, rfl⟩
  | cons c d =>
    have hc : isDigit c = true := h.head
    exact ⟨by simp [P, hc], by simp [Q, hc]⟩

theorem takeWhile_allDigits {d : Bytes} (h : AllDigits d) :
    d.takeWhile isDigit = d ∧ d.dropWhile isDigit = [] := by
  induction d with
  | nil => exact ⟨rfl, rfl⟩
  | cons c d ih =>
    have hc : isDigit c = true := h.head
    obtain ⟨h1, h2⟩ := ih h.tail
    exact ⟨by simp [hc, h1], by simp [hc, h2]⟩

theorem cmp_digits (da db : Bytes) (ha : AllDigits da) (hb : AllDigits db) :
    cmp da db = compare (natVal da) (natVal db) := by
  unfold cmp
  rw [cmpN_succ]
  obtain ⟨pa, qa⟩ := P_of_allDigits ha
  obtain ⟨pb, qb⟩ := P_of_allDigits hb
  obtain ⟨ta, ra⟩ := takeWhile_allDigits ha
  obtain ⟨tb, rb⟩ := takeWhile_allDigits hb
  simp only [pa, pb, D, R, qa, qb, ta, tb, ra, rb, lexCmp_nil, cmpN_nil, Ordering.eq_then,
    Ordering.then_eq]

theorem allDigits_of_bounds {d : Bytes} (h : ∀ c ∈ d, 48 ≤ c ∧ c ≤ 57) : AllDigits d := by
  intro c hc
  simpa [GoDebian.Version.cisdigit] using h c hc

theorem not_mem_zero_of_allDigits {d : Bytes} (h : AllDigits d) : 0 ∉ d := by
  intro hm
  have := h 0 hm
  simp [GoDebian.Version.cisdigit] at this

end GoDebian.Lemmas.Version
