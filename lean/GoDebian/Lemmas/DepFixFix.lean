/-
  The relation loop and the dependency loop on a rendering, and the fixpoint theorem:
  a dependency that satisfies the output invariant is re-parsed, from its canonical
  rendering, to the identical value.  Core Lean only.
-/
import GoDebian.Lemmas.DepFixPoss

namespace GoDebian.Lemmas.DepFix
open GoDebian GoDebian.Dep

theorem joinWith_cons_head (sep x : Bytes) (l : List Bytes) :
    ∃ Z, Str.joinWith sep (x :: l) = x ++ Z := by
  cases l with
  | nil => exact ⟨[], by simp [Str.joinWith]⟩
  | cons y l => exact ⟨sep ++ Str.joinWith sep (y :: l), by simp [Str.joinWith]⟩

/-! ### one iteration of the relation loop -/

theorem rel_step_poss {acc : Relation} {inp rest : Bytes} {p : Possibility}
    (ht : term (peek inp) = false) (hp : parsePossibility inp = .ok (some p, rest)) (f : Nat) :
    parseRelationLoop (f + 1) acc inp = parseRelationLoop f (acc ++ [p]) rest := by
  simp only [term, Bool.or_eq_false_iff, decide_eq_false_iff_not] at ht
  rw [parseRelationLoop]
  simp only [hp]
  simp [ht.1.1, ht.1.2, ht.2]

theorem rel_step_none {acc : Relation} {inp rest : Bytes}
    (ht : term (peek inp) = false) (hp : parsePossibility inp = .ok (none, rest)) (f : Nat) :
    parseRelationLoop (f + 1) acc inp = parseRelationLoop f acc rest := by
  simp only [term, Bool.or_eq_false_iff, decide_eq_false_iff_not] at ht
  rw [parseRelationLoop]
  simp only [hp]
  simp [ht.1.1, ht.1.2, ht.2]

theorem rel_step_bar (acc : Relation) (Y : Bytes) (f : Nat) :
    parseRelationLoop (f + 1) acc (124 :: Y) = parseRelationLoop f acc (eatWs Y) := by
  rw [parseRelationLoop]
  simp [peek, next]

theorem rel_step_done {acc : Relation} {inp : Bytes} (h : inp = [] ∨ ∃ m, inp = 44 :: m)
    (f : Nat) : parseRelationLoop (f + 1) acc inp = .ok (acc, inp) := by
  rw [parseRelationLoop]
  rcases h with rfl | ⟨m, rfl⟩ <;> simp [peek]

/-- a lone `|` after white space: `parsePossibility` returns nothing and leaves the `|` -/
theorem parsePossibility_bar (Y : Bytes) :
    parsePossibility (32 :: 124 :: Y) = .ok (none, 124 :: Y) := by
  unfold parsePossibility
  simp only [eatWs_cons_ws _ (show isWs 32 = true by decide),
    eatWs_of_head (show isWs 124 = false by decide), peek_cons]
  rw [parsePossibilityLoop]
  simp only [takeUntil_cons_stop _ (show nameStop 124 = true by decide), peek_cons]
  simp [emptyPossibility]

theorem rel_skip_bar (acc : Relation) {Y : Bytes} (hY : isWs (peek Y) = false) (f : Nat) :
    parseRelationLoop (f + 1) acc (124 :: 32 :: Y) = parseRelationLoop f acc Y := by
  rw [rel_step_bar, eatWs_cons_ws _ (show isWs 32 = true by decide), eatWs_of_peek hY]

theorem rel_skip_sp (acc : Relation) {Y : Bytes} (hY : isWs (peek Y) = false) (f : Nat) :
    parseRelationLoop (f + 2) acc (32 :: 124 :: 32 :: Y) = parseRelationLoop f acc Y := by
  rw [rel_step_none (by rfl) (parsePossibility_bar _), rel_skip_bar acc hY]

/-! ### the relation loop on a rendering -/

theorem relLoop_render (ps : List Possibility) (hps : ∀ p ∈ ps, PossOk p) (hne : ps ≠ [])
    (acc : Relation) (tail2 : Bytes) (ht2 : tail2 = [] ∨ ∃ m, tail2 = 44 :: m) (fuel : Nat)
    (hf : (Str.joinWith [32, 124, 32] (ps.map Possibility.render) ++ tail2).length < fuel) :
    parseRelationLoop fuel acc (Str.joinWith [32, 124, 32] (ps.map Possibility.render) ++ tail2) =
      .ok (acc ++ ps, tail2) := by
  induction ps generalizing acc fuel with
  | nil => exact absurd rfl hne
  | cons p ps ih =>
    have hp := hps p (by simp)
    cases fuel with
    | zero => omega
    | succ f =>
      cases ps with
      | nil =>
        simp only [List.map_cons, List.map_nil, joinWith_singleton] at hf ⊢
        have htail : TailOk tail2 := by
          rcases ht2 with h | h
          · exact Or.inl h
          · exact Or.inr (Or.inl h)
        have heat2 : eatWs tail2 = tail2 := by
          rcases ht2 with rfl | ⟨m, rfl⟩
          · rfl
          · exact eatWs_of_head (show isWs 44 = false by decide)
        obtain ⟨tail', hpp, htl⟩ := parsePossibility_render hp tail2 htail
        have htl' : tail' = tail2 := by
          rcases htl with h | h
          · exact h
          · rw [h, heat2]
        subst htl'
        have hhead := poss_render_head hp tail'
        rw [rel_step_poss hhead.2 hpp f]
        cases f with
        | zero =>
          have : p.render ++ tail' ≠ [] := by
            intro e; rw [e] at hhead; cases hhead.2
          have := List.length_pos_iff.mpr this
          omega
        | succ f' => exact rel_step_done ht2 f'
      | cons q ps' =>
        have hq := hps q (by simp)
        simp only [List.map_cons, joinWith_cons_cons] at hf ⊢
        -- what follows the first possibility
        have hassoc : p.render ++ [32, 124, 32] ++
            Str.joinWith [32, 124, 32] (q.render :: ps'.map Possibility.render) ++ tail2 =
            p.render ++ 32 :: 124 :: 32 ::
              (Str.joinWith [32, 124, 32] (q.render :: ps'.map Possibility.render) ++ tail2) := by
          simp
        rw [hassoc] at hf ⊢
        generalize hY : Str.joinWith [32, 124, 32] (q.render :: ps'.map Possibility.render) ++ tail2
          = Y at hf ⊢
        have hYws : isWs (peek Y) = false := by
          obtain ⟨Z, hZ⟩ := joinWith_cons_head [32, 124, 32] q.render (ps'.map Possibility.render)
          rw [← hY, hZ, List.append_assoc]
          exact (poss_render_head hq _).1
        obtain ⟨tail', hpp, htl⟩ := parsePossibility_render hp (32 :: 124 :: 32 :: Y)
          (Or.inr (Or.inr ⟨_, rfl⟩))
        have hhead := poss_render_head hp (32 :: 124 :: 32 :: Y)
        rw [rel_step_poss hhead.2 hpp f]
        have hlen : (32 :: 124 :: 32 :: Y).length ≤ f := by
          simp only [List.length_append] at hf; omega
        simp only [List.length_cons] at hlen
        have hih : ∀ f', Y.length < f' → parseRelationLoop f' (acc ++ [p]) Y =
            .ok (acc ++ p :: q :: ps', tail2) := by
          intro f' hf'
          have := ih (fun x hx => hps x (List.mem_cons_of_mem _ hx)) (by simp) (acc ++ [p]) f'
            (by rw [List.map_cons, hY]; exact hf')
          rw [List.map_cons, hY] at this
          rw [this]
          simp
        rcases htl with h | h
        · subst h
          obtain ⟨f'', rfl⟩ : ∃ f'', f = f'' + 2 := ⟨f - 2, by omega⟩
          rw [rel_skip_sp _ hYws]
          exact hih f'' (by omega)
        · have h' : tail' = 124 :: 32 :: Y := by
            rw [h, eatWs_cons_ws _ (show isWs 32 = true by decide)]
            exact eatWs_of_head (show isWs 124 = false by decide)
          subst h'
          obtain ⟨f'', rfl⟩ : ∃ f'', f = f'' + 1 := ⟨f - 1, by omega⟩
          rw [rel_skip_bar _ hYws]
          exact hih f'' (by omega)

/-- the first byte of a rendered relation -/
theorem rel_render_head {r : Relation} (hr : RelOk r) (Z : Bytes) :
    isWs (peek (renderRelation r ++ Z)) = false ∧ term (peek (renderRelation r ++ Z)) = false := by
  obtain ⟨hne, hall⟩ := hr
  cases r with
  | nil => exact absurd rfl hne
  | cons p ps =>
    obtain ⟨W, hW⟩ := joinWith_cons_head [32, 124, 32] p.render (ps.map Possibility.render)
    simp only [renderRelation, List.map_cons]
    rw [hW, List.append_assoc]
    exact poss_render_head (hall p (by simp)) _

theorem parseRelation_render {r : Relation} (hr : RelOk r) (tail2 : Bytes)
    (ht2 : tail2 = [] ∨ ∃ m, tail2 = 44 :: m) :
    parseRelation (renderRelation r ++ tail2) = .ok (r, tail2) := by
  have hhead := rel_render_head hr tail2
  unfold parseRelation
  simp only [eatWs_of_peek hhead.1]
  have := relLoop_render r hr.2 hr.1 [] tail2 ht2 _ (Nat.lt_succ_self _)
  simpa [renderRelation] using this

/-! ### the dependency loop -/

theorem dep_step_rel {acc : Dependency} {inp rest : Bytes} {rel : Relation}
    (ht : term (peek inp) = false) (hp : parseRelation inp = .ok (rel, rest)) (hne : rel ≠ [])
    (f : Nat) :
    parseDependencyLoop (f + 1) acc inp = parseDependencyLoop f (acc ++ [rel]) rest := by
  simp only [term, Bool.or_eq_false_iff, decide_eq_false_iff_not] at ht
  have hemp : rel.isEmpty = false := by
    cases rel with
    | nil => exact absurd rfl hne
    | cons x xs => rfl
  rw [parseDependencyLoop]
  simp only [hp, hemp]
  simp [ht.1.1, ht.2]

theorem dep_step_comma (acc : Dependency) (Y : Bytes) (f : Nat) :
    parseDependencyLoop (f + 1) acc (44 :: Y) = parseDependencyLoop f acc (eatWs Y) := by
  rw [parseDependencyLoop]
  simp [peek, next]

theorem dep_step_done (acc : Dependency) (f : Nat) :
    parseDependencyLoop (f + 1) acc [] = .ok acc := by
  rw [parseDependencyLoop]
  simp [peek]

theorem depLoop_render (rs : List Relation) (hrs : ∀ r ∈ rs, RelOk r) (hne : rs ≠ [])
    (acc : Dependency) (fuel : Nat)
    (hf : (Str.joinWith [44, 32] (rs.map renderRelation)).length < fuel) :
    parseDependencyLoop fuel acc (Str.joinWith [44, 32] (rs.map renderRelation)) =
      .ok (acc ++ rs) := by
  induction rs generalizing acc fuel with
  | nil => exact absurd rfl hne
  | cons r rs ih =>
    have hr := hrs r (by simp)
    cases fuel with
    | zero => omega
    | succ f =>
      cases rs with
      | nil =>
        simp only [List.map_cons, List.map_nil, joinWith_singleton] at hf ⊢
        have hhead := rel_render_head hr []
        have hpr := parseRelation_render hr [] (Or.inl rfl)
        simp only [List.append_nil] at hhead hpr
        rw [dep_step_rel hhead.2 hpr hr.1 f]
        cases f with
        | zero =>
          have : renderRelation r ≠ [] := by
            intro e; rw [e] at hhead; cases hhead.2
          have := List.length_pos_iff.mpr this
          omega
        | succ f' => exact dep_step_done _ f'
      | cons r' rs' =>
        have hr' := hrs r' (by simp)
        simp only [List.map_cons, joinWith_cons_cons] at hf ⊢
        have hassoc : renderRelation r ++ [44, 32] ++
            Str.joinWith [44, 32] (renderRelation r' :: rs'.map renderRelation) =
            renderRelation r ++ 44 :: 32 ::
              Str.joinWith [44, 32] (renderRelation r' :: rs'.map renderRelation) := by
          simp
        rw [hassoc] at hf ⊢
        generalize hY : Str.joinWith [44, 32] (renderRelation r' :: rs'.map renderRelation) = Y
          at hf ⊢
        have hYws : isWs (peek Y) = false := by
          obtain ⟨Z, hZ⟩ := joinWith_cons_head [44, 32] (renderRelation r') (rs'.map renderRelation)
          rw [← hY, hZ]
          exact (rel_render_head hr' _).1
        have hhead := rel_render_head hr (44 :: 32 :: Y)
        have hpr := parseRelation_render hr (44 :: 32 :: Y) (Or.inr ⟨_, rfl⟩)
        rw [dep_step_rel hhead.2 hpr hr.1 f]
        have hlen : (44 :: 32 :: Y).length ≤ f := by
          simp only [List.length_append] at hf; omega
        simp only [List.length_cons] at hlen
        obtain ⟨f'', rfl⟩ : ∃ f'', f = f'' + 1 := ⟨f - 1, by omega⟩
        rw [dep_step_comma, eatWs_cons_ws _ (show isWs 32 = true by decide), eatWs_of_peek hYws]
        have := ih (fun x hx => hrs x (List.mem_cons_of_mem _ hx)) (by simp) (acc ++ [r]) f''
          (by rw [List.map_cons, hY]; omega)
        rw [List.map_cons, hY] at this
        rw [this]
        simp

/-- (b): a value that satisfies the output invariant is re-parsed from its canonical
    rendering to the identical value -/
theorem parse_render {d : Dependency} (hd : OutInv d) : parse (render d) = .ok d := by
  cases d with
  | nil => rfl
  | cons r rs =>
    have hhead : isWs (peek (render (r :: rs))) = false := by
      obtain ⟨Z, hZ⟩ := joinWith_cons_head [44, 32] (renderRelation r) (rs.map renderRelation)
      simp only [render, List.map_cons]
      rw [hZ]
      exact (rel_render_head (hd r (by simp)) _).1
    unfold parse
    simp only [eatWs_of_peek hhead]
    have := depLoop_render (r :: rs) hd (by simp) [] _ (Nat.lt_succ_self _)
    simpa [render] using this

/-- C05: the fixpoint -/
theorem parse_fixpoint {s : Bytes} {d : Dependency} (h : parse s = .ok d) :
    parse (render d) = .ok d :=
  parse_render (parse_outInv h)

end GoDebian.Lemmas.DepFix
