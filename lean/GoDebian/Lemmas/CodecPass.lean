/-
  C09 lemmas, part 9: pass-through of the fields of an embedded Paragraph that the schema
  does not know.
-/
import GoDebian.Model.Codec
import GoDebian.Spec.Codec
import GoDebian.Lemmas.CodecText

namespace GoDebian.Lemmas.Codec
open GoDebian GoDebian.Deb822 GoDebian.Codec GoDebian.Spec.Codec

/-- whatever is written or omitted is written or omitted under a known key -/
theorem emitted_key_known {s : Schema} {r : List Val} {es : List Emit}
    (hall : All₂ (fun fv e => emit fv = .ok e) (s.zip r) es) :
    (∀ k d, Emit.write k d ∈ es → k ∈ knownKeys s) ∧ (∀ k, Emit.omit k ∈ es → k ∈ knownKeys s) := by
  refine ⟨fun k d h => ?_, fun k h => ?_⟩
  · obtain ⟨⟨f, v⟩, hfv, hem⟩ := all₂_mem_right hall h
    obtain ⟨ha, hk, hkey, _⟩ := emit_write hem
    rw [hkey]
    exact mem_knownKeys (mem_zip_left hfv) ha hk
  · obtain ⟨⟨f, v⟩, hfv, hem⟩ := all₂_mem_right hall h
    obtain ⟨ha, hk, hkey, _⟩ := emit_omit hem
    rw [hkey]
    exact mem_knownKeys (mem_zip_left hfv) ha hk

theorem emit_embedded {f0 : FieldDesc} (h0a : f0.anonymous = true) (h0k : f0.kind = .para)
    (p0 : Paragraph) : emit (f0, .para p0) = .ok (.found p0) := by
  unfold emit
  simp only [h0a, if_true, h0k]

theorem passthrough {f0 : FieldDesc} {s' : Schema} {p0 : Paragraph} {r' : List Val}
    {p : Paragraph} (h0a : f0.anonymous = true) (h0k : f0.kind = .para)
    (hs' : ∀ g ∈ s', g.anonymous = false) (hp0 : p0.order.Nodup)
    (hlisted : ∀ k, (lookup k p0.values).isSome = true → k ∈ p0.order)
    (h : convertToParagraph (f0 :: s') (.para p0 :: r') = .ok p) :
    (∀ k, k ∉ knownKeys (f0 :: s') → p.get k = p0.get k) ∧
    p.order.filter (fun k => !(knownKeys (f0 :: s')).contains k) =
      p0.order.filter (fun k => !(knownKeys (f0 :: s')).contains k) := by
  obtain ⟨es, hes, rfl⟩ := convert_spec h
  have hall := mapRes_ok hes
  obtain ⟨hwk, hok⟩ := emitted_key_known hall
  -- the embedded paragraph is the one found
  have hfound : lastFound Deb822.empty es = p0 := by
    rw [List.zip_cons_cons] at hall
    cases hall with
    | cons he hrest =>
      rw [emit_embedded h0a h0k] at he
      cases he
      show lastFound p0 _ = p0
      apply lastFound_none
      intro q hq
      obtain ⟨⟨g, w⟩, hg, hem⟩ := all₂_mem_right hrest hq
      have := emit_found hem
      rw [hs' g (mem_zip_left hg)] at this
      cases this
  rw [hfound]
  have hwk' : ∀ k, k ∈ (writes es).map Prod.fst → k ∈ knownKeys (f0 :: s') := by
    intro k hk
    obtain ⟨⟨k', d⟩, hkd, rfl⟩ := List.mem_map.mp hk
    exact hwk k' d (mem_writes.mp hkd)
  have hom' : ∀ k, k ∈ omits es → k ∈ knownKeys (f0 :: s') := fun k hk => hok k (mem_omits.mp hk)
  refine ⟨fun k hk => ?_, ?_⟩
  · have h1 : k ∉ (writes es).map Prod.fst := fun h => hk (hwk' k h)
    have h2 : k ∉ omits es := fun h => hk (hom' k h)
    unfold Paragraph.get
    rw [lookup_update, if_neg h1]
    by_cases h3 : k ∈ p0.order
    · have : k ∈ (baseOf p0 (omits es)).order := (mem_order_baseOf _ _ _).mpr ⟨h3, h2⟩
      rw [if_pos this]
      unfold Paragraph.get
      rw [lookup_baseOf, if_pos ⟨h3, h2⟩]
      rfl
    · have : k ∉ (baseOf p0 (omits es)).order := fun h => h3 ((mem_order_baseOf _ _ _).mp h).1
      rw [if_neg this]
      cases hl : lookup k p0.values with
      | none => rfl
      | some x => exact absurd (hlisted k (by simp [hl])) h3
  · rw [order_update, List.filter_append, order_baseOf _ _ hp0, List.filter_filter]
    have hnil : List.filter (fun k => !(knownKeys (f0 :: s')).contains k)
        (newKeys ((writes es).map Prod.fst)
          (p0.order.filter (fun k => !(omits es).contains k))) = [] := by
      rw [List.filter_eq_nil_iff]
      intro k hk
      have := hwk' k (mem_newKeys.mp hk).1
      simp [this]
    rw [hnil, List.append_nil]
    apply List.filter_congr
    intro k _
    by_cases hk : k ∈ knownKeys (f0 :: s')
    · simp [hk]
    · have : k ∉ omits es := fun h => hk (hom' k h)
      simp [hk, this]

end GoDebian.Lemmas.Codec
