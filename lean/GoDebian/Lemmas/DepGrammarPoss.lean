/-
  `parseControllers` over any sequence of clauses with at most one version and one
  architecture clause, `parsePossibilityLoop` / `parsePossibility` over the rendering of
  one alternative, and the value they compute (`denotePoss`).  Core Lean only.
-/
import GoDebian.Lemmas.DepGrammarClause

namespace GoDebian.Lemmas.DepGrammarPoss
open GoDebian GoDebian.Dep GoDebian.Spec.Dependency GoDebian.Lemmas.DepGrammarLex
open GoDebian.Lemmas.DepGrammarShape GoDebian.Lemmas.DepGrammarClause

/-! ### what a clause does to the possibility under construction -/

def applyClause (p : Possibility) : Clause → Possibility
  | .version op num => { p with version := some ⟨num, op⟩ }
  | .archs neg as => { p with archs := some ⟨neg, as.map denoteArch⟩ }
  | .stages g => { p with stageSets := p.stageSets ++ [g.map toStage] }

/-- the clause is well-formed and may occur in state `p` -/
def ClauseOK (p : Possibility) : Clause → Prop
  | .version op num => p.version = none ∧ ValidOp op ∧ token [41] num = true
  | .archs _ as => p.archs = some ⟨false, []⟩ ∧ as ≠ [] ∧ ∀ a ∈ as, token reserved a = true
  | .stages g => g ≠ [] ∧ ∀ x ∈ g, token reserved x.2 = true

def ClausesOK : Possibility → List Clause → Prop
  | _, [] => True
  | p, c :: cl => ClauseOK p c ∧ ClausesOK (applyClause p c) cl

/-- the cursor is at `,`, `|` or the end -/
def Stops (r : Bytes) : Prop := peek r = 44 ∨ peek r = 124 ∨ peek r = 0

theorem stops_not_ws {r : Bytes} (h : Stops r) : isWs (peek r) = false := by
  rcases h with h | h | h <;> simp [h, isWs]

theorem stops_nil : Stops [] := Or.inr (Or.inr rfl)

theorem versionShape_head {op num t : Bytes} (h : VersionShape op num t) : ∃ t', t = 40 :: t' := by
  obtain ⟨_, _, _⟩ := h
  simp only [List.append_assoc, List.cons_append, List.nil_append]
  exact ⟨_, rfl⟩

theorem bracketShape_head {o c : Nat} {items : List Bytes} {t : Bytes}
    (h : BracketShape o c items t) : ∃ t', t = o :: t' := by
  obtain ⟨_, _, _⟩ := h
  simp only [List.append_assoc, List.cons_append, List.nil_append]
  exact ⟨_, rfl⟩

theorem applyClause_name (p : Possibility) (c : Clause) : (applyClause p c).name = p.name := by
  cases c <;> rfl

theorem foldl_applyClause_name (cl : List Clause) (p : Possibility) :
    (cl.foldl applyClause p).name = p.name := by
  induction cl generalizing p with
  | nil => rfl
  | cons c cl ih => rw [List.foldl_cons, ih, applyClause_name]

/-! ### `parseControllers` -/

theorem parseControllers_ok (cl : List Clause) :
    ∀ (p : Possibility) (out : Bytes) (fuel : Nat) {w r : Bytes},
      ClausesShape cl out → ClausesOK p cl → IsWs w → Stops r → cl.length + 1 ≤ fuel →
      parseControllers fuel p (out ++ w ++ r) = .ok (cl.foldl applyClause p, r) := by
  induction cl with
  | nil =>
    intro p out fuel w r hs _ hw hr hf
    cases hs
    obtain ⟨f, rfl⟩ : ∃ f, fuel = f + 1 := ⟨fuel - 1, by simp at hf; omega⟩
    rw [List.nil_append, parseControllers, eatWs_append_peek hw (stops_not_ws hr)]
    have : (peek r = 44 || peek r = 124 || peek r = 0) = true := by
      rcases hr with h | h | h <;> simp [h]
    simp [this]
  | cons c cl ih =>
    intro p out fuel w r hs hok hw hr hf
    obtain ⟨f, rfl⟩ : ∃ f, fuel = f + 1 := ⟨fuel - 1, by simp at hf; omega⟩
    have hf' : cl.length + 1 ≤ f := by simp at hf; omega
    cases hs with
    | @cons _ _ t out' hc hcl =>
    obtain ⟨hok1, hok2⟩ := hok
    have hrec := ih (applyClause p c) out' f hcl hok2 hw hr hf'
    cases hc with
    | @version op num w' tv hw' htv =>
      obtain ⟨hver, hop, hnum⟩ := hok1
      have hv := parseVersion_ok hop hnum htv (out' ++ w ++ r)
      obtain ⟨t', rfl⟩ := versionShape_head htv
      have e0 : w' ++ 40 :: t' ++ out' ++ w ++ r = w' ++ (40 :: t' ++ (out' ++ w ++ r)) := by simp
      rw [e0, parseControllers, eatWs_append_peek hw' (by simp [peek, isWs])]
      simp only [List.cons_append] at hv ⊢
      simp only [peek, hver, hv]
      simpa [applyClause] using hrec
    | @archs neg as w' ta hw' hne hta =>
      obtain ⟨har, hne', has⟩ := hok1
      have hv := parseArchs_ok hne' has hta (out' ++ w ++ r)
      obtain ⟨t', rfl⟩ := bracketShape_head hta
      have e0 : w' ++ 91 :: t' ++ out' ++ w ++ r = w' ++ (91 :: t' ++ (out' ++ w ++ r)) := by simp
      rw [e0, parseControllers, eatWs_append_peek hw' (by simp [peek, isWs])]
      simp only [List.cons_append] at hv ⊢
      simp only [peek, har, hv]
      simpa [applyClause] using hrec
    | @stages g w' ta hw' hne hta =>
      obtain ⟨hne', hg⟩ := hok1
      have hv := parseStageSet_ok hne' hg hta (out' ++ w ++ r)
      obtain ⟨t', rfl⟩ := bracketShape_head hta
      have e0 : w' ++ 60 :: t' ++ out' ++ w ++ r = w' ++ (60 :: t' ++ (out' ++ w ++ r)) := by simp
      rw [e0, parseControllers, eatWs_append_peek hw' (by simp [peek, isWs])]
      simp only [List.cons_append] at hv ⊢
      simp only [peek, hv]
      have hge : (g.map toStage).isEmpty = false := by
        cases g with
        | nil => exact absurd rfl hne'
        | cons x g => rfl
      simpa [applyClause, hge] using hrec

/-! ### clause order: profile groups commute with the version / architecture clauses -/

def isStage : Clause → Bool
  | .stages _ => true
  | _ => false

theorem applyClause_comm (p : Possibility) {x y : Clause} (hx : isStage x = false)
    (hy : isStage y = true) :
    applyClause (applyClause p x) y = applyClause (applyClause p y) x := by
  cases y with
  | stages g => cases x <;> first | rfl | simp [isStage] at hx
  | version _ _ => simp [isStage] at hy
  | archs _ _ => simp [isStage] at hy

theorem clauseOK_stage (p : Possibility) {x y : Clause} (hy : isStage y = true)
    (h : ClauseOK p x) : ClauseOK (applyClause p y) x := by
  cases y with
  | stages g => cases x <;> exact h
  | version _ _ => simp [isStage] at hy
  | archs _ _ => simp [isStage] at hy

theorem clausesOK_stage (a : List Clause) :
    ∀ (p : Possibility) {y : Clause}, isStage y = true → (∀ x ∈ a, isStage x = false) →
      ClausesOK p a → ClausesOK (applyClause p y) a := by
  induction a with
  | nil => intros; trivial
  | cons x a ih =>
    intro p y hy ha h
    refine ⟨clauseOK_stage p hy h.1, ?_⟩
    rw [← applyClause_comm p (ha x (List.mem_cons_self ..)) hy]
    exact ih _ hy (fun z hz => ha z (List.mem_cons_of_mem _ hz)) h.2

theorem foldl_stage_comm (a : List Clause) :
    ∀ (p : Possibility) {y : Clause}, isStage y = true → (∀ x ∈ a, isStage x = false) →
      a.foldl applyClause (applyClause p y) = applyClause (a.foldl applyClause p) y := by
  induction a with
  | nil => intros; rfl
  | cons x a ih =>
    intro p y hy ha
    rw [List.foldl_cons, List.foldl_cons, ← applyClause_comm p (ha x (List.mem_cons_self ..)) hy]
    exact ih _ hy (fun z hz => ha z (List.mem_cons_of_mem _ hz))

theorem clausesOK_stages (b : List Clause) (hb : ∀ y ∈ b, ∀ q, ClauseOK q y) (p : Possibility) :
    ClausesOK p b := by
  induction b generalizing p with
  | nil => trivial
  | cons y b ih =>
    exact ⟨hb y (List.mem_cons_self ..) p, ih (fun z hz => hb z (List.mem_cons_of_mem _ hz)) _⟩

theorem merge_ok {a b cl : List Clause} (hm : Merge a b cl) :
    ∀ (p : Possibility), (∀ x ∈ a, isStage x = false) →
      (∀ y ∈ b, isStage y = true ∧ ∀ q, ClauseOK q y) → ClausesOK p a →
      ClausesOK p cl ∧ cl.foldl applyClause p = b.foldl applyClause (a.foldl applyClause p) := by
  induction hm with
  | nil_left b => intro p _ hb _; exact ⟨clausesOK_stages b (fun y hy => (hb y hy).2) p, rfl⟩
  | nil_right a => intro p _ _ h; exact ⟨h, rfl⟩
  | @left x a b r _ ih =>
    intro p ha hb h
    obtain ⟨h1, h2⟩ := ih (applyClause p x) (fun z hz => ha z (List.mem_cons_of_mem _ hz)) hb h.2
    exact ⟨⟨h.1, h1⟩, by simpa using h2⟩
  | @right y a b r _ ih =>
    intro p ha hb h
    have hy := hb y (List.mem_cons_self ..)
    obtain ⟨h1, h2⟩ := ih (applyClause p y) ha (fun z hz => hb z (List.mem_cons_of_mem _ hz))
      (clausesOK_stage a p hy.1 ha h)
    refine ⟨⟨hy.2 p, h1⟩, ?_⟩
    rw [List.foldl_cons, h2, foldl_stage_comm a p hy.1 ha, List.foldl_cons]

theorem foldl_stages (l : List (List (Bool × Bytes))) (q : Possibility) :
    (l.map Clause.stages).foldl applyClause q =
      { q with stageSets := q.stageSets ++ l.map (·.map toStage) } := by
  induction l generalizing q with
  | nil => simp
  | cons g l ih => simp [ih, applyClause]

/-! ### well-formedness, unpacked -/

theorem wfPoss_substvar {p : SPoss} (h : wfPoss p = true) (hs : p.substvar = true) :
    token [125] p.name = true := by
  simp [wfPoss, hs] at h
  exact h.1.1.1.1

theorem wfPoss_normal {p : SPoss} (h : wfPoss p = true) (hs : p.substvar = false) :
    token reserved p.name = true ∧ (∀ q, p.qual = some q → token reserved q = true) ∧
    (∀ op num, p.version = some (op, num) → ValidOp op ∧ token [41] num = true) ∧
    (∀ a ∈ p.archs, token reserved a = true) ∧
    (∀ g ∈ p.stages, g ≠ [] ∧ ∀ x ∈ g, token reserved x.2 = true) := by
  simp only [wfPoss, hs, Bool.false_eq_true, if_false, Bool.and_eq_true] at h
  obtain ⟨⟨⟨⟨h1, h2⟩, h3⟩, h4⟩, h5⟩ := h
  refine ⟨h1, ?_, ?_, ?_, ?_⟩
  · intro q hq; simpa [hq] using h2
  · intro op num hv
    simp only [hv, Bool.and_eq_true, Bool.or_eq_true, decide_eq_true_eq] at h3
    exact ⟨by simpa [ValidOp, or_assoc] using h3.1, h3.2⟩
  · simpa using h4
  · intro g hg
    have := (List.all_eq_true.1 h5) g hg
    simp only [Bool.and_eq_true, Bool.not_eq_true', List.isEmpty_eq_false_iff, ne_eq,
      List.all_eq_true] at this
    exact ⟨by simpa using this.1, fun x hx => this.2 x hx⟩

/-! ### the state before the clauses, and the value after them -/

def basePoss (p : SPoss) : Possibility :=
  { name := p.name, arch := p.qual.map denoteArch, archs := some ⟨false, []⟩, stageSets := [],
    version := none, substvar := false }

theorem toStage_eq : (fun (x : Bool × Bytes) => match x with | (n, s) => (⟨n, s⟩ : Stage)) = toStage := by
  funext x; obtain ⟨n, s⟩ := x; rfl

theorem clauses_denote {p : SPoss} (h : wfPoss p = true) (hs : p.substvar = false)
    {fixed cl : List Clause} (hf : fixed = vaOf p ++ arOf p ∨ fixed = arOf p ++ vaOf p)
    (hm : Merge fixed (p.stages.map Clause.stages) cl) :
    ClausesOK (basePoss p) cl ∧ cl.foldl applyClause (basePoss p) = denotePoss p := by
  obtain ⟨_, _, hv, ha, hg⟩ := wfPoss_normal h hs
  have hb : ∀ y ∈ p.stages.map Clause.stages, isStage y = true ∧ ∀ q, ClauseOK q y := by
    intro y hy
    obtain ⟨g, hg', rfl⟩ := List.mem_map.1 hy
    exact ⟨rfl, fun _ => hg g hg'⟩
  have hfa : ∀ x ∈ fixed, isStage x = false := by
    intro x hx
    have : x ∈ vaOf p ∨ x ∈ arOf p := by
      rcases hf with rfl | rfl <;> simpa [or_comm] using hx
    rcases this with hx | hx
    · unfold vaOf at hx; split at hx <;> simp at hx; subst hx; rfl
    · unfold arOf at hx; split at hx <;> simp at hx; subst hx; rfl
  have hfo : ClausesOK (basePoss p) fixed ∧
      fixed.foldl applyClause (basePoss p) =
        { basePoss p with
          archs := some ⟨if p.archs.isEmpty then false else p.neg, p.archs.map denoteArch⟩,
          version := p.version.map (fun (op, num) => ⟨num, op⟩) } := by
    cases hver : p.version with
    | none =>
      by_cases har : p.archs = []
      · rcases hf with rfl | rfl <;> simp [vaOf, arOf, hver, har, ClausesOK, basePoss]
      · have hne : p.archs.isEmpty = false := by simpa using har
        rcases hf with rfl | rfl <;>
          simp [vaOf, arOf, hver, hne, ClausesOK, ClauseOK, basePoss, applyClause, har] <;>
          exact ha
    | some v =>
      obtain ⟨op, num⟩ := v
      have := hv op num hver
      by_cases har : p.archs = []
      · rcases hf with rfl | rfl <;>
          simp [vaOf, arOf, hver, har, ClausesOK, ClauseOK, basePoss, applyClause, this]
      · have hne : p.archs.isEmpty = false := by simpa using har
        rcases hf with rfl | rfl <;>
          simp [vaOf, arOf, hver, hne, ClausesOK, ClauseOK, basePoss, applyClause, har, this] <;>
          exact ha
  obtain ⟨h1, h2⟩ := merge_ok hm (basePoss p) hfa hb hfo.1
  refine ⟨h1, ?_⟩
  rw [h2, hfo.2, foldl_stages]
  simp [denotePoss, hs, basePoss, toStage_eq]

/-! ### one iteration of `parsePossibilityLoop` -/

theorem stops_nameStop {r : Bytes} (h : Stops r) : nameStop (peek r) = true := by
  rcases h with h | h | h <;> simp [h, nameStop]

theorem stops_multiarchStop {r : Bytes} (h : Stops r) : multiarchStop (peek r) = true := by
  rcases h with h | h | h <;> simp [h, multiarchStop]

/-- the name chunk is followed by `,`, `|` or the end: the alternative is complete -/
theorem possLoop_final (f : Nat) (p : Possibility) {chunk r : Bytes}
    (hc : ∀ c ∈ chunk, nameStop c = false) (hr : Stops r) (hne : p.name ++ chunk ≠ []) :
    parsePossibilityLoop (f + 1) p (chunk ++ r) =
      .ok (some { p with name := p.name ++ chunk }, r) := by
  rw [parsePossibilityLoop, takeUntil_append hc r (Or.inr (stops_nameStop hr))]
  have h1 : (peek r = 58) = False := by rcases hr with h | h | h <;> simp [h]
  have h2 : (peek r = 44 || peek r = 124 || peek r = 0) = true := by
    rcases hr with h | h | h <;> simp [h]
  have h3 : (p.name ++ chunk).isEmpty = false := by simpa using hne
  simp only [h1, h2, if_false, if_true, h3, Bool.false_eq_true]

/-- the name chunk is followed by a `:qualifier` -/
theorem possLoop_qual (f : Nat) (p : Possibility) {chunk q R : Bytes}
    (hc : ∀ c ∈ chunk, nameStop c = false) (hq : ∀ c ∈ q, multiarchStop c = false)
    (hR : multiarchStop (peek R) = true) :
    parsePossibilityLoop (f + 1) p (chunk ++ 58 :: (q ++ R)) =
      parsePossibilityLoop f { p with name := p.name ++ chunk, arch := some (denoteArch q) } R := by
  rw [parsePossibilityLoop, takeUntil_append hc _ (Or.inr (by simp [peek, nameStop]))]
  simp only [peek, if_true, parseMultiarch, next_cons, takeUntil_append hq R (Or.inr hR),
    parseArch_denote]

/-- the name chunk is followed by white space or `(`: the clauses -/
theorem possLoop_ctl (f : Nat) (p p' : Possibility) {chunk R r : Bytes}
    (hc : ∀ c ∈ chunk, nameStop c = false)
    (hR : isWs (peek R) = true ∨ peek R = 40)
    (hctl : parseControllers (R.length + 1) { p with name := p.name ++ chunk } R = .ok (p', r)) :
    parsePossibilityLoop (f + 1) p (chunk ++ R) = parsePossibilityLoop f p' r := by
  have hs : nameStop (peek R) = true := by
    rcases hR with h | h
    · have := (isWs_iff _).1 h
      rcases this with h | h | h | h <;> simp [h, nameStop]
    · simp [h, nameStop]
  have h1 : (peek R = 58) = False := by
    rcases hR with h | h
    · have := (isWs_iff _).1 h
      simp; omega
    · simp [h]
  have h2 : (peek R = 44 || peek R = 124 || peek R = 0) = false := by
    rcases hR with h | h
    · have := (isWs_iff _).1 h
      simp; omega
    · simp [h]
  rw [parsePossibilityLoop, takeUntil_append hc R (Or.inr hs)]
  simp only [h1, h2, if_false, Bool.false_eq_true, hctl]

theorem ws_or_paren_multiarchStop {c : Nat} (h : isWs c = true ∨ c = 40) :
    multiarchStop c = true := by
  rcases h with h | h
  · have := (isWs_iff _).1 h
    rcases this with h | h | h | h <;> simp [h, multiarchStop]
  · simp [h, multiarchStop]

/-! ### a whole alternative -/

/-- the head of the clauses (with the white space after them) is white space or `(` -/
theorem middle_head {cl : List Clause} {out w : Bytes} (hs : ClausesShape cl out) (hw : IsWs w)
    (r : Bytes) : (cl = [] ∧ out = [] ∧ w = []) ∨
      isWs (peek (out ++ w ++ r)) = true ∨ peek (out ++ w ++ r) = 40 := by
  cases hs with
  | nil =>
    cases w with
    | nil => exact Or.inl ⟨rfl, rfl, rfl⟩
    | cons c w => exact Or.inr (Or.inl (isWs_cons.1 hw).1)
  | @cons c cl t out' hc hcl =>
    right
    have key : ∀ (w' body : Bytes) (o : Nat), IsWs w' → (w' = [] → o = 40) →
        isWs (peek (w' ++ o :: body ++ out' ++ w ++ r)) = true ∨
          peek (w' ++ o :: body ++ out' ++ w ++ r) = 40 := by
      intro w' body o hw' ho
      cases w' with
      | nil => right; simpa [peek] using ho rfl
      | cons c w' => left; exact (isWs_cons.1 hw').1
    cases hc with
    | @version op num w' tv hw' htv =>
      obtain ⟨t', rfl⟩ := versionShape_head htv
      exact key w' t' 40 hw' (fun _ => rfl)
    | @archs neg as w' ta hw' hne hta =>
      obtain ⟨t', rfl⟩ := bracketShape_head hta
      exact key w' t' 91 hw' (fun h => absurd h hne)
    | @stages g w' ta hw' hne hta =>
      obtain ⟨t', rfl⟩ := bracketShape_head hta
      exact key w' t' 60 hw' (fun h => absurd h hne)

theorem clausesShape_length {cl : List Clause} {out : Bytes} (hs : ClausesShape cl out) :
    cl.length ≤ out.length := by
  induction hs with
  | nil => simp
  | @cons c cl t out' hc _ ih =>
    have : 1 ≤ t.length := by
      cases hc with
      | version _ htv => obtain ⟨t', rfl⟩ := versionShape_head htv; simp; omega
      | archs _ _ hta => obtain ⟨t', rfl⟩ := bracketShape_head hta; simp; omega
      | stages _ _ hta => obtain ⟨t', rfl⟩ := bracketShape_head hta; simp; omega
    simp only [List.length_cons, List.length_append]
    omega

theorem token_nameStop {b : Bytes} (h : token reserved b = true) : ∀ c ∈ b, nameStop c = false :=
  fun _ hc => (token_avoids h hc).2.1

theorem token_multiarchStop {b : Bytes} (h : token reserved b = true) :
    ∀ c ∈ b, multiarchStop c = false :=
  fun _ hc => (token_avoids h hc).2.2.1

/-- `parsePossibilityLoop` on a name, an optional qualifier, clauses in any admissible
    order, optional white space, and then `,`, `|` or the end -/
theorem parsePossibilityLoop_ok {p : SPoss} (hwf : wfPoss p = true) (hs : p.substvar = false)
    {cl : List Clause} {out w r : Bytes} (hsh : ClausesShape cl out)
    (hok : ClausesOK (basePoss p) cl) (hw : IsWs w) (hr : Stops r) (fuel : Nat)
    (hfuel : (headOf p ++ out ++ w ++ r).length + 1 ≤ fuel) :
    parsePossibilityLoop fuel emptyPossibility (headOf p ++ out ++ w ++ r) =
      .ok (some (cl.foldl applyClause (basePoss p)), r) := by
  obtain ⟨hname, hqual, _, _, _⟩ := wfPoss_normal hwf hs
  have hn1 : 1 ≤ p.name.length := by
    have := token_ne_nil hname
    cases hp : p.name with
    | nil => exact absurd hp this
    | cons c l => simp
  have hctl : ∀ (f : Nat), cl.length + 1 ≤ f →
      parseControllers f (basePoss p) (out ++ w ++ r) = .ok (cl.foldl applyClause (basePoss p), r) :=
    fun f hf => parseControllers_ok cl (basePoss p) out f hsh hok hw hr hf
  have hlen := clausesShape_length hsh
  have hfin : ∀ f, parsePossibilityLoop (f + 1) (cl.foldl applyClause (basePoss p)) ([] ++ r) =
      .ok (some (cl.foldl applyClause (basePoss p)), r) := by
    intro f
    rw [possLoop_final f _ (by simp) hr
      (by rw [foldl_applyClause_name]; simpa [basePoss] using token_ne_nil hname)]
    simp
  simp only [List.nil_append] at hfin
  have hmid := middle_head hsh hw r
  unfold headOf qualOf at hfuel ⊢
  cases hq : p.qual with
  | none =>
    simp only [hq, List.append_nil] at hfuel ⊢
    have hbase : ({ emptyPossibility with name := emptyPossibility.name ++ p.name } : Possibility)
        = basePoss p := by simp [emptyPossibility, basePoss, hq]
    rcases hmid with ⟨rfl, rfl, rfl⟩ | hmid
    · obtain ⟨f, rfl⟩ : ∃ f, fuel = f + 1 := ⟨fuel - 1, by omega⟩
      simp only [List.append_nil]
      rw [possLoop_final f _ (token_nameStop hname) hr (by simpa [emptyPossibility] using token_ne_nil hname),
        hbase]
      rfl
    · obtain ⟨f, rfl⟩ : ∃ f, fuel = f + 2 := ⟨fuel - 2, by
        have : 1 ≤ (out ++ w ++ r).length := by
          cases hx : out ++ w ++ r with
          | nil => rw [hx] at hmid; simp [peek, isWs] at hmid
          | cons _ _ => simp
        simp only [List.length_append] at hfuel this ⊢; omega⟩
      have e0 : p.name ++ out ++ w ++ r = p.name ++ (out ++ w ++ r) := by simp
      rw [e0, possLoop_ctl (f + 1) _ _ (token_nameStop hname) hmid
        (by rw [hbase]; exact hctl _ (by simp only [List.length_append] at hlen ⊢; omega))]
      exact hfin f
  | some q =>
    have hqt := hqual q hq
    have hq1 : 1 ≤ q.length := by
      have := token_ne_nil hqt
      cases hp : q with
      | nil => exact absurd hp this
      | cons c l => simp
    simp only [hq] at hfuel ⊢
    have hbase :
        ({ emptyPossibility with
            name := emptyPossibility.name ++ p.name, arch := some (denoteArch q) } : Possibility)
          = basePoss p := by
      simp [emptyPossibility, basePoss, hq]
    have e0 : p.name ++ ([58] ++ q) ++ out ++ w ++ r = p.name ++ 58 :: (q ++ (out ++ w ++ r)) := by
      simp
    rcases hmid with ⟨rfl, rfl, rfl⟩ | hmid
    · obtain ⟨f, rfl⟩ : ∃ f, fuel = f + 2 := ⟨fuel - 2, by
        simp only [List.length_append, List.length_cons] at hfuel ⊢; omega⟩
      rw [e0, possLoop_qual (f + 1) _ (token_nameStop hname) (token_multiarchStop hqt)
        (by simpa using stops_multiarchStop hr), hbase]
      simpa using hfin f
    · obtain ⟨f, rfl⟩ : ∃ f, fuel = f + 3 := ⟨fuel - 3, by
        simp only [List.length_append, List.length_cons] at hfuel ⊢; omega⟩
      have hms : multiarchStop (peek (out ++ w ++ r)) = true := ws_or_paren_multiarchStop hmid
      rw [e0, possLoop_qual (f + 2) _ (token_nameStop hname) (token_multiarchStop hqt) hms, hbase]
      have hc2 : parseControllers ((out ++ w ++ r).length + 1)
          { basePoss p with name := (basePoss p).name ++ [] } (out ++ w ++ r) =
            .ok (cl.foldl applyClause (basePoss p), r) := by
        have : ({ basePoss p with name := (basePoss p).name ++ [] } : Possibility) = basePoss p := by
          simp
        rw [this]
        exact hctl _ (by simp only [List.length_append]; omega)
      have := possLoop_ctl (f + 1) (basePoss p) _ (chunk := []) (by simp) hmid hc2
      rw [List.nil_append] at this
      rw [this]
      exact hfin f

end GoDebian.Lemmas.DepGrammarPoss
