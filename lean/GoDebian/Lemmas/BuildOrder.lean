/-
  `order` (= `OrderDSCForBuild`): the lemmas about the sort (BuildOrderSort.lean) applied
  to the graph of BuildOrderGraph.lean.
-/
import GoDebian.Lemmas.BuildOrderSort
import GoDebian.Lemmas.BuildOrderGraph

namespace GoDebian.Lemmas.BuildOrder
open GoDebian GoDebian.BuildOrder

theorem order_of_edges {srcs : List Src} {arch : Dep.Arch} {es : Edges}
    (he : edges srcs arch = .ok es) :
    order srcs arch = sortNodes es (nodeOrder srcs) ((nodeOrder srcs).length + 1) [] [] := by
  unfold order
  rw [he]

theorem order_not_fuel (srcs : List Src) (arch : Dep.Arch) : order srcs arch ≠ .error .fuel := by
  cases he : edges srcs arch with
  | error e =>
    have : e = .panic := edges_error he
    subst this
    unfold order
    rw [he]
    simp
  | ok es =>
    rw [order_of_edges he]
    exact sortNodes_not_fuel es _ _ [] [] (by rw [um_nil]; exact Nat.lt_succ_self _)

/-- a successful `order`: the output is, oldest first, a duplicate-free list `m` (newest
    first) of nodes that contains every node and in which every element has its inbound
    neighbours further down -/
theorem order_ok {srcs : List Src} {arch : Dep.Arch} {es : Edges} {out : List Bytes}
    (he : edges srcs arch = .ok es) (h : order srcs arch = .ok out) :
    ∃ m, Inv es (nodeOrder srcs) m ∧ out = m.reverse ∧ ∀ n ∈ nodeOrder srcs, n ∈ m := by
  rw [order_of_edges he] at h
  exact sortNodes_ok es _ _ [] [] out h (Inv.nil _ _) rfl

theorem order_ok_edges {srcs : List Src} {arch : Dep.Arch} {out : List Bytes}
    (h : order srcs arch = .ok out) : ∃ es, edges srcs arch = .ok es := by
  cases he : edges srcs arch with
  | error e => unfold order at h; rw [he] at h; simp at h
  | ok es => exact ⟨es, rfl⟩

theorem order_perm {srcs : List Src} {arch : Dep.Arch} {out : List Bytes}
    (hd : (srcs.map (·.source)).Nodup) (h : order srcs arch = .ok out) :
    out.Perm (srcs.map (·.source)) := by
  rcases order_ok_edges h with ⟨es, he⟩
  rcases order_ok he h with ⟨m, hi, rfl, hall⟩
  refine (List.reverse_perm m).trans ((List.perm_ext_iff_of_nodup hi.nodup hd).mpr fun a => ?_)
  exact ⟨fun ha => mem_nodeOrder_iff_map.mp (hi.sub a ha),
    fun ha => hall a (mem_nodeOrder_iff_map.mpr ha)⟩

theorem order_respects {srcs : List Src} {arch : Dep.Arch} {es : Edges} {out : List Bytes}
    (he : edges srcs arch = .ok es) (h : order srcs arch = .ok out) (to from_ : Bytes)
    (hedge : (to, from_) ∈ es) (hto : to ∈ out) :
    ∃ i j : Nat, out[i]? = some from_ ∧ out[j]? = some to ∧ i < j := by
  rcases order_ok he h with ⟨m, hi, rfl, _⟩
  exact ord_index m hi.ord to from_ (List.mem_reverse.mp hto) hedge

theorem order_cycle {srcs : List Src} {arch : Dep.Arch} {es : Edges}
    (he : edges srcs arch = .ok es) (cyc : List Bytes) (hne : cyc ≠ [])
    (hc : ∀ i, i < cyc.length → (cyc[(i + 1) % cyc.length]!, cyc[i]!) ∈ es)
    (hin : ∀ n ∈ cyc, n ∈ nodeOrder srcs) (out : List Bytes) : order srcs arch ≠ .ok out := by
  intro h
  rcases order_ok he h with ⟨m, hi, _, hall⟩
  have hpos : 0 < cyc.length := List.length_pos_iff.mpr hne
  refine no_cycle (rk m) cyc hne fun i hi' => ?_
  have hlt : (i + 1) % cyc.length < cyc.length := Nat.mod_lt _ hpos
  have hmem : cyc[(i + 1) % cyc.length]! ∈ m := by
    rw [getElem!_pos cyc _ hlt]
    exact hall _ (hin _ (List.getElem_mem hlt))
  exact rk_lt m hi.nodup hi.ord _ _ hmem (hc i hi')

theorem order_acyclic {srcs : List Src} {arch : Dep.Arch} {es : Edges}
    (he : edges srcs arch = .ok es) (rank : Bytes → Nat)
    (hrank : ∀ to from_, (to, from_) ∈ es → rank from_ < rank to) :
    ∃ out, order srcs arch = .ok out := by
  rw [order_of_edges he]
  exact sortNodes_rank_ok rank hrank (edges_from_node he) _ [] []
    (by rw [um_nil]; exact Nat.lt_succ_self _)

/-! ### building blocks for the examples in Props/C19.lean -/

namespace Sample

def B := Bytes.ofString
def amd64 : Dep.Arch := ⟨B "gnu", B "linux", B "amd64"⟩

/-- the possibility `n` without qualifiers -/
def P (n : String) : Dep.Possibility := ⟨B n, none, some ⟨false, []⟩, [], none, false⟩

/-- the possibility `n [armhf]` -/
def Parm (n : String) : Dep.Possibility :=
  ⟨B n, none, some ⟨false, [⟨B "gnu", B "linux", B "armhf"⟩]⟩, [], none, false⟩

/-- a possibility with a nil architecture set, as `ParseDepends` produces for substvars,
    but not flagged as one (hand-built): `GetPossibilities` dereferences nil on it -/
def Pnil (n : String) : Dep.Possibility := ⟨B n, none, none, [], none, false⟩

end Sample

end GoDebian.Lemmas.BuildOrder
