/-
  General lemmas about the Go string primitives of `GoDebian.Base.Str`:
  `indexByte` / `lastIndexByte` on `x ++ b :: y`, white-space trimming (fuel
  independence, one-step unfolding, strings of "plain" bytes are fixed points, complete
  white-space prefixes and suffixes are removed), `digitsVal` / `parseInt64` / `fmtNat`.
  Core Lean only.
-/
import GoDebian.Base.Str

namespace GoDebian.Lemmas.Str
open GoDebian GoDebian.Str

/-! ### `indexByte`, `lastIndexByte` -/

theorem indexByte_nil (b : Nat) : indexByte b [] = none := by
  simp [indexByte, indexOf]

theorem indexByte_cons (b c : Nat) (s : Bytes) :
    indexByte b (c :: s) = if b = c then some 0 else (indexByte b s).map (· + 1) := by
  simp [indexByte, indexOf, isPrefix]

theorem indexByte_of_not_mem {b : Nat} {s : Bytes} (h : b ∉ s) : indexByte b s = none := by
  induction s with
  | nil => exact indexByte_nil b
  | cons c s ih =>
    have h1 : b ≠ c := fun e => h (by simp [e])
    have h2 : b ∉ s := fun hm => h (List.mem_cons_of_mem _ hm)
    simp [indexByte_cons, h1, ih h2]

theorem indexByte_append {b : Nat} {x : Bytes} (y : Bytes) (h : b ∉ x) :
    indexByte b (x ++ b :: y) = some x.length := by
  induction x with
  | nil => simp [indexByte_cons]
  | cons c x ih =>
    have h1 : b ≠ c := fun e => h (by simp [e])
    have h2 : b ∉ x := fun hm => h (List.mem_cons_of_mem _ hm)
    simp [indexByte_cons, h1, ih h2]

theorem lastIndexByte_of_not_mem {b : Nat} {s : Bytes} (h : b ∉ s) :
    lastIndexByte b s = none := by
  have : indexByte b s.reverse = none := indexByte_of_not_mem (by simpa using h)
  simp [lastIndexByte, this]

theorem lastIndexByte_append {b : Nat} (x : Bytes) {y : Bytes} (h : b ∉ y) :
    lastIndexByte b (x ++ b :: y) = some x.length := by
  have : indexByte b (x ++ b :: y).reverse = some y.length := by
    have := indexByte_append (b := b) (x := y.reverse) x.reverse (by simpa using h)
    simpa using this
  simp only [lastIndexByte, this, List.length_append, List.length_cons]
  congr 1; omega

/-! ### white space -/

/-- Printable ASCII other than the blank: no such byte starts or ends the UTF-8
    encoding of a white-space rune. -/
def Plain (c : Nat) : Prop := 33 ≤ c ∧ c ≤ 126

theorem spaceLen_nil : spaceLen [] = 0 := rfl
theorem spaceLenRev_nil : spaceLenRev [] = 0 := rfl

theorem spaceLen_plain {c : Nat} (h : Plain c) (l : Bytes) : spaceLen (c :: l) = 0 := by
  unfold Plain at h
  unfold spaceLen
  split <;> (try (rename_i heq; injection heq with h1 h2; subst h1)) <;> first
    | omega
    | rfl

theorem spaceLenRev_plain {c : Nat} (h : Plain c) (l : Bytes) : spaceLenRev (c :: l) = 0 := by
  unfold Plain at h
  unfold spaceLenRev
  split <;> (try (rename_i heq; injection heq with h1 h2; subst h1)) <;> first
    | omega
    | rw [if_neg (by omega)]
    | rfl

theorem hasSpaceRune_of_plain {l : Bytes} (h : ∀ c ∈ l, Plain c) : hasSpaceRune l = false := by
  induction l with
  | nil => rfl
  | cons c l ih =>
    simp [hasSpaceRune, spaceLen_plain (h c (by simp)) l,
      ih (fun d hd => h d (List.mem_cons_of_mem _ hd))]

/-- A non-zero `spaceLen` is at most 3, at most the length, and depends on that many
    leading bytes only. -/
theorem spaceLen_append {l : Bytes} {k : Nat} (h : spaceLen l = k) (hk : k ≠ 0) (Y : Bytes) :
    k ≤ l.length ∧ spaceLen (l ++ Y) = k := by
  subst h
  unfold spaceLen at hk ⊢
  split at hk <;> first
    | (exfalso; exact hk rfl)
    | (refine ⟨?_, rfl⟩; simp; done)
    | (split at hk
       · rename_i hc; simp [hc]
       · exact absurd rfl hk)

theorem spaceLenRev_append {l : Bytes} {k : Nat} (h : spaceLenRev l = k) (hk : k ≠ 0)
    (Y : Bytes) : k ≤ l.length ∧ spaceLenRev (l ++ Y) = k := by
  subst h
  unfold spaceLenRev at hk ⊢
  split at hk <;> first
    | (exfalso; exact hk rfl)
    | (refine ⟨?_, rfl⟩; simp; done)
    | (split at hk
       · rename_i hc; simp [hc]
       · exact absurd rfl hk)

/-- The mirror image: the bytes that `spaceLen` recognises at the head of a string are
    recognised by `spaceLenRev` at the head of the reversed string. -/
theorem spaceLenRev_E2_80 {c : Nat}
    (hc : (0x80 ≤ c ∧ c ≤ 0x8A) ∨ c = 0xA8 ∨ c = 0xA9 ∨ c = 0xAF) (Z : Bytes) :
    spaceLenRev (c :: 0x80 :: 0xE2 :: Z) = 3 := by
  unfold spaceLenRev
  split <;> first
    | (simp_all; done)
    | (simp_all; omega)

theorem spaceLen_mirror {l : Bytes} {k : Nat} (h : spaceLen l = k) (hk : k ≠ 0) (Z : Bytes) :
    spaceLenRev ((l.take k).reverse ++ Z) = k := by
  subst h
  unfold spaceLen at hk ⊢
  split at hk <;> first
    | (exfalso; exact hk rfl)
    | rfl
    | (split at hk
       · rename_i hc; simp only [hc, if_true]; exact spaceLenRev_E2_80 hc Z
       · exact absurd rfl hk)

/-! ### trimming -/

theorem trimLeftSpaceN_succ (n : Nat) (l : Bytes) :
    trimLeftSpaceN (n + 1) l =
      if spaceLen l = 0 then l else trimLeftSpaceN n (l.drop (spaceLen l)) := by
  simp only [trimLeftSpaceN]
  split <;> simp_all

theorem trimLeftSpaceN_nil (n : Nat) : trimLeftSpaceN n [] = [] := by
  cases n <;> simp [trimLeftSpaceN, spaceLen]

theorem trimLeftSpaceN_fuel (n m : Nat) (l : Bytes) (hn : l.length ≤ n) (hm : l.length ≤ m) :
    trimLeftSpaceN n l = trimLeftSpaceN m l := by
  induction n generalizing m l with
  | zero =>
    have : l = [] := List.length_eq_zero_iff.mp (by omega)
    subst this; simp [trimLeftSpaceN_nil]
  | succ n ih =>
    cases m with
    | zero =>
      have : l = [] := List.length_eq_zero_iff.mp (by omega)
      subst this; simp [trimLeftSpaceN_nil]
    | succ m =>
      rw [trimLeftSpaceN_succ, trimLeftSpaceN_succ]
      split
      · rfl
      · apply ih <;> (simp only [List.length_drop]; omega)

theorem trimLeftSpace_of_zero {l : Bytes} (h : spaceLen l = 0) : trimLeftSpace l = l := by
  unfold trimLeftSpace
  cases l.length with
  | zero => rfl
  | succ n => rw [trimLeftSpaceN_succ, if_pos h]

theorem trimLeftSpace_step {l : Bytes} (h : spaceLen l ≠ 0) :
    trimLeftSpace l = trimLeftSpace (l.drop (spaceLen l)) := by
  unfold trimLeftSpace
  cases hl : l.length with
  | zero =>
    have : l = [] := List.length_eq_zero_iff.mp hl
    subst this; exact absurd rfl h
  | succ n =>
    rw [trimLeftSpaceN_succ, if_neg h]
    apply trimLeftSpaceN_fuel <;> (simp only [List.length_drop]; omega)

/-- `trimRightSpace` works on the reversed string; this is its loop with the right fuel. -/
def trimRev (l : Bytes) : Bytes := trimRightSpaceRevN l.length l

theorem trimRightSpace_eq (l : Bytes) : trimRightSpace l = (trimRev l.reverse).reverse := by
  simp [trimRightSpace, trimRev]

theorem trimRevN_succ (n : Nat) (l : Bytes) :
    trimRightSpaceRevN (n + 1) l =
      if spaceLenRev l = 0 then l else trimRightSpaceRevN n (l.drop (spaceLenRev l)) := by
  simp only [trimRightSpaceRevN]
  split <;> simp_all

theorem trimRevN_nil (n : Nat) : trimRightSpaceRevN n [] = [] := by
  cases n <;> simp [trimRightSpaceRevN, spaceLenRev]

theorem trimRevN_fuel (n m : Nat) (l : Bytes) (hn : l.length ≤ n) (hm : l.length ≤ m) :
    trimRightSpaceRevN n l = trimRightSpaceRevN m l := by
  induction n generalizing m l with
  | zero =>
    have : l = [] := List.length_eq_zero_iff.mp (by omega)
    subst this; simp [trimRevN_nil]
  | succ n ih =>
    cases m with
    | zero =>
      have : l = [] := List.length_eq_zero_iff.mp (by omega)
      subst this; simp [trimRevN_nil]
    | succ m =>
      rw [trimRevN_succ, trimRevN_succ]
      split
      · rfl
      · apply ih <;> (simp only [List.length_drop]; omega)

theorem trimRev_of_zero {l : Bytes} (h : spaceLenRev l = 0) : trimRev l = l := by
  unfold trimRev
  cases l.length with
  | zero => rfl
  | succ n => rw [trimRevN_succ, if_pos h]

theorem trimRev_step {l : Bytes} (h : spaceLenRev l ≠ 0) :
    trimRev l = trimRev (l.drop (spaceLenRev l)) := by
  unfold trimRev
  cases hl : l.length with
  | zero =>
    have : l = [] := List.length_eq_zero_iff.mp hl
    subst this; exact absurd rfl h
  | succ n =>
    rw [trimRevN_succ, if_neg h]
    apply trimRevN_fuel <;> (simp only [List.length_drop]; omega)

/-- A string that `trimLeftSpace` erases completely is a concatenation of white-space
    runes; in front of a string that does not start with one it is removed … -/
theorem trimLeftSpace_append_of_spaces {w Y : Bytes} (hw : trimLeftSpace w = [])
    (hY : spaceLen Y = 0) : trimLeftSpace (w ++ Y) = Y := by
  suffices ∀ n (w : Bytes), w.length ≤ n → trimLeftSpace w = [] → trimLeftSpace (w ++ Y) = Y from
    this _ w (Nat.le_refl _) hw
  intro n
  induction n with
  | zero =>
    intro w hl _
    have : w = [] := List.length_eq_zero_iff.mp (by omega)
    subst this; simpa using trimLeftSpace_of_zero hY
  | succ n ih =>
    intro w hl hw
    by_cases hz : spaceLen w = 0
    · rw [trimLeftSpace_of_zero hz] at hw
      subst hw; simpa using trimLeftSpace_of_zero hY
    · obtain ⟨hle, happ⟩ := spaceLen_append rfl hz Y
      rw [trimLeftSpace_step (by rw [happ]; exact hz), happ, List.drop_append_of_le_length hle]
      apply ih
      · simp only [List.length_drop]; omega
      · rw [← trimLeftSpace_step hz]; exact hw

/-- … and behind any string it is removed by the right trim. -/
theorem trimRev_append_of_spaces {w : Bytes} (hw : trimLeftSpace w = []) (Z : Bytes) :
    trimRev (w.reverse ++ Z) = trimRev Z := by
  suffices ∀ n (w : Bytes), w.length ≤ n → trimLeftSpace w = [] →
      ∀ Z, trimRev (w.reverse ++ Z) = trimRev Z from this _ w (Nat.le_refl _) hw Z
  intro n
  induction n with
  | zero =>
    intro w hl _ Z
    have : w = [] := List.length_eq_zero_iff.mp (by omega)
    subst this; rfl
  | succ n ih =>
    intro w hl hw Z
    by_cases hz : spaceLen w = 0
    · rw [trimLeftSpace_of_zero hz] at hw
      subst hw; rfl
    · obtain ⟨hle, _⟩ := spaceLen_append rfl hz []
      have hm := spaceLen_mirror rfl hz Z
      have hsplit : w.reverse ++ Z
          = (w.drop (spaceLen w)).reverse ++ ((w.take (spaceLen w)).reverse ++ Z) := by
        rw [← List.append_assoc, ← List.reverse_append, List.take_append_drop]
      rw [hsplit, ih _ (by simp only [List.length_drop]; omega)
        (by rw [← trimLeftSpace_step hz]; exact hw)]
      rw [trimRev_step (by rw [hm]; exact hz), hm]
      congr 1
      have : ((w.take (spaceLen w)).reverse).length = spaceLen w := by
        simp [List.length_take]; omega
      rw [List.drop_append_of_le_length (by omega), List.drop_of_length_le (by omega)]
      rfl

theorem trimRightSpace_append_of_spaces {w X : Bytes} (hw : trimLeftSpace w = [])
    (hX : spaceLenRev X.reverse = 0) : trimRightSpace (X ++ w) = X := by
  rw [trimRightSpace_eq, List.reverse_append, trimRev_append_of_spaces hw,
    trimRev_of_zero hX, List.reverse_reverse]

/-- `TrimSpace` strips complete white space on both sides of a string of plain bytes. -/
theorem trimSpace_wrap {w1 w2 t : Bytes} (hw1 : trimLeftSpace w1 = [])
    (hw2 : trimLeftSpace w2 = []) (hne : t ≠ []) (hp : ∀ c ∈ t, Plain c) :
    trimSpace (w1 ++ t ++ w2) = t := by
  unfold trimSpace
  cases t with
  | nil => exact absurd rfl hne
  | cons c t =>
    have hc : spaceLen (c :: t ++ w2) = 0 := spaceLen_plain (hp c (by simp)) _
    rw [List.append_assoc, trimLeftSpace_append_of_spaces hw1 hc]
    apply trimRightSpace_append_of_spaces hw2
    cases hr : (c :: t).reverse with
    | nil => rfl
    | cons d r =>
      have : d ∈ c :: t := by
        have : d ∈ (c :: t).reverse := by rw [hr]; simp
        exact List.mem_reverse.mp this
      exact spaceLenRev_plain (hp d this) r

end GoDebian.Lemmas.Str
