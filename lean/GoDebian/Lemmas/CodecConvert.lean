/-
  C09 lemmas, part 2: `convertToParagraph` as "what each field emits", and totality of the
  marshalling walker.  Core Lean only.
-/
import GoDebian.Model.Codec
import GoDebian.Spec.Codec
import GoDebian.Lemmas.CodecPara

namespace GoDebian.Lemmas.Codec
open GoDebian GoDebian.Deb822 GoDebian.Codec

/-! ### collecting results -/

/-- `mapM` for `Res`, by plain recursion -/
def mapRes {α β : Type} (g : α → Res β) : List α → Res (List β)
  | [] => .ok []
  | a :: l =>
    match g a with
    | .error e => .error e
    | .ok b =>
      match mapRes g l with
      | .error e => .error e
      | .ok bs => .ok (b :: bs)

theorem mapRes_cons_error {α β : Type} {g : α → Res β} {a : α} {e : Err} (h : g a = .error e)
    (l : List α) : mapRes g (a :: l) = .error e := by
  simp [mapRes, h]

theorem mapRes_cons_ok {α β : Type} {g : α → Res β} {a : α} {b : β} (h : g a = .ok b)
    (l : List α) : mapRes g (a :: l) = (mapRes g l).map (fun bs => b :: bs) := by
  simp only [mapRes, h]
  cases mapRes g l <;> rfl

theorem foldlM_collect {α β : Type} (g : α → Res β) (l : List α) (init : List β) :
    l.foldlM (fun acc v => (g v).map (fun b => acc ++ [b])) init =
      (mapRes g l).map (fun bs => init ++ bs) := by
  induction l generalizing init with
  | nil => simp [mapRes, Except.map, pure, Except.pure]
  | cons a l ih =>
    rw [List.foldlM_cons]
    cases h : g a with
    | error e => rw [mapRes_cons_error h]; rfl
    | ok b =>
      rw [mapRes_cons_ok h]
      show l.foldlM _ (init ++ [b]) = _
      rw [ih]
      cases mapRes g l <;> simp [Except.map]

theorem mapRes_error {α β : Type} {g : α → Res β} {l : List α} {e : Err}
    (h : mapRes g l = .error e) : ∃ a ∈ l, g a = .error e := by
  induction l with
  | nil => simp [mapRes] at h
  | cons a l ih =>
    cases ha : g a with
    | error e' =>
      rw [mapRes_cons_error ha] at h
      exact ⟨a, List.mem_cons_self, by cases h; exact ha⟩
    | ok b =>
      rw [mapRes_cons_ok ha] at h
      cases hl : mapRes g l with
      | error e' =>
        rw [hl] at h
        obtain ⟨x, hx, hg⟩ := ih (by rw [hl]; exact h)
        exact ⟨x, List.mem_cons_of_mem _ hx, hg⟩
      | ok bs => rw [hl] at h; cases h

/-- two lists related position by position -/
inductive All₂ {α β : Type} (R : α → β → Prop) : List α → List β → Prop
  | nil : All₂ R [] []
  | cons {a b l bs} : R a b → All₂ R l bs → All₂ R (a :: l) (b :: bs)

theorem mapRes_ok {α β : Type} {g : α → Res β} {l : List α} {bs : List β}
    (h : mapRes g l = .ok bs) : All₂ (fun a b => g a = .ok b) l bs := by
  induction l generalizing bs with
  | nil => simp [mapRes] at h; subst h; exact .nil
  | cons a l ih =>
    cases ha : g a with
    | error e' => rw [mapRes_cons_error ha] at h; cases h
    | ok b =>
      rw [mapRes_cons_ok ha] at h
      cases hl : mapRes g l with
      | error e' => rw [hl] at h; cases h
      | ok bs' =>
        rw [hl] at h
        cases h
        exact .cons ha (ih hl)

theorem mapRes_of_all₂ {α β : Type} {g : α → Res β} {l : List α} {bs : List β}
    (h : All₂ (fun a b => g a = .ok b) l bs) : mapRes g l = .ok bs := by
  induction h with
  | nil => rfl
  | cons ha _ ih => rw [mapRes_cons_ok ha, ih]; rfl

theorem all₂_mem_left {α β : Type} {R : α → β → Prop} {l : List α} {bs : List β}
    (h : All₂ R l bs) {a : α} (ha : a ∈ l) : ∃ b ∈ bs, R a b := by
  induction h with
  | nil => cases ha
  | cons hr _ ih =>
    rcases List.mem_cons.mp ha with rfl | ha
    · exact ⟨_, List.mem_cons_self, hr⟩
    · obtain ⟨b, hb, hr'⟩ := ih ha
      exact ⟨b, List.mem_cons_of_mem _ hb, hr'⟩

theorem all₂_mem_right {α β : Type} {R : α → β → Prop} {l : List α} {bs : List β}
    (h : All₂ R l bs) {b : β} (hb : b ∈ bs) : ∃ a ∈ l, R a b := by
  induction h with
  | nil => cases hb
  | cons hr _ ih =>
    rcases List.mem_cons.mp hb with rfl | hb
    · exact ⟨_, List.mem_cons_self, hr⟩
    · obtain ⟨a, ha, hr'⟩ := ih hb
      exact ⟨a, List.mem_cons_of_mem _ ha, hr'⟩

theorem all₂_length {α β : Type} {R : α → β → Prop} {l : List α} {bs : List β}
    (h : All₂ R l bs) : l.length = bs.length := by
  induction h with
  | nil => rfl
  | cons _ _ ih => simp [ih]

/-! ### what one field emits -/

abbrev St := Paragraph × List Bytes × List (Bytes × Bytes) × List Bytes

/-- the loop body of `convertToParagraph` -/
def cstep (acc : Res St) (fv : FieldDesc × Val) : Res St :=
  match acc with
  | .error e => .error e
  | .ok (found, order, values, omitted) =>
    let (f, v) := fv
    if f.anonymous then
      (match f.kind, v with
       | .para, .para p => .ok (p, order, values, omitted)
       | .para, _ => .ok (Deb822.empty, order, values, omitted)
       | _, _ => .ok (found, order, values, omitted))
    else if f.key = [45] then .ok (found, order, values, omitted)
    else match marshalValue 16 f.kind f.delim v with
      | .error e => .error e
      | .ok data =>
        if data.isEmpty && !f.required then .ok (found, order, values, omitted ++ [f.key])
        else
          let data := if f.multiline then 10 :: data else data
          .ok (found, order ++ [f.key], insert f.key data values, omitted)

/-- the paragraph assembled at the end -/
def finish (st : St) : Paragraph :=
  (st.1.order.foldl (fun b k =>
    if st.2.2.2.contains k then b else b.set k (st.1.get k)) Deb822.empty).update ⟨st.2.1, st.2.2.1⟩

theorem convert_eq (s : Schema) (r : List Val) :
    convertToParagraph s r =
      ((s.zip r).foldl cstep (.ok (Deb822.empty, [], [], []))).map finish := by
  have key : ∀ x : Res St, (match x with
      | .error e => (.error e : Res Paragraph)
      | .ok (found, order, values, omitted) =>
        .ok ((found.order.foldl (fun b k =>
          if omitted.contains k then b else b.set k (found.get k)) Deb822.empty).update
            ⟨order, values⟩)) = x.map finish := by
    intro x
    cases x with
    | error e => rfl
    | ok st => obtain ⟨a, b, c, d⟩ := st; rfl
  exact key _

/-- what one field contributes to the paragraph -/
inductive Emit where
  | none                              -- skipped ("-"), or anonymous and not a Paragraph
  | found (p : Paragraph)             -- the embedded Paragraph
  | omit (k : Bytes)                  -- optional field with an empty rendering
  | write (k data : Bytes)

def emit (fv : FieldDesc × Val) : Res Emit :=
  if fv.1.anonymous then
    (match fv.1.kind, fv.2 with
     | .para, .para p => .ok (.found p)
     | .para, _ => .ok (.found Deb822.empty)
     | _, _ => .ok .none)
  else if fv.1.key = [45] then .ok .none
  else match marshalValue 16 fv.1.kind fv.1.delim fv.2 with
    | .error e => .error e
    | .ok data =>
      if data.isEmpty && !fv.1.required then .ok (.omit fv.1.key)
      else .ok (.write fv.1.key (if fv.1.multiline then 10 :: data else data))

def applyEmit (st : St) : Emit → St
  | .none => st
  | .found p => (p, st.2.1, st.2.2.1, st.2.2.2)
  | .omit k => (st.1, st.2.1, st.2.2.1, st.2.2.2 ++ [k])
  | .write k d => (st.1, st.2.1 ++ [k], insert k d st.2.2.1, st.2.2.2)

theorem cstep_ok (st : St) (fv : FieldDesc × Val) :
    cstep (.ok st) fv = (emit fv).map (applyEmit st) := by
  obtain ⟨found, order, values, omitted⟩ := st
  obtain ⟨f, v⟩ := fv
  unfold cstep emit
  simp only
  split
  · split <;> rfl
  · split
    · rfl
    · split
      · rfl
      · split <;> rfl

theorem foldl_cstep_error (e : Err) (l : List (FieldDesc × Val)) :
    l.foldl cstep (.error e) = .error e := by
  induction l with
  | nil => rfl
  | cons a l ih => exact ih

theorem foldl_cstep (l : List (FieldDesc × Val)) (st : St) :
    l.foldl cstep (.ok st) = (mapRes emit l).map (fun es => es.foldl applyEmit st) := by
  induction l generalizing st with
  | nil => rfl
  | cons a l ih =>
    rw [List.foldl_cons, cstep_ok]
    unfold mapRes
    cases ha : emit a with
    | error e => simp [Except.map, foldl_cstep_error]
    | ok x =>
      simp only [Except.map]
      rw [ih]
      cases mapRes emit l <;> simp [Except.map]

/-! ### the state after a list of emissions -/

def writes : List Emit → List (Bytes × Bytes)
  | [] => []
  | .write k d :: es => (k, d) :: writes es
  | _ :: es => writes es

def omits : List Emit → List Bytes
  | [] => []
  | .omit k :: es => k :: omits es
  | _ :: es => omits es

def lastFound (p : Paragraph) : List Emit → Paragraph
  | [] => p
  | .found q :: es => lastFound q es
  | _ :: es => lastFound p es

def insertAll (ws : List (Bytes × Bytes)) (vs : List (Bytes × Bytes)) : List (Bytes × Bytes) :=
  ws.foldl (fun acc w => insert w.1 w.2 acc) vs

theorem foldl_applyEmit (es : List Emit) (st : St) :
    es.foldl applyEmit st =
      (lastFound st.1 es, st.2.1 ++ (writes es).map Prod.fst, insertAll (writes es) st.2.2.1,
        st.2.2.2 ++ omits es) := by
  induction es generalizing st with
  | nil => simp [lastFound, writes, omits, insertAll]
  | cons e es ih =>
    rw [List.foldl_cons, ih]
    cases e <;> simp [applyEmit, lastFound, writes, omits, insertAll]

theorem mem_writes {k d : Bytes} {es : List Emit} : (k, d) ∈ writes es ↔ Emit.write k d ∈ es := by
  induction es with
  | nil => simp [writes]
  | cons e es ih => cases e <;> simp [writes, ih]

theorem mem_omits {k : Bytes} {es : List Emit} : k ∈ omits es ↔ Emit.omit k ∈ es := by
  induction es with
  | nil => simp [omits]
  | cons e es ih => cases e <;> simp [omits, ih]

theorem lookup_insertAll_none {k : Bytes} {ws : List (Bytes × Bytes)} (h : ∀ d, (k, d) ∉ ws)
    (vs : List (Bytes × Bytes)) : lookup k (insertAll ws vs) = lookup k vs := by
  induction ws generalizing vs with
  | nil => rfl
  | cons w ws ih =>
    obtain ⟨k', d'⟩ := w
    show lookup k (insertAll ws (insert k' d' vs)) = _
    rw [ih (fun d hd => h d (List.mem_cons_of_mem _ hd)), lookup_insert]
    have : ¬ k' = k := fun e => h d' (by rw [← e]; exact List.mem_cons_self)
    simp [this]

theorem lookup_insertAll_some {k d : Bytes} {ws : List (Bytes × Bytes)} (hm : (k, d) ∈ ws)
    (hu : ∀ d', (k, d') ∈ ws → d' = d) (vs : List (Bytes × Bytes)) :
    lookup k (insertAll ws vs) = some d := by
  induction ws generalizing vs with
  | nil => cases hm
  | cons w ws ih =>
    obtain ⟨k', d'⟩ := w
    show lookup k (insertAll ws (insert k' d' vs)) = _
    by_cases hin : (k, d) ∈ ws
    · exact ih hin (fun d'' h => hu d'' (List.mem_cons_of_mem _ h)) _
    · have hhead : (k, d) = (k', d') := by
        rcases List.mem_cons.mp hm with h | h
        · exact h
        · exact absurd h hin
      cases hhead
      rw [lookup_insertAll_none, lookup_insert]
      · simp
      · intro d'' h
        have := hu d'' (List.mem_cons_of_mem _ h)
        subst this
        exact hin h

/-! ### the base paragraph: the embedded one minus the omitted fields -/

def KeysListed (p : Paragraph) : Prop := ∀ k, (lookup k p.values).isSome → k ∈ p.order

def baseOf (found : Paragraph) (omitted : List Bytes) : Paragraph :=
  found.order.foldl (fun b k =>
    if omitted.contains k then b else b.set k (found.get k)) Deb822.empty

theorem base_fold' (found : Paragraph) (om : List Bytes) (l : List Bytes) (b : Paragraph)
    (hinv : ∀ k, k ∈ b.order ↔ (lookup k b.values).isSome) :
    let b' := l.foldl (fun b k => if om.contains k then b else b.set k (found.get k)) b
    (∀ k, k ∈ b'.order ↔ (lookup k b'.values).isSome) ∧
    (∀ k, lookup k b'.values =
      if k ∈ l ∧ k ∉ om then some (found.get k) else lookup k b.values) ∧
    (l.Nodup → (∀ k ∈ l, k ∉ b.order) → b'.order = b.order ++ l.filter (fun k => !om.contains k)) := by
  induction l generalizing b with
  | nil => simp [hinv]
  | cons el l ih =>
    simp only [List.foldl_cons]
    by_cases hom : el ∈ om
    · have hc : om.contains el = true := by simpa using hom
      simp only [hc, if_true]
      obtain ⟨h1, h2, h3⟩ := ih b hinv
      refine ⟨h1, fun k => ?_, fun hnd hdis => ?_⟩
      · rw [h2]
        by_cases hk : k = el
        · subst hk; simp [hom]
        · simp [hk]
      · rw [h3 (List.nodup_cons.mp hnd).2 (fun k hk => hdis k (List.mem_cons_of_mem _ hk))]
        simp [hom]
    · have hc : om.contains el = false := by simpa using hom
      simp only [hc, Bool.false_eq_true, if_false]
      have hinv' : ∀ k, k ∈ (b.set el (found.get el)).order ↔
          (lookup k (b.set el (found.get el)).values).isSome := by
        intro k
        rw [order_set, lookup_set]
        by_cases hk : el = k
        · subst hk
          cases hl : lookup el b.values with
          | none => simp
          | some x => simp [(hinv el).mpr (by simp [hl])]
        · have hk' : ¬ k = el := fun e => hk e.symm
          cases hl : lookup el b.values <;> simp [hk, hk', hinv k]
      obtain ⟨h1, h2, h3⟩ := ih (b.set el (found.get el)) hinv'
      refine ⟨h1, fun k => ?_, fun hnd hdis => ?_⟩
      · rw [h2, lookup_set]
        by_cases hk : k = el
        · subst hk
          by_cases hkl : k ∈ l <;> simp [hom, hkl]
        · have hk' : ¬ el = k := fun e => hk e.symm
          simp [hk, hk']
      · have hel : el ∉ b.order := hdis el List.mem_cons_self
        have hnone : lookup el b.values = none := by
          cases hl : lookup el b.values with
          | none => rfl
          | some x => exact absurd ((hinv el).mpr (by simp [hl])) hel
        have hord : (b.set el (found.get el)).order = b.order ++ [el] := by
          rw [order_set, hnone]; rfl
        rw [h3 (List.nodup_cons.mp hnd).2 ?_, hord]
        · simp [hom]
        · intro k hk
          rw [hord, List.mem_append, List.mem_singleton]
          rintro (h | h)
          · exact hdis k (List.mem_cons_of_mem _ hk) h
          · subst h; exact (List.nodup_cons.mp hnd).1 hk

theorem lookup_baseOf (found : Paragraph) (om : List Bytes) (k : Bytes) :
    lookup k (baseOf found om).values =
      if k ∈ found.order ∧ k ∉ om then some (found.get k) else none := by
  have := (base_fold' found om found.order Deb822.empty (by simp [Deb822.empty, lookup])).2.1 k
  unfold baseOf
  simpa [Deb822.empty, lookup] using this

theorem mem_order_baseOf (found : Paragraph) (om : List Bytes) (k : Bytes) :
    k ∈ (baseOf found om).order ↔ k ∈ found.order ∧ k ∉ om := by
  have h := (base_fold' found om found.order Deb822.empty (by simp [Deb822.empty, lookup])).1 k
  show k ∈ (baseOf found om).order ↔ _
  unfold baseOf
  rw [h]
  have := lookup_baseOf found om k
  unfold baseOf at this
  rw [this]
  by_cases hc : k ∈ found.order ∧ k ∉ om <;> simp [hc]

theorem order_baseOf (found : Paragraph) (om : List Bytes) (hnd : found.order.Nodup) :
    (baseOf found om).order = found.order.filter (fun k => !om.contains k) := by
  have := (base_fold' found om found.order Deb822.empty (by simp [Deb822.empty, lookup])).2.2 hnd
    (by simp [Deb822.empty])
  unfold baseOf
  simpa [Deb822.empty] using this

/-! ### `convertToParagraph`, summed up -/

theorem convert_spec {s : Schema} {r : List Val} {p : Paragraph}
    (h : convertToParagraph s r = .ok p) :
    ∃ es, mapRes emit (s.zip r) = .ok es ∧
      p = (baseOf (lastFound Deb822.empty es) (omits es)).update
        ⟨(writes es).map Prod.fst, insertAll (writes es) []⟩ := by
  rw [convert_eq, foldl_cstep] at h
  cases hes : mapRes emit (s.zip r) with
  | error e => rw [hes] at h; cases h
  | ok es =>
    rw [hes] at h
    simp only [Except.map, foldl_applyEmit] at h
    cases h
    exact ⟨es, rfl, by simp [finish, baseOf]⟩

theorem convert_error {s : Schema} {r : List Val} {e : Err}
    (h : convertToParagraph s r = .error e) :
    ∃ fv ∈ s.zip r, fv.1.anonymous = false ∧ fv.1.key ≠ [45] ∧
      marshalValue 16 fv.1.kind fv.1.delim fv.2 = .error e := by
  rw [convert_eq, foldl_cstep] at h
  cases hes : mapRes emit (s.zip r) with
  | ok es => rw [hes] at h; cases h
  | error e' =>
    rw [hes] at h
    simp only [Except.map] at h
    cases h
    obtain ⟨fv, hfv, hem⟩ := mapRes_error hes
    refine ⟨fv, hfv, ?_⟩
    unfold emit at hem
    by_cases h1 : fv.1.anonymous = true
    · rw [if_pos h1] at hem; split at hem <;> cases hem
    · rw [if_neg h1] at hem
      by_cases h2 : fv.1.key = [45]
      · rw [if_pos h2] at hem; cases hem
      · rw [if_neg h2] at hem
        cases hm : marshalValue 16 fv.1.kind fv.1.delim fv.2 with
        | error e'' =>
          rw [hm] at hem
          dsimp only at hem
          cases hem
          exact ⟨by simpa using h1, h2, rfl⟩
        | ok data =>
          rw [hm] at hem
          dsimp only at hem
          split at hem <;> cases hem

end GoDebian.Lemmas.Codec
