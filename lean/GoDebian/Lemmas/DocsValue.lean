/-
  C10 lemmas, part 3: the bridge from an extracted struct field to its descriptor, and the
  decoding theorem for one field value of any shape.  Core Lean only.
-/
import GoDebian.Spec.DocsValue
import GoDebian.Lemmas.DocsDecode
import GoDebian.Lemmas.DepGrammarTop
import GoDebian.Lemmas.Res
import GoDebian.Lemmas.VersionParse

namespace GoDebian.Lemmas.Docs
open GoDebian GoDebian.Str GoDebian.Codec GoDebian.Spec.Codec GoDebian.Spec.DocsValue
open GoDebian.Spec.Docs GoDebian.Extracted.Schemas
open GoDebian.Spec.Deb822 (expectedValue)

/-! ### the bridge -/

theorem toDesc_some {f' : Field} {f : FieldDesc} (h : toDesc f' = some f) :
    ∃ k, toKind f'.kind = some k ∧
      f = .mk f'.name (Bytes.ofString f'.key) k (Bytes.ofString f'.delim)
        (Bytes.ofString f'.strip) f'.required false f'.anonymous := by
  unfold toDesc at h
  cases hk : toKind f'.kind with
  | none => rw [hk] at h; cases h
  | some k =>
    rw [hk] at h
    simp only [Option.map_some, Option.some.injEq] at h
    exact ⟨k, rfl, h.symm⟩

theorem toKind_str : toKind "str" = some .str := rfl
theorem toKind_int : toKind "int" = some .int := rfl
theorem toKind_bool : toKind "bool" = some .bool := rfl
theorem toKind_version : toKind "cust:Version" = some (.custom "Version") := rfl
theorem toKind_arch : toKind "cust:Arch" = some (.custom "Arch") := rfl
theorem toKind_dep : toKind "cust:Dependency" = some (.custom "Dependency") := rfl
theorem toKind_archs : toKind "slice:cust:Arch" = some (.slice (.custom "Arch")) := rfl
theorem toKind_strs : toKind "slice:str" = some (.slice .str) := rfl
theorem toKind_changes : toKind "slice:cust:FileListChangesFileHash" =
    some (.slice (.custom "FileListChangesFileHash")) := rfl

theorem toKind_hash {alg : String} (h : knownAlg alg) :
    toKind ("slice:cust:" ++ hashType alg) = some (.slice (.custom (hashType alg))) := by
  rcases h with rfl | rfl | rfl | rfl <;> rfl

theorem ofString_empty : Bytes.ofString "" = [] := by decide +kernel
theorem ofString_blank : Bytes.ofString " " = [32] := by decide +kernel
theorem ofString_comma : Bytes.ofString "," = [44] := by decide +kernel
theorem ofString_nl : Bytes.ofString "\n" = [10] := by decide +kernel

theorem delimOf_blank {d : String} (h : d = "" ∨ d = " ") : delimOf (Bytes.ofString d) = [32] := by
  rcases h with rfl | rfl
  · rw [ofString_empty]; rfl
  · rw [ofString_blank]; rfl

theorem stripFits_all {sh : Shape} {strip : Bytes} (h : stripFits sh strip = true) :
    strip.all isWs = true := by
  simp only [stripFits, Bool.and_eq_true] at h
  exact h.1

open GoDebian.Lemmas.Res in
instance instDecidableWfValue : (v : DocValue) → Decidable (wfValue v)
  | .scalar _ _ => inferInstanceAs (Decidable True)
  | .int i => inferInstanceAs (Decidable (-(2^63 : Int) ≤ i ∧ i < 2^63))
  | .bool _ => inferInstanceAs (Decidable True)
  | .version t v => inferInstanceAs (Decidable (Version.parse t = .ok v))
  | .arch t a => inferInstanceAs (Decidable (Dep.parseArch t = .ok a))
  | .archList items =>
    inferInstanceAs (Decidable (∀ x ∈ items, wfWord x.1 = true ∧ Dep.parseArch x.1 = .ok x.2))
  | .dep d => inferInstanceAs (Decidable (Spec.Dependency.wfDep d = true))
  | .commaList items => inferInstanceAs (Decidable (∀ x ∈ items, wfItem x = true))
  | .spaceList items => inferInstanceAs (Decidable (∀ x ∈ items, wfWord x = true))
  | .hashList alg es =>
    inferInstanceAs (Decidable ((alg = "md5" ∨ alg = "sha1" ∨ alg = "sha256" ∨ alg = "sha512") ∧
      ∀ e ∈ es, wfWord e.hash = true ∧ wfWord e.name = true ∧
        (-(2^63 : Int) ≤ e.size ∧ e.size < 2^63)))
  | .changesFiles es =>
    inferInstanceAs (Decidable (∀ e ∈ es, wfWord e.hash = true ∧ wfWord e.name = true ∧
      wfWord e.component = true ∧ wfWord e.priority = true ∧
        (-(2^63 : Int) ≤ e.size ∧ e.size < 2^63)))

/-- `wfModel`, decidably -/
def wfModelB (spec : List Req) (m : DocModel) : Bool :=
  spec.all (fun r =>
    match m r.deb with
    | some (v, _) => decide (shapeOf v = r.shape) && decide (wfValue v)
    | none => true)

theorem wfModel_of_B {spec : List Req} {m : DocModel} (h : wfModelB spec m = true) :
    wfModel spec m := by
  intro r hr v l hm
  have := List.all_eq_true.mp h r hr
  rw [hm] at this
  simpa using this

/-- the strings of a decoded list of strings (to tell two results apart by `decide`) -/
def strsOf : Res Val → Option (List Bytes)
  | .ok (.list vs) => some (vs.filterMap (fun v => match v with | .str b => some b | _ => none))
  | _ => none

/-! ### one field value -/

theorem decode_value (r : Req) (f' : Field) (f : FieldDesc) (v : DocValue) (l : Layout)
    (hok : fieldOK r f' = true) (hd : toDesc f' = some f)
    (hstrip : stripFits r.shape f.strip = true) (hshape : shapeOf v = r.shape)
    (hwf : wfValue v) :
    decodeValue 16 f.kind f.delim f.strip .zero (valueText v l) = .ok (view v) := by
  obtain ⟨k, hk, rfl⟩ := toDesc_some hd
  simp only [FieldDesc.kind, FieldDesc.delim, FieldDesc.strip] at hstrip ⊢
  have hs := stripFits_all hstrip
  unfold fieldOK at hok
  rw [← hshape] at hok hstrip
  cases v with
  | scalar first conts =>
    simp only [shapeOf, Bool.and_eq_true, beq_iff_eq] at hok
    rw [hok.2, toKind_str] at hk
    cases hk
    exact decode_str _ _ _
  | int i =>
    simp only [shapeOf, Bool.and_eq_true, beq_iff_eq] at hok
    rw [hok.2, toKind_int] at hk
    cases hk
    exact decode_int hwf _ _
  | bool b =>
    simp only [shapeOf, Bool.and_eq_true, beq_iff_eq] at hok
    rw [hok.2, toKind_bool] at hk
    cases hk
    exact decode_bool b _ _
  | version t ver =>
    simp only [shapeOf, Bool.and_eq_true, beq_iff_eq] at hok
    rw [hok.2, toKind_version] at hk
    cases hk
    exact decode_custom _ _ _ _ _ _ (decodeCustom_version hwf)
  | arch t a =>
    simp only [shapeOf, Bool.and_eq_true, beq_iff_eq] at hok
    rw [hok.2, toKind_arch] at hk
    cases hk
    exact decode_custom _ _ _ _ _ _ (decodeCustom_arch hwf)
  | dep d =>
    simp only [shapeOf, Bool.and_eq_true, beq_iff_eq] at hok
    rw [hok.2, toKind_dep] at hk
    cases hk
    exact decode_custom _ _ _ _ _ _
      (decodeCustom_dep (Lemmas.DepGrammarTop.parse_render d l hwf))
  | archList items =>
    simp only [shapeOf, Bool.and_eq_true, Bool.or_eq_true, beq_iff_eq] at hok
    rw [hok.2.1, toKind_archs] at hk
    cases hk
    exact decode_words (fun x : Bytes × Dep.Arch => x.1) (fun x => .custom (.arch x.2)) _ _ _
      (delimOf_blank hok.2.2) hs items (fun x hx => (hwf x hx).1)
      (fun x hx => decode_custom _ _ _ _ _ _ (decodeCustom_arch (hwf x hx).2)) l []
  | spaceList items =>
    simp only [shapeOf, Bool.and_eq_true, Bool.or_eq_true, beq_iff_eq] at hok
    rw [hok.2.1, toKind_strs] at hk
    cases hk
    have := decode_words (fun x : Bytes => x) Val.str .str _ _
      (delimOf_blank hok.2.2) hs items hwf (fun x _ => by simp [decodeValue]) l []
    rw [List.map_id'] at this
    exact this
  | commaList items =>
    simp only [shapeOf, Bool.and_eq_true, beq_iff_eq] at hok
    rw [hok.2.1.1, toKind_strs] at hk
    cases hk
    simp only [stripFits, shapeOf, Bool.and_eq_true] at hstrip
    rw [hok.2.1.2, ofString_comma]
    exact decode_commas _ hs hstrip.2.1 hstrip.2.2 items hwf l []
  | hashList alg es =>
    simp only [shapeOf, Bool.and_eq_true, beq_iff_eq] at hok
    rw [hok.2.1.1, toKind_hash hwf.1] at hk
    cases hk
    simp only [stripFits, shapeOf, Bool.and_eq_true] at hstrip
    rw [hok.2.1.2, ofString_nl]
    exact decode_lines hashLine (hashView alg) _ _ hstrip.2.1 es
      (fun e he => hashLine_ok hs (hwf.2 e he))
      (fun e he => decode_hashLine hwf.1 (hwf.2 e he) _ _) (odd l) []
  | changesFiles es =>
    simp only [shapeOf, Bool.and_eq_true, beq_iff_eq] at hok
    rw [hok.2.1.1, toKind_changes] at hk
    cases hk
    simp only [stripFits, shapeOf, Bool.and_eq_true] at hstrip
    rw [hok.2.1.2, ofString_nl]
    exact decode_lines changesLine changesView _ _ hstrip.2.1 es
      (fun e he => changesLine_ok hs (hwf e he))
      (fun e he => decode_changesLine (hwf e he) _ _) (odd l) []

end GoDebian.Lemmas.Docs
