/-
  C10 lemmas, part 1: the text of a list value in any layout — logical lines joined by
  newlines are the items joined by per-item separators (`tailJoin`); `fields` and `split`
  on such texts; white-space facts about tokens.  Core Lean only.
-/
import GoDebian.Spec.DocsValue
import GoDebian.Lemmas.CodecStr
import GoDebian.Lemmas.ChangelogStr

namespace GoDebian.Lemmas.Docs
open GoDebian GoDebian.Str GoDebian.Spec.DocsValue
open GoDebian.Lemmas.Str GoDebian.Lemmas.Deb822WriteStr GoDebian.Lemmas.Codec
open GoDebian.Lemmas.Changelog (HeadOK LastOK trimSet_of_ends trimSet_cons_mem trimSet_snoc_mem
  headOK_of_all lastOK_of_all headOK_append lastOK_append joinWith_ends mem_joinWith)
open GoDebian.Spec.Deb822 (expectedValue)

/-! ### logical lines -/

/-- the items after the first, each preceded by its separator: `brk` where the layout
    ends the line, `same` otherwise -/
def tailJoin (same brk : Bytes) : List Bytes → Layout → Bytes
  | [], _ => []
  | y :: rest, l => (if odd l then brk else same) ++ y ++ tailJoin same brk rest l.tail

theorem linesAux_ne_nil (same eol cur : Bytes) (rest : List Bytes) (l : Layout) :
    linesAux same eol cur rest l ≠ [] := by
  induction rest generalizing cur l with
  | nil => simp [linesAux]
  | cons y rest ih =>
    rw [linesAux]
    split
    · simp
    · exact ih _ _

theorem joinWith_cons_of_ne (sep a : Bytes) {L : List Bytes} (h : L ≠ []) :
    joinWith sep (a :: L) = a ++ sep ++ joinWith sep L := by
  cases L with
  | nil => exact absurd rfl h
  | cons b L => rfl

theorem joinWith_linesAux (same eol cur : Bytes) (rest : List Bytes) (l : Layout) :
    joinWith [10] (linesAux same eol cur rest l) = cur ++ tailJoin same (eol ++ [10]) rest l := by
  induction rest generalizing cur l with
  | nil => simp [linesAux, tailJoin, joinWith]
  | cons y rest ih =>
    rw [linesAux, tailJoin]
    by_cases ho : odd l = true
    · rw [if_pos ho, if_pos ho, joinWith_cons_of_ne _ _ (linesAux_ne_nil _ _ _ _ _), ih]
      simp [List.append_assoc]
    · rw [if_neg ho, if_neg ho, ih]
      simp [List.append_assoc]

theorem head_linesAux (same eol cur : Bytes) (rest : List Bytes) (l : Layout) (hc : cur ≠ []) :
    (linesAux same eol cur rest l).headD [] ≠ [] := by
  induction rest generalizing cur l with
  | nil => simpa [linesAux] using hc
  | cons y rest ih =>
    rw [linesAux]
    split
    · simp [hc]
    · exact ih _ _ (by simp [hc])

theorem flatten_nl (lines : List Bytes) (hne : lines ≠ []) :
    (lines.map (· ++ [10])).flatten = joinWith [10] lines ++ [10] := by
  induction lines with
  | nil => exact absurd rfl hne
  | cons a L ih =>
    cases L with
    | nil => simp [joinWith]
    | cons b L =>
      rw [List.map_cons, List.flatten_cons, ih (by simp),
        joinWith_cons_of_ne [10] a (L := b :: L) (by simp)]
      simp [List.append_assoc]

/-- the reader's value of a field given by its logical lines: the lines joined by
    newlines, with a final newline unless everything is on the field's own line -/
theorem expectedValue_lines (name : Bytes) (fe : Bool) (lines : List Bytes) (hne : lines ≠ [])
    (hh : lines.headD [] ≠ []) :
    ∃ t, (t = [] ∨ t = [10]) ∧
      expectedValue ⟨name, (partsOfLines fe lines).1, (partsOfLines fe lines).2⟩ =
        joinWith [10] lines ++ t := by
  cases lines with
  | nil => exact absurd rfl hne
  | cons a L =>
    have ha : a ≠ [] := by simpa using hh
    cases fe with
    | true =>
      refine ⟨[10], Or.inr rfl, ?_⟩
      simp only [partsOfLines, if_true, expectedValue, List.isEmpty_cons, Bool.false_eq_true,
        if_false, List.isEmpty_nil, List.nil_append]
      exact flatten_nl _ (by simp)
    | false =>
      cases L with
      | nil =>
        refine ⟨[], Or.inl rfl, ?_⟩
        simp [partsOfLines, expectedValue, joinWith]
      | cons b L =>
        refine ⟨[10], Or.inr rfl, ?_⟩
        have hae : a.isEmpty = false := by cases a with | nil => exact absurd rfl ha | cons => rfl
        simp only [partsOfLines, Bool.false_eq_true, if_false, List.headD_cons, List.tail_cons,
          expectedValue, List.isEmpty_cons, hae]
        rw [flatten_nl _ (by simp), joinWith_cons_of_ne [10] a (L := b :: L) (by simp)]
        simp [List.append_assoc]

theorem expectedValue_no_lines (name : Bytes) (fe : Bool) :
    expectedValue ⟨name, (partsOfLines fe []).1, (partsOfLines fe []).2⟩ = [] := by
  cases fe <;> simp [partsOfLines, expectedValue]

/-- the value of a grouped list: first item, the others with their separators, and a final
    newline unless everything is on the field's own line -/
theorem expectedValue_group (name : Bytes) (fe : Bool) (same eol x : Bytes) (rest : List Bytes)
    (l : Layout) (hx : x ≠ []) :
    ∃ t, (t = [] ∨ t = [10]) ∧
      expectedValue ⟨name, (partsOfLines fe (groupLines same eol (x :: rest) l)).1,
          (partsOfLines fe (groupLines same eol (x :: rest) l)).2⟩ =
        x ++ tailJoin same (eol ++ [10]) rest l ++ t := by
  obtain ⟨t, ht, h⟩ := expectedValue_lines name fe (groupLines same eol (x :: rest) l)
    (linesAux_ne_nil _ _ _ _ _) (head_linesAux _ _ _ _ _ hx)
  refine ⟨t, ht, ?_⟩
  rw [h]
  simp only [groupLines]
  rw [joinWith_linesAux]

/-! ### white space -/

theorem isWs_iff {c : Nat} : isWs c = true ↔ c = 9 ∨ c = 10 ∨ c = 13 ∨ c = 32 := by
  simp [isWs, or_assoc]

theorem spaceLen_of_isWs {c : Nat} (h : isWs c = true) (r : Bytes) : spaceLen (c :: r) = 1 := by
  rcases isWs_iff.mp h with rfl | rfl | rfl | rfl <;> rfl

theorem isWs_lt {c : Nat} (h : isWs c = true) : c < 128 := by
  rcases isWs_iff.mp h with rfl | rfl | rfl | rfl <;> omega

theorem not_isWs_of_spaceLen {c : Nat} {r : Bytes} (h : spaceLen (c :: r) = 0) : isWs c = false := by
  cases hw : isWs c with
  | false => rfl
  | true => rw [spaceLen_of_isWs hw] at h; cases h

theorem spaceLenRev_of_isWs {c : Nat} (h : isWs c = true) (r : Bytes) : spaceLenRev (c :: r) = 1 := by
  rcases isWs_iff.mp h with rfl | rfl | rfl | rfl <;> rfl

theorem not_isWs_of_spaceLenRev {c : Nat} {r : Bytes} (h : spaceLenRev (c :: r) = 0) :
    isWs c = false := by
  cases hw : isWs c with
  | false => rfl
  | true => rw [spaceLenRev_of_isWs hw] at h; cases h

/-- a token without white-space runes has no blank, tab, CR or LF -/
theorem not_isWs_of_mem {d : Bytes} (h : hasSpaceRune d = false) : ∀ c ∈ d, isWs c = false := by
  induction d with
  | nil => simp
  | cons a d ih =>
    obtain ⟨h0, h1⟩ := hasSpaceRune_cons.mp h
    intro c hc
    rcases List.mem_cons.mp hc with rfl | hc
    · exact not_isWs_of_spaceLen h0
    · exact ih h1 c hc

theorem not_contains_of_not_isWs {strip : Bytes} (hs : strip.all isWs = true) {c : Nat}
    (h : isWs c = false) : strip.contains c = false := by
  cases hc : strip.contains c with
  | false => rfl
  | true =>
    have := List.all_eq_true.mp hs c (by simpa using hc)
    rw [h] at this; cases this

theorem word_ends {strip d : Bytes} (hs : strip.all isWs = true) (h : hasSpaceRune d = false) :
    HeadOK strip d ∧ LastOK strip d :=
  ⟨headOK_of_all (fun c hc => not_contains_of_not_isWs hs (not_isWs_of_mem h c hc)),
   lastOK_of_all (fun c hc => not_contains_of_not_isWs hs (not_isWs_of_mem h c hc))⟩

theorem not_mem_of_word {d : Bytes} (h : hasSpaceRune d = false) {c : Nat} (hc : isWs c = true) :
    c ∉ d := fun hm => by
  have := not_isWs_of_mem h c hm
  rw [hc] at this; cases this

/-- a trimmed text starts and ends outside a white-space strip set -/
theorem trimmed_ends {strip d : Bytes} (hs : strip.all isWs = true)
    (h : Spec.Deb822.trimmed d = true) : HeadOK strip d ∧ LastOK strip d := by
  have ht : Trimmed d := trimmed_of_fixed (by simpa [Spec.Deb822.trimmed] using h)
  refine ⟨fun c hc => ?_, fun c hc => ?_⟩
  · cases d with
    | nil => cases hc
    | cons a r =>
      cases hc
      exact not_contains_of_not_isWs hs (not_isWs_of_spaceLen ht.1)
  · have hr : d.reverse.head? = some c := by rw [List.head?_reverse]; exact hc
    cases hd : d.reverse with
    | nil => rw [hd] at hr; cases hr
    | cons a r =>
      rw [hd] at hr; cases hr
      have := ht.2
      rw [hd] at this
      exact not_contains_of_not_isWs hs (not_isWs_of_spaceLenRev this)

theorem fmtInt_plain (i : Int) : ∀ c ∈ fmtInt i, Plain c := by
  have hn : ∀ n, ∀ c ∈ fmtNat n, Plain c := by
    intro n c hc
    have := isDigit_iff.mp (fmtNat_all n c hc)
    exact ⟨by omega, by omega⟩
  unfold fmtInt
  split
  · intro c hc
    rcases List.mem_cons.mp hc with rfl | hc
    · exact ⟨by omega, by omega⟩
    · exact hn _ c hc
  · exact hn _

theorem fmtInt_word (i : Int) : fmtInt i ≠ [] ∧ hasSpaceRune (fmtInt i) = false :=
  ⟨fmtInt_ne_nil i, hasSpaceRune_of_plain (fmtInt_plain i)⟩

theorem wfWord_spec {b : Bytes} (h : wfWord b = true) : b ≠ [] ∧ hasSpaceRune b = false := by
  simpa [wfWord] using h

/-! ### `fields` on a text whose words are separated by single white-space bytes -/

theorem fieldsN_ws_cons {b : Nat} (hb : isWs b = true) (Y : Bytes) (n : Nat) :
    fieldsN (n+1) [] (b :: Y) = fieldsN n [] Y := by
  rw [fieldsN, spaceLen_of_isWs hb]
  simp

/-- a word followed by nothing or by a white-space byte -/
theorem fieldsN_word_then (y : Bytes) (hy : y ≠ []) (hs : hasSpaceRune y = false) (Z : Bytes)
    (hZ : Z = [] ∨ ∃ b Z', Z = b :: Z' ∧ isWs b = true) (n : Nat)
    (hn : (y ++ Z).length + 1 ≤ n) :
    fieldsN n [] (y ++ Z) = y :: fieldsN (n - y.length) [] Z := by
  have hlen : y.length ≤ n := by simp at hn; omega
  rcases hZ with rfl | ⟨b, Z', rfl, hb⟩
  · rw [fieldsN_word y hs [] (Or.inl rfl) [] n hlen, fieldsN_end, fieldsN_end]
    simp [hy]
  · rw [fieldsN_word y hs _ (Or.inr ⟨b, Z', rfl, isWs_lt hb⟩) [] n hlen]
    obtain ⟨m, hm⟩ : ∃ m, n - y.length = m + 1 := ⟨n - y.length - 1, by simp at hn; omega⟩
    rw [hm, fieldsN_ws_cons hb, fieldsN, spaceLen_of_isWs hb]
    simp [hy]

theorem tailJoin_start (b1 b2 : Nat) (h1 : isWs b1 = true) (h2 : isWs b2 = true)
    (rest : List Bytes) (l : Layout) (t : Bytes) (ht : t = [] ∨ t = [10]) :
    let Z := tailJoin [b1] [b2] rest l ++ t
    Z = [] ∨ ∃ b Z', Z = b :: Z' ∧ isWs b = true := by
  intro Z
  cases rest with
  | nil =>
    rcases ht with rfl | rfl
    · exact Or.inl rfl
    · exact Or.inr ⟨10, [], rfl, rfl⟩
  | cons y rest =>
    refine Or.inr ?_
    by_cases ho : odd l = true
    · exact ⟨b2, y ++ tailJoin [b1] [b2] rest l.tail ++ t, by simp [Z, tailJoin, ho], h2⟩
    · exact ⟨b1, y ++ tailJoin [b1] [b2] rest l.tail ++ t, by simp [Z, tailJoin, ho], h1⟩

theorem fieldsN_tailJoin (b1 b2 : Nat) (h1 : isWs b1 = true) (h2 : isWs b2 = true)
    (rest : List Bytes) (hw : ∀ x ∈ rest, x ≠ [] ∧ hasSpaceRune x = false) (l : Layout) (t : Bytes)
    (ht : t = [] ∨ t = [10]) (n : Nat) (hn : (tailJoin [b1] [b2] rest l ++ t).length + 1 ≤ n) :
    fieldsN n [] (tailJoin [b1] [b2] rest l ++ t) = rest := by
  induction rest generalizing l n with
  | nil =>
    rcases ht with rfl | rfl
    · simp [tailJoin, fieldsN_end]
    · obtain ⟨m, rfl⟩ : ∃ m, n = m + 1 := ⟨n - 1, by simp [tailJoin] at hn; omega⟩
      simp only [tailJoin, List.nil_append]
      rw [fieldsN_ws_cons (by rfl), fieldsN_end]
      rfl
  | cons y rest ih =>
    obtain ⟨hy0, hy1⟩ := hw y (by simp)
    have hsep : ∃ b, isWs b = true ∧ (if odd l = true then [b2] else [b1]) = [b] := by
      by_cases ho : odd l = true
      · exact ⟨b2, h2, by simp [ho]⟩
      · exact ⟨b1, h1, by simp [ho]⟩
    obtain ⟨b, hb, hbe⟩ := hsep
    rw [tailJoin, hbe] at hn ⊢
    obtain ⟨m, rfl⟩ : ∃ m, n = m + 1 := ⟨n - 1, by simp at hn; omega⟩
    simp only [List.cons_append, List.append_assoc, List.nil_append]
    rw [fieldsN_ws_cons hb,
      fieldsN_word_then y hy0 hy1 _ (tailJoin_start b1 b2 h1 h2 rest l.tail t ht) m
        (by simp at hn ⊢; omega),
      ih (fun x hx => hw x (List.mem_cons_of_mem _ hx)) l.tail _ (by simp at hn ⊢; omega)]

/-- `strings.Fields` of a blank separated list in any layout -/
theorem fields_group (x : Bytes) (rest : List Bytes)
    (hw : ∀ y ∈ x :: rest, y ≠ [] ∧ hasSpaceRune y = false) (l : Layout) (t : Bytes)
    (ht : t = [] ∨ t = [10]) :
    fields (x ++ tailJoin [32] [10] rest l ++ t) = x :: rest := by
  obtain ⟨hx0, hx1⟩ := hw x (by simp)
  unfold fields
  rw [List.append_assoc,
    fieldsN_word_then x hx0 hx1 _ (tailJoin_start 32 10 rfl rfl rest l t ht) _ (Nat.le_refl _),
    fieldsN_tailJoin 32 10 rfl rfl rest (fun y hy => hw y (List.mem_cons_of_mem _ hy)) l t ht _
      (by simp; omega)]

/-! ### ends of a grouped list -/

theorem tailJoin_ends {cs same brk : Bytes} {rest : List Bytes} (hne : rest ≠ [])
    (h : ∀ x ∈ rest, x ≠ [] ∧ LastOK cs x) (l : Layout) :
    tailJoin same brk rest l ≠ [] ∧ LastOK cs (tailJoin same brk rest l) := by
  induction rest generalizing l with
  | nil => exact absurd rfl hne
  | cons y rest ih =>
    obtain ⟨hy0, hy1⟩ := h y (by simp)
    rw [tailJoin]
    refine ⟨by simp [hy0], ?_⟩
    cases rest with
    | nil =>
      simp only [tailJoin, List.append_nil]
      exact lastOK_append _ hy0 hy1
    | cons z rest =>
      obtain ⟨i0, i1⟩ := ih (by simp) (fun x hx => h x (List.mem_cons_of_mem _ hx)) l.tail
      exact lastOK_append _ i0 i1

theorem group_ends {cs same brk x : Bytes} {rest : List Bytes}
    (h : ∀ y ∈ x :: rest, y ≠ [] ∧ HeadOK cs y ∧ LastOK cs y) (l : Layout) :
    x ++ tailJoin same brk rest l ≠ [] ∧ HeadOK cs (x ++ tailJoin same brk rest l) ∧
      LastOK cs (x ++ tailJoin same brk rest l) := by
  obtain ⟨hx0, hx1, hx2⟩ := h x (by simp)
  refine ⟨by simp [hx0], headOK_append _ hx0 hx1, ?_⟩
  cases rest with
  | nil => simpa [tailJoin] using hx2
  | cons y rest =>
    obtain ⟨i0, i1⟩ := tailJoin_ends (cs := cs) (same := same) (brk := brk) (rest := y :: rest)
      (by simp) (fun z hz => let hz' := h z (List.mem_cons_of_mem _ hz); ⟨hz'.1, hz'.2.2⟩) l
    exact lastOK_append _ i0 i1

/-- the whole value loses at most its final newline when trimmed -/
theorem trimSet_value {strip J t : Bytes} (hne : J ≠ [])
    (hh : HeadOK strip J) (hl : LastOK strip J) (ht : t = [] ∨ t = [10]) :
    ∃ t', (t' = [] ∨ t' = [10]) ∧ trimSet strip (J ++ t) = J ++ t' ∧
      (strip.contains 10 = true → t' = []) := by
  rcases ht with rfl | rfl
  · exact ⟨[], Or.inl rfl, by simp [trimSet_of_ends hh hl], fun _ => rfl⟩
  · by_cases h10 : strip.contains 10 = true
    · exact ⟨[], Or.inl rfl, by rw [trimSet_snoc_mem _ h10, trimSet_of_ends hh hl]; simp,
        fun _ => rfl⟩
    · refine ⟨[10], Or.inr rfl, ?_, fun h => absurd h h10⟩
      refine trimSet_of_ends (headOK_append _ hne hh) (lastOK_append _ (by simp) ?_)
      intro c hc
      cases hc
      simpa using h10

/-! ### `split` at the comma -/

theorem length_tailJoin (w1 w2 : Nat) (rest : List Bytes) (l : Layout) :
    rest.length ≤ (tailJoin [44, w1] [44, w2] rest l).length := by
  induction rest generalizing l with
  | nil => simp
  | cons y rest ih =>
    have := ih l.tail
    rw [tailJoin]
    split <;> simp <;> omega

/-- splitting at the comma and trimming each piece gives the items back -/
theorem splitNAux_tailJoin {strip : Bytes} (w1 w2 : Nat) (h1 : strip.contains w1 = true)
    (h2 : strip.contains w2 = true) (h1' : w1 ≠ 44) (h2' : w2 ≠ 44) (rest : List Bytes)
    (hw : ∀ x ∈ rest, 44 ∉ x ∧ HeadOK strip x ∧ LastOK strip x)
    (cur : Bytes) (hcur : 44 ∉ cur) (l : Layout) (fuel n : Nat) (hf : rest.length ≤ fuel)
    (hn : rest.length + 1 ≤ n) :
    (splitNAux [44] fuel n (cur ++ tailJoin [44, w1] [44, w2] rest l)).map (trimSet strip) =
      trimSet strip cur :: rest := by
  induction rest generalizing cur l fuel n with
  | nil =>
    simp only [tailJoin, List.append_nil]
    cases fuel with
    | zero => simp [splitNAux]
    | succ f =>
      cases n with
      | zero => simp [splitNAux]
      | succ m => simp [splitNAux, cut_none hcur]
  | cons y rest ih =>
    obtain ⟨hy0, hy1, hy2⟩ := hw y (by simp)
    obtain ⟨w, hwc, hw44, hwe⟩ : ∃ w, strip.contains w = true ∧ w ≠ 44 ∧
        (if odd l = true then [44, w2] else [44, w1]) = [44, w] := by
      by_cases ho : odd l = true
      · exact ⟨w2, h2, h2', by simp [ho]⟩
      · exact ⟨w1, h1, h1', by simp [ho]⟩
    rw [tailJoin, hwe]
    cases fuel with
    | zero => simp at hf
    | succ f =>
      cases n with
      | zero => simp at hn
      | succ m =>
        have hm : m ≠ 0 := by simp at hn; omega
        have hshape : cur ++ ([44, w] ++ y ++ tailJoin [44, w1] [44, w2] rest l.tail) =
            cur ++ 44 :: ((w :: y) ++ tailJoin [44, w1] [44, w2] rest l.tail) := by simp
        rw [hshape]
        simp only [splitNAux, if_neg hm, cut_append _ hcur, List.map_cons]
        have hcur' : 44 ∉ w :: y := by
          intro hmem
          rcases List.mem_cons.mp hmem with heq | hmem
          · exact hw44 heq.symm
          · exact hy0 hmem
        rw [ih (fun x hx => hw x (List.mem_cons_of_mem _ hx)) (w :: y) hcur' l.tail f m
          (by simp at hf; omega) (by simp at hn ⊢; omega)]
        rw [trimSet_cons_mem _ hwc, trimSet_of_ends hy1 hy2]

end GoDebian.Lemmas.Docs
