/-
  Path arithmetic for C10 / C20: `path.Clean`, `path.Join`, `filepath.Dir`, `filepath.Base`,
  `filepath.Abs` on canonical absolute paths ("/" followed by plain components joined by
  "/"), and the bridge from `checkListedFilename` (`Upload.plain`) to plain components.
  Core Lean only.
-/
import GoDebian.Base.Path
import GoDebian.Model.Accessors
import GoDebian.Model.Upload
import GoDebian.Lemmas.Str
import GoDebian.Lemmas.ChangelogStr

namespace GoDebian.Lemmas.Paths
open GoDebian GoDebian.Str GoDebian.Path GoDebian.Lemmas.Str

/-- a path component that `Clean` keeps as it is: not empty, not ".", not "..", no slash -/
def PlainComp (c : Bytes) : Prop := c ≠ [] ∧ c ≠ [46] ∧ c ≠ [46, 46] ∧ 47 ∉ c

/-- the canonical absolute path with the given components: "/" for none, "/a/b" for [a, b] -/
def canon (comps : List Bytes) : Bytes := 47 :: joinWith [47] comps

/-! ### `cleanComps` -/

/-- components that are plain or empty: the empty ones are dropped, the others kept in order -/
theorem cleanComps_plain (rooted : Bool) (comps : List Bytes) (acc : List Bytes)
    (h : ∀ c ∈ comps, c = [] ∨ PlainComp c) :
    cleanComps rooted comps acc = acc.reverse ++ comps.filter (fun c => !c.isEmpty) := by
  induction comps generalizing acc with
  | nil => simp [cleanComps]
  | cons c rest ih =>
    have hr : ∀ c ∈ rest, c = [] ∨ PlainComp c := fun x hx => h x (List.mem_cons_of_mem _ hx)
    rcases h c (by simp) with hc | hc
    · subst hc
      simp [cleanComps, ih acc hr]
    · obtain ⟨h1, h2, h3, _⟩ := hc
      have he : c.isEmpty = false := by cases c <;> simp_all
      unfold cleanComps
      simp only [he, Bool.false_or, decide_eq_true_eq, if_neg h2, if_neg h3]
      rw [ih (c :: acc) hr]
      simp [he]

/-- every output component of a rooted clean-up is plain -/
theorem cleanComps_out_plain (comps : List Bytes) (acc : List Bytes)
    (hacc : ∀ c ∈ acc, PlainComp c) (hc : ∀ c ∈ comps, 47 ∉ c) :
    ∀ c ∈ cleanComps true comps acc, PlainComp c := by
  induction comps generalizing acc with
  | nil => intro c hm; simp [cleanComps] at hm; exact hacc c hm
  | cons x rest ih =>
    have hr : ∀ c ∈ rest, 47 ∉ c := fun c hm => hc c (List.mem_cons_of_mem _ hm)
    unfold cleanComps
    by_cases h1 : (x.isEmpty || decide (x = [46])) = true
    · simp only [h1, if_true]; exact ih acc hacc hr
    · simp only [h1, Bool.false_eq_true, if_false]
      by_cases h2 : x = [46, 46]
      · simp only [h2, if_true]
        cases acc with
        | nil => exact ih [] (by simp) hr
        | cons top acc' =>
          have ht : top ≠ [46, 46] := (hacc top (by simp)).2.2.1
          simp only [if_neg ht]
          exact ih acc' (fun c hm => hacc c (List.mem_cons_of_mem _ hm)) hr
      · simp only [if_neg h2]
        have hx : PlainComp x := by
          simp only [Bool.or_eq_true, decide_eq_true_eq, not_or] at h1
          refine ⟨?_, h1.2, h2, hc x (by simp)⟩
          intro e; rw [e] at h1; simp at h1
        exact ih (x :: acc) (by
          intro c hm
          rcases List.mem_cons.mp hm with e | hm
          · rw [e]; exact hx
          · exact hacc c hm) hr

/-! ### the pieces of `split` -/

theorem indexByte_none_not_mem {b : Nat} {s : Bytes} (h : indexByte b s = none) : b ∉ s := by
  induction s with
  | nil => simp
  | cons c s ih =>
    rw [indexByte_cons] at h
    by_cases e : b = c
    · simp [e] at h
    · simp only [if_neg e, Option.map_eq_none_iff] at h
      intro hm
      rcases List.mem_cons.mp hm with e' | hm
      · exact e e'
      · exact ih h hm

theorem cut_none_not_mem {b : Nat} {s : Bytes} (h : cut [b] s = none) : b ∉ s := by
  unfold cut at h
  rw [show indexOf [b] s = indexByte b s from rfl] at h
  cases hi : indexByte b s with
  | none => exact indexByte_none_not_mem hi
  | some i => simp [hi] at h

theorem splitNAux_pieces (b : Nat) (fuel n : Nat) (s : Bytes) (hf : s.length < fuel) (hn : s.length + 1 < n) :
    ∀ c ∈ splitNAux [b] fuel n s, b ∉ c := by
  induction fuel generalizing n s with
  | zero => omega
  | succ f ih =>
    cases n with
    | zero => omega
    | succ m =>
      have hm : m ≠ 0 := by omega
      simp only [splitNAux, if_neg hm]
      cases hc : cut [b] s with
      | none =>
        intro c hmem
        simp only [List.mem_singleton] at hmem
        rw [hmem]; exact cut_none_not_mem hc
      | some ab =>
        obtain ⟨x, y⟩ := ab
        obtain ⟨hs, hx⟩ := Lemmas.Deb822WriteStr.cut_some hc
        intro c hmem
        rcases List.mem_cons.mp hmem with e | hmem
        · rw [e]; exact hx
        · have hl : s.length = x.length + 1 + y.length := by rw [hs]; simp; omega
          exact ih m y (by omega) (by omega) c hmem

theorem split_pieces (b : Nat) (s : Bytes) : ∀ c ∈ split [b] s, b ∉ c :=
  splitNAux_pieces b _ _ s (by omega) (by omega)

/-! ### `clean` -/

/-- cleaning a rooted path gives a canonical absolute path -/
theorem clean_rooted {p : Bytes} (h : p.head? = some 47) :
    ∃ cs, (∀ c ∈ cs, PlainComp c) ∧ clean p = canon cs := by
  have hne : p.isEmpty = false := by cases p <;> simp_all
  refine ⟨cleanComps true (splitSlash p) [], cleanComps_out_plain _ [] (by simp) (split_pieces 47 p), ?_⟩
  unfold clean canon
  simp [hne, h]

theorem joinWith_snoc {b : Nat} {cs : List Bytes} (hne : cs ≠ []) (n : Bytes) :
    joinWith [b] (cs ++ [n]) = joinWith [b] cs ++ b :: n := by
  induction cs with
  | nil => exact absurd rfl hne
  | cons x rest ih =>
    cases rest with
    | nil => simp [joinWith]
    | cons y rest =>
      have : joinWith [b] (x :: (y :: rest ++ [n])) = x ++ [b] ++ joinWith [b] (y :: rest ++ [n]) := by
        simp [joinWith]
      have ih' := ih (by simp)
      simp only [List.cons_append] at this ih' ⊢
      rw [this, ih']
      simp [joinWith]

/-- a canonical absolute path is a fixed point of `clean` -/
theorem clean_canon {cs : List Bytes} (h : ∀ c ∈ cs, PlainComp c) : clean (canon cs) = canon cs := by
  unfold clean canon
  simp only [List.isEmpty_cons, Bool.false_eq_true, if_false, List.head?_cons, if_true]
  cases cs with
  | nil =>
    have : splitSlash [47] = [[], []] := by decide
    simp [this, cleanComps, joinWith]
  | cons x rest =>
    have hs : splitSlash (47 :: joinWith [47] (x :: rest)) = [] :: x :: rest := by
      have hj : (47 :: joinWith [47] (x :: rest)) = joinWith [47] ([] :: x :: rest) := by simp [joinWith]
      rw [hj]
      exact Lemmas.Changelog.split_joinWith_byte (by simp) (by
        intro l hl
        rcases List.mem_cons.mp hl with e | hl
        · rw [e]; simp
        · exact (h l hl).2.2.2)
    simp only [decide_true]
    rw [hs, cleanComps_plain true _ [] (by
      intro c hc
      rcases List.mem_cons.mp hc with e | hc
      · exact Or.inl e
      · exact Or.inr (h c hc))]
    have hf : (([] : Bytes) :: x :: rest).filter (fun c => !c.isEmpty) = x :: rest := by
      have hk : (x :: rest).filter (fun c => !c.isEmpty) = x :: rest :=
        List.filter_eq_self.mpr (fun c hc => by
          have := (h c hc).1
          cases c with
          | nil => exact absurd rfl this
          | cons a t => rfl)
      simpa using hk
    simp [hf]

/-! ### `join`, `dir`, `base` on a canonical directory and a plain name -/

theorem canon_ne_nil (cs : List Bytes) : canon cs ≠ [] := by simp [canon]

theorem plainComp_snoc {cs : List Bytes} {n : Bytes} (h : ∀ c ∈ cs, PlainComp c) (hn : PlainComp n) :
    ∀ c ∈ cs ++ [n], PlainComp c := by
  intro c hc
  rcases List.mem_append.mp hc with hc | hc
  · exact h c hc
  · simp only [List.mem_singleton] at hc; rw [hc]; exact hn

/-- `canon (cs ++ [n])` written as "directory, slash, name" -/
theorem canon_snoc (cs : List Bytes) (n : Bytes) :
    canon (cs ++ [n]) = (if cs = [] then [] else canon cs) ++ 47 :: n := by
  cases cs with
  | nil => simp [canon, joinWith]
  | cons x rest =>
    simp only [canon, reduceCtorEq, if_false]
    rw [joinWith_snoc (by simp)]
    simp

/-- `path.Join(dir, name)` of a canonical directory and a plain name: the name is appended -/
theorem join_canon {cs : List Bytes} {n : Bytes} (h : ∀ c ∈ cs, PlainComp c) (hn : PlainComp n) :
    join (canon cs) n = canon (cs ++ [n]) := by
  have hne : n.isEmpty = false := by cases n with | nil => exact absurd rfl hn.1 | cons a t => rfl
  unfold join
  simp only [canon, List.isEmpty_cons, Bool.false_and, Bool.false_eq_true, if_false, hne]
  cases cs with
  | nil =>
    -- "/" ++ "/" ++ n = "//n"
    have hj : (47 :: joinWith [47] ([] : List Bytes)) ++ [47] ++ n = joinWith [47] [[], [], n] := by
      simp [joinWith]
    rw [hj]
    unfold clean
    have hs : splitSlash (joinWith [47] [[], [], n]) = [[], [], n] :=
      Lemmas.Changelog.split_joinWith_byte (by simp) (by
        intro l hl
        simp only [List.mem_cons, List.mem_nil_iff, or_false] at hl
        rcases hl with e | e | e <;> rw [e]
        · simp
        · simp
        · exact hn.2.2.2)
    have hh : (joinWith [47] [[], [], n]).head? = some 47 := by simp [joinWith]
    have he : (joinWith [47] [[], [], n]).isEmpty = false := by simp [joinWith]
    simp only [he, Bool.false_eq_true, if_false, hh, decide_true, if_true, hs]
    rw [cleanComps_plain true _ [] (by
      intro c hc
      simp only [List.mem_cons, List.mem_nil_iff, or_false] at hc
      rcases hc with e | e | e
      · exact Or.inl e
      · exact Or.inl e
      · exact Or.inr (e ▸ hn))]
    simp [hne, joinWith]
  | cons x rest =>
    have hj : (47 :: joinWith [47] (x :: rest)) ++ [47] ++ n = canon ((x :: rest) ++ [n]) := by
      rw [canon_snoc]; simp [canon]
    rw [hj]
    exact clean_canon (plainComp_snoc h hn)

theorem filter_plain {cs : List Bytes} (h : ∀ c ∈ cs, PlainComp c) :
    cs.filter (fun c => !c.isEmpty) = cs :=
  List.filter_eq_self.mpr (fun c hc => by
    have := (h c hc).1
    cases c with
    | nil => exact absurd rfl this
    | cons a t => rfl)

theorem filter_wrap {cs : List Bytes} (h : ∀ c ∈ cs, PlainComp c) :
    (([] : Bytes) :: (cs ++ [[]])).filter (fun c => !c.isEmpty) = cs := by
  rw [List.filter_cons]
  simp only [List.isEmpty_nil, Bool.not_true, Bool.false_eq_true, if_false, List.filter_append, filter_plain h]
  simp

theorem not_mem_of_plain {n : Bytes} (hn : PlainComp n) : 47 ∉ n := hn.2.2.2

/-- `filepath.Dir` of "directory/name" is the directory -/
theorem dir_canon_snoc {cs : List Bytes} {n : Bytes} (h : ∀ c ∈ cs, PlainComp c) (hn : PlainComp n) :
    dir (canon (cs ++ [n])) = canon cs := by
  rw [canon_snoc]
  unfold dir
  rw [lastIndexByte_append _ (not_mem_of_plain hn)]
  cases cs with
  | nil =>
    simp only [if_true, List.length_nil, List.nil_append]
    have : List.take (0 + 1) (47 :: n) = [47] := by simp
    rw [this]
    exact clean_canon (cs := []) (by simp)
  | cons x rest =>
    simp only [reduceCtorEq, if_false]
    have ht : List.take ((canon (x :: rest)).length + 1) (canon (x :: rest) ++ 47 :: n) = canon (x :: rest) ++ [47] := by
      rw [show canon (x :: rest) ++ 47 :: n = (canon (x :: rest) ++ [47]) ++ n by simp]
      rw [List.take_left' (by simp)]
    rw [ht]
    -- "/x/…/" : the trailing empty component is dropped
    have hj : canon (x :: rest) ++ [47] = joinWith [47] (([] : Bytes) :: (x :: rest) ++ [[]]) := by
      have := joinWith_snoc (b := 47) (cs := ([] : Bytes) :: x :: rest) (by simp) []
      simp only [List.cons_append] at this ⊢
      rw [this]; simp [canon, joinWith]
    rw [hj]
    unfold clean
    have hs : splitSlash (joinWith [47] (([] : Bytes) :: (x :: rest) ++ [[]])) = ([] : Bytes) :: (x :: rest) ++ [[]] :=
      Lemmas.Changelog.split_joinWith_byte (by simp) (by
        intro l hl
        simp only [List.cons_append, List.mem_cons, List.mem_append, List.mem_nil_iff, or_false] at hl
        rcases hl with e | e | e | e
        · rw [e]; simp
        · rw [e]; exact (h x (by simp)).2.2.2
        · exact (h l (List.mem_cons_of_mem _ e)).2.2.2
        · rw [e]; simp)
    have hh : (joinWith [47] (([] : Bytes) :: (x :: rest) ++ [[]])).head? = some 47 := by
      rw [← hj]; simp [canon]
    have he : (joinWith [47] (([] : Bytes) :: (x :: rest) ++ [[]])).isEmpty = false := by
      rw [← hj]; simp [canon]
    simp only [he, Bool.false_eq_true, if_false, hh, decide_true, if_true, hs]
    rw [cleanComps_plain true _ [] (by
      intro c hc
      simp only [List.cons_append, List.mem_cons, List.mem_append, List.mem_nil_iff, or_false] at hc
      rcases hc with e | e | e | e
      · exact Or.inl e
      · exact Or.inr (e ▸ h x (by simp))
      · exact Or.inr (h c (List.mem_cons_of_mem _ e))
      · exact Or.inl e)]
    have hf := filter_wrap h
    simp only [List.cons_append] at hf ⊢
    rw [hf]
    simp [canon]

/-- `filepath.Base` of "anything/name" is the name -/
theorem base_append_plain (X : Bytes) {n : Bytes} (hn : PlainComp n) : base (X ++ 47 :: n) = n := by
  have h47 := not_mem_of_plain hn
  obtain ⟨l, hl⟩ : ∃ l, n.reverse = l := ⟨_, rfl⟩
  have hdw : ((X ++ 47 :: n).reverse.dropWhile (· == 47)) = (X ++ 47 :: n).reverse := by
    rw [List.reverse_append, List.reverse_cons]
    cases hr : n.reverse with
    | nil => exact absurd (List.reverse_eq_nil_iff.mp hr) hn.1
    | cons c t =>
      have hc : c ≠ 47 := by
        intro e
        apply h47
        have : c ∈ n.reverse := by rw [hr]; simp
        rw [e] at this
        exact List.mem_reverse.mp this
      simp [List.dropWhile, hc]
  unfold base
  have he : (X ++ 47 :: n).isEmpty = false := by simp
  simp only [he, Bool.false_eq_true, if_false, hdw, List.reverse_reverse]
  rw [lastIndexByte_append _ h47]
  simp

theorem base_canon_snoc (cs : List Bytes) {n : Bytes} (hn : PlainComp n) :
    base (canon (cs ++ [n])) = n := by
  rw [canon_snoc]; exact base_append_plain _ hn

/-! ### `checkListedFilename` -/

/-- a name `checkListedFilename` lets through is a plain component -/
theorem plain_PlainComp {n : Bytes} (h : Upload.plain n = true) : PlainComp n := by
  simp only [Upload.plain, Bool.and_eq_true, Bool.not_eq_true', decide_eq_true_eq] at h
  obtain ⟨⟨⟨⟨h1, h2⟩, h3⟩, h4⟩, _⟩ := h
  refine ⟨?_, h2, h3, ?_⟩
  · intro e; rw [e] at h1; simp at h1
  · intro hm
    have : n.contains 47 = true := List.contains_iff_mem.mpr hm
    rw [this] at h4; exact absurd h4 (by decide)

/-- and conversely -/
theorem PlainComp_plain {n : Bytes} (h : PlainComp n) : Upload.plain n = true := by
  obtain ⟨h1, h2, h3, h4⟩ := h
  have hb : base n = n := by
    unfold base
    have he : n.isEmpty = false := by cases n with | nil => exact absurd rfl h1 | cons a t => rfl
    have hdw : (n.reverse.dropWhile (· == 47)) = n.reverse := by
      cases hr : n.reverse with
      | nil => rfl
      | cons c t =>
        have hc : c ≠ 47 := by
          intro e
          apply h4
          have : c ∈ n.reverse := by rw [hr]; simp
          rw [e] at this
          exact List.mem_reverse.mp this
        have hb' : (c == 47) = false := by simp [hc]
        simp [List.dropWhile, hb']
    simp only [he, Bool.false_eq_true, if_false, hdw, List.reverse_reverse, lastIndexByte_of_not_mem h4]
  have hc : n.contains 47 = false := by
    cases hcc : n.contains 47 with
    | false => rfl
    | true => exact absurd (List.contains_iff_mem.mp hcc) h4
  have he : n.isEmpty = false := by cases n with | nil => exact absurd rfl h1 | cons a t => rfl
  simp [Upload.plain, he, h2, h3, hc, hb, h4]

/-! ### `filepath.Abs` and the handle of a file entry point -/

/-- whatever path is given, the handle's Filename is a canonical absolute path when the
    working directory is one -/
theorem abs_canon {cwd : List Bytes} (hc : ∀ c ∈ cwd, PlainComp c) (p : Bytes) :
    ∃ cs, (∀ c ∈ cs, PlainComp c) ∧ Acc.abs (canon cwd) p = canon cs := by
  unfold Acc.abs Acc.isAbs
  by_cases h : p.head? = some 47
  · simp only [h, decide_true, if_true]; exact clean_rooted h
  · simp only [h, decide_false, Bool.false_eq_true, if_false]
    unfold join
    have hne : (canon cwd).isEmpty = false := by simp [canon]
    simp only [hne, Bool.false_and, Bool.false_eq_true, if_false]
    by_cases hp : p.isEmpty = true
    · simp only [hp, if_true]; exact ⟨cwd, hc, clean_canon hc⟩
    · simp only [hp, Bool.false_eq_true, if_false]
      exact clean_rooted (by simp [canon])

end GoDebian.Lemmas.Paths
