/-
  Lemmas about the clearsign front end of the paragraph reader (`Model/Clearsign.lean`):
  case analysis of `newReader` / `readAll` on armored and unarmored input.
  Core Lean only.
-/
import GoDebian.Model.Clearsign
import GoDebian.Lemmas.Res

namespace GoDebian.Lemmas.Clearsign
open GoDebian GoDebian.Clearsign

/-- armored input with a keyring: the four cases of the two external answers -/
theorem newReader_armored (inp : Bytes) (dec ver : Option Bytes)
    (ha : startsWithArmor inp = true) :
    newReader inp true dec ver =
      match dec, ver with
      | some blk, some id => .ok ⟨blk, some id⟩
      | _, _ => .error .err := by
  unfold newReader
  cases dec <;> cases ver <;> simp [ha]

theorem newReader_sound {inp : Bytes} {dec ver : Option Bytes} {r : Reader}
    (ha : startsWithArmor inp = true) (h : newReader inp true dec ver = .ok r) :
    ∃ blk id, dec = some blk ∧ ver = some id ∧ r.source = blk ∧ r.signer = some id := by
  rw [newReader_armored inp dec ver ha] at h
  cases dec with
  | none => cases h
  | some blk =>
    cases ver with
    | none => cases h
    | some id =>
      injection h with h
      subst h
      exact ⟨blk, id, rfl, rfl, rfl, rfl⟩

theorem newReader_reject {inp : Bytes} {dec ver : Option Bytes}
    (ha : startsWithArmor inp = true) (h : dec = none ∨ ver = none) :
    newReader inp true dec ver = .error .err := by
  rw [newReader_armored inp dec ver ha]
  rcases h with rfl | rfl
  · rfl
  · cases dec <;> rfl

theorem newReader_unsigned (inp : Bytes) (k : Bool) (dec ver : Option Bytes)
    (ha : startsWithArmor inp = false) : newReader inp k dec ver = .ok ⟨inp, none⟩ := by
  simp [newReader, ha]

theorem newReader_nil_keyring {inp : Bytes} {dec ver : Option Bytes} {r : Reader}
    (h : newReader inp false dec ver = .ok r) : r.signer = none := by
  unfold newReader at h
  split at h
  · injection h with h; subst h; rfl
  · cases dec with
    | none => cases h
    | some blk =>
      simp only [Bool.not_false, if_true] at h
      injection h with h; subst h; rfl

theorem readAll_armored (inp : Bytes) (dec ver : Option Bytes)
    (ha : startsWithArmor inp = true) :
    readAll inp true dec ver =
      match dec, ver with
      | some blk, some id => (Deb822.all blk).map (fun ps => (ps, some id))
      | _, _ => .error .err := by
  unfold readAll
  rw [newReader_armored inp dec ver ha]
  cases dec <;> cases ver <;> rfl

theorem readAll_paragraphs {inp : Bytes} {dec ver : Option Bytes}
    {ps : List Deb822.Paragraph} {s : Option Bytes}
    (ha : startsWithArmor inp = true) (h : readAll inp true dec ver = .ok (ps, s)) :
    ∃ blk id, dec = some blk ∧ ver = some id ∧ s = some id ∧ Deb822.all blk = .ok ps := by
  rw [readAll_armored inp dec ver ha] at h
  cases dec with
  | none => cases h
  | some blk =>
    cases ver with
    | none => cases h
    | some id =>
      refine ⟨blk, id, rfl, rfl, ?_⟩
      simp only at h
      cases hb : Deb822.all blk with
      | error e => rw [hb] at h; cases h
      | ok ps' =>
        rw [hb] at h
        simp only [Except.map] at h
        injection h with h
        injection h with h1 h2
        subst h1 h2
        exact ⟨rfl, rfl⟩

theorem readAll_outside_irrelevant (i1 i2 : Bytes) (dec ver : Option Bytes)
    (h1 : startsWithArmor i1 = true) (h2 : startsWithArmor i2 = true) :
    readAll i1 true dec ver = readAll i2 true dec ver := by
  rw [readAll_armored i1 dec ver h1, readAll_armored i2 dec ver h2]

end GoDebian.Lemmas.Clearsign
