/-
  String facts for the changelog round trip: `trimSet` (cut-set trimming) on strings whose
  ends are outside the cut set, `partition` at a byte, at the first "--" and at the first
  double blank, `split`/`joinWith` at an arbitrary byte, `lines` of newline-terminated
  lines.  Core Lean only.
-/
import GoDebian.Model.Changelog
import GoDebian.Lemmas.Deb822WriteStr

namespace GoDebian.Lemmas.Changelog
open GoDebian GoDebian.Str GoDebian.Changelog

/-! ### `trimSet` -/

/-- the first byte, if any, is outside the cut set -/
def HeadOK (cs s : Bytes) : Prop := ∀ c, s.head? = some c → cs.contains c = false
/-- the last byte, if any, is outside the cut set -/
def LastOK (cs s : Bytes) : Prop := ∀ c, s.getLast? = some c → cs.contains c = false

theorem dropWhile_of_head {p : Nat → Bool} {l : Bytes} (h : ∀ c, l.head? = some c → p c = false) :
    l.dropWhile p = l := by
  cases l with
  | nil => rfl
  | cons c r => simp [List.dropWhile, h c rfl]

theorem length_dropWhile_le (p : Nat → Bool) (l : Bytes) : (l.dropWhile p).length ≤ l.length := by
  induction l with
  | nil => simp
  | cons c r ih =>
    simp only [List.dropWhile]
    split
    · simp; omega
    · simp

theorem length_trimSet_le (cs s : Bytes) : (trimSet cs s).length ≤ s.length := by
  unfold trimSet
  have h1 := length_dropWhile_le (cs.contains ·) s
  have h2 := length_dropWhile_le (cs.contains ·) (s.dropWhile (cs.contains ·)).reverse
  simp only [List.length_reverse] at h2 ⊢
  omega

theorem trimSet_of_ends {cs s : Bytes} (h1 : HeadOK cs s) (h2 : LastOK cs s) : trimSet cs s = s := by
  unfold trimSet
  rw [dropWhile_of_head h1, dropWhile_of_head (l := s.reverse), List.reverse_reverse]
  intro c hc
  rw [List.head?_reverse] at hc
  exact h2 c hc

theorem trimSet_cons_mem {cs : Bytes} {c : Nat} (s : Bytes) (h : cs.contains c = true) :
    trimSet cs (c :: s) = trimSet cs s := by
  unfold trimSet
  rw [List.dropWhile_cons_of_pos (p := (cs.contains ·)) h]

theorem trimSet_snoc_mem {cs : Bytes} {c : Nat} (s : Bytes) (h : cs.contains c = true) :
    trimSet cs (s ++ [c]) = trimSet cs s := by
  unfold trimSet
  rw [List.dropWhile_append]
  split
  · rename_i he
    have : List.dropWhile (cs.contains ·) s = [] := List.isEmpty_iff.mp he
    rw [this, List.dropWhile_cons_of_pos (p := (cs.contains ·)) h]
    rfl
  · rw [List.reverse_append, List.reverse_singleton, List.singleton_append,
      List.dropWhile_cons_of_pos (p := (cs.contains ·)) h]

theorem headOK_of_fixed {cs s : Bytes} (h : trimSet cs s = s) : HeadOK cs s := by
  intro c hc
  cases s with
  | nil => cases hc
  | cons d r =>
    simp only [List.head?_cons, Option.some.injEq] at hc
    subst hc
    cases hp : cs.contains d with
    | false => rfl
    | true =>
      rw [trimSet_cons_mem r hp] at h
      have := length_trimSet_le cs r
      rw [h] at this
      simp only [List.length_cons] at this
      omega

theorem lastOK_of_fixed {cs s : Bytes} (h : trimSet cs s = s) : LastOK cs s := by
  intro c hc
  cases hp : cs.contains c with
  | false => rfl
  | true =>
    obtain ⟨ys, rfl⟩ := List.getLast?_eq_some_iff.mp hc
    rw [trimSet_snoc_mem _ hp] at h
    have := length_trimSet_le cs ys
    rw [h] at this
    simp only [List.length_append, List.length_singleton] at this
    omega

theorem headOK_of_all {cs s : Bytes} (h : ∀ c ∈ s, cs.contains c = false) : HeadOK cs s :=
  fun c hc => h c (List.mem_of_mem_head? hc)

theorem lastOK_of_all {cs s : Bytes} (h : ∀ c ∈ s, cs.contains c = false) : LastOK cs s :=
  fun c hc => h c (List.mem_of_mem_getLast? hc)

theorem headOK_append {cs x : Bytes} (y : Bytes) (hne : x ≠ []) (h : HeadOK cs x) :
    HeadOK cs (x ++ y) := by
  cases x with
  | nil => exact absurd rfl hne
  | cons c r =>
    intro d hd
    exact h d hd

theorem lastOK_append {cs y : Bytes} (x : Bytes) (hne : y ≠ []) (h : LastOK cs y) :
    LastOK cs (x ++ y) := by
  intro d hd
  rw [List.getLast?_append] at hd
  cases hy : y.getLast? with
  | none => exact absurd (List.getLast?_eq_none_iff.mp hy) hne
  | some e =>
    rw [hy] at hd
    simp only [Option.some_or, Option.some.injEq] at hd
    subst hd
    exact h e hy

/-- blank-separated non-empty words whose ends are outside the cut set -/
theorem joinWith_ends {cs sep : Bytes} {xs : List Bytes} (hne : xs ≠ [])
    (h : ∀ x ∈ xs, x ≠ [] ∧ HeadOK cs x ∧ LastOK cs x) :
    joinWith sep xs ≠ [] ∧ HeadOK cs (joinWith sep xs) ∧ LastOK cs (joinWith sep xs) := by
  induction xs with
  | nil => exact absurd rfl hne
  | cons x rest ih =>
    obtain ⟨hx0, hx1, hx2⟩ := h x (by simp)
    cases rest with
    | nil => exact ⟨hx0, hx1, hx2⟩
    | cons y rest =>
      obtain ⟨i0, i1, i2⟩ := ih (by simp) (fun z hz => h z (List.mem_cons_of_mem _ hz))
      refine ⟨by simp [joinWith, hx0], ?_, ?_⟩
      · simp only [joinWith, List.append_assoc]
        exact headOK_append _ hx0 hx1
      · simp only [joinWith]
        exact lastOK_append _ i0 i2

theorem mem_joinWith {sep : Bytes} {xs : List Bytes} {c : Nat} (h : c ∈ joinWith sep xs) :
    c ∈ sep ∨ ∃ x ∈ xs, c ∈ x := by
  induction xs with
  | nil => simp [joinWith] at h
  | cons x rest ih =>
    cases rest with
    | nil => exact Or.inr ⟨x, by simp, h⟩
    | cons y rest =>
      simp only [joinWith, List.mem_append] at h
      rcases h with (h | h) | h
      · exact Or.inr ⟨x, by simp, h⟩
      · exact Or.inl h
      · rcases ih h with h | ⟨z, hz, hc⟩
        · exact Or.inl h
        · exact Or.inr ⟨z, List.mem_cons_of_mem _ hz, hc⟩

/-! ### `partition` -/

theorem partition_byte {b : Nat} {x : Bytes} (y : Bytes) (h : b ∉ x) :
    partition (x ++ b :: y) [b] = (x, y) := by
  simp [partition, Lemmas.Deb822WriteStr.cut_append y h]

/-- the first "--" of a line starting with " --" -/
theorem partition_dashes (rest : Bytes) :
    partition (32 :: 45 :: 45 :: rest) [45, 45] = ([32], rest) := by
  simp [partition, cut, indexOf, isPrefix]

theorem indexOf_dblank_none_cons {c : Nat} {w : Bytes} (h : indexOf [32, 32] (c :: w) = none) :
    isPrefix [32, 32] (c :: w) = false ∧ indexOf [32, 32] w = none := by
  unfold indexOf at h
  split at h
  · cases h
  · rename_i hp
    refine ⟨by simpa using hp, ?_⟩
    cases hi : indexOf [32, 32] w with
    | none => rfl
    | some k => rw [hi] at h; cases h

/-- the first double blank behind a text without double blanks that does not end in a
    blank -/
theorem indexOf_dblank (w rest : Bytes) (h1 : indexOf [32, 32] w = none)
    (h2 : ∀ c, w.getLast? = some c → c ≠ 32) :
    indexOf [32, 32] (w ++ 32 :: 32 :: rest) = some w.length := by
  induction w with
  | nil => simp [indexOf, isPrefix]
  | cons c w ih =>
    obtain ⟨hp, hi⟩ := indexOf_dblank_none_cons h1
    have hlast : ∀ d, w.getLast? = some d → d ≠ 32 := by
      intro d hd
      cases w with
      | nil => cases hd
      | cons e w => exact h2 d (by rw [List.getLast?_cons_cons]; exact hd)
    have hp' : isPrefix [32, 32] (c :: w ++ 32 :: 32 :: rest) = false := by
      cases w with
      | nil =>
        have : c ≠ 32 := h2 c rfl
        have : ¬ (32 = c) := fun e => this e.symm
        simp [isPrefix, this]
      | cons e w =>
        simp only [List.cons_append, isPrefix, Bool.and_true] at hp ⊢
        exact hp
    rw [List.cons_append] at hp' ⊢
    unfold indexOf
    rw [if_neg (by simp [hp']), ih hi hlast]
    simp

theorem partition_dblank (w rest : Bytes) (h1 : Str.contains w [32, 32] = false)
    (h2 : ∀ c, w.getLast? = some c → c ≠ 32) :
    partition (w ++ 32 :: 32 :: rest) [32, 32] = (w, rest) := by
  have h1' : indexOf [32, 32] w = none := by
    unfold Str.contains at h1
    cases hi : indexOf [32, 32] w with
    | none => rfl
    | some k => simp [hi] at h1
  have hd : (w ++ 32 :: 32 :: rest).drop (w.length + 2) = rest := by
    rw [show w ++ 32 :: 32 :: rest = (w ++ [32, 32]) ++ rest by simp]
    exact List.drop_left' (by simp)
  simp [partition, cut, indexOf_dblank w rest h1' h2, hd]

/-! ### `split` / `joinWith` at a byte -/

theorem length_joinWith_byte (b : Nat) (ls : List Bytes) :
    ls.length ≤ (joinWith [b] ls).length + 1 := by
  induction ls with
  | nil => simp
  | cons x rest ih =>
    cases rest with
    | nil => simp [joinWith]
    | cons y rest =>
      simp only [joinWith, List.length_append, List.length_cons, List.length_nil] at ih ⊢
      omega

theorem splitNAux_joinWith_byte (b : Nat) (ls : List Bytes) (hne : ls ≠ []) (h : ∀ l ∈ ls, b ∉ l)
    (fuel n : Nat) (hf : ls.length ≤ fuel + 1) (hn : ls.length ≤ n) :
    splitNAux [b] fuel n (joinWith [b] ls) = ls := by
  induction ls generalizing fuel n with
  | nil => exact absurd rfl hne
  | cons x rest ih =>
    have hx : b ∉ x := h x (by simp)
    cases rest with
    | nil =>
      cases fuel with
      | zero => simp [joinWith, splitNAux]
      | succ f =>
        cases n with
        | zero => simp [joinWith, splitNAux]
        | succ m => simp [joinWith, splitNAux, Lemmas.Deb822WriteStr.cut_none hx]
    | cons y rest =>
      have hj : joinWith [b] (x :: y :: rest) = x ++ b :: joinWith [b] (y :: rest) := by
        simp [joinWith]
      rw [hj]
      cases fuel with
      | zero => simp at hf
      | succ f =>
        cases n with
        | zero => simp at hn
        | succ m =>
          have hm : m ≠ 0 := by simp at hn; omega
          simp only [splitNAux, if_neg hm, Lemmas.Deb822WriteStr.cut_append _ hx]
          rw [ih (by simp) (fun l hl => h l (List.mem_cons_of_mem _ hl)) f m
            (by simp at hf ⊢; omega) (by simp at hn ⊢; omega)]

theorem split_joinWith_byte {b : Nat} {ls : List Bytes} (hne : ls ≠ []) (h : ∀ l ∈ ls, b ∉ l) :
    split [b] (joinWith [b] ls) = ls := by
  unfold split
  have := length_joinWith_byte b ls
  exact splitNAux_joinWith_byte b ls hne h _ _ (by omega) (by omega)

/-! ### prefixes -/

/-- appending a byte that does not occur in the pattern does not create a match -/
theorem isPrefix_snoc {p : Bytes} {c : Nat} (l : Bytes) (h : c ∉ p) (hne : p ≠ []) :
    isPrefix p (l ++ [c]) = isPrefix p l := by
  induction p generalizing l with
  | nil => exact absurd rfl hne
  | cons a p ih =>
    have ha : a ≠ c := fun e => h (by simp [e])
    cases l with
    | nil => simp [isPrefix, ha]
    | cons x l =>
      simp only [List.cons_append, isPrefix]
      cases p with
      | nil => simp [isPrefix]
      | cons a' p => rw [ih l (fun hm => h (List.mem_cons_of_mem _ hm)) (by simp)]

/-! ### `lines` -/

theorem linesAux_nl {x : Bytes} (h : 10 ∉ x) (rest cur : Bytes) :
    linesAux (x ++ 10 :: rest) cur = (cur.reverse ++ x ++ [10]) :: linesAux rest [] := by
  induction x generalizing cur with
  | nil => simp [linesAux]
  | cons c x ih =>
    have hc : c ≠ 10 := fun e => h (by simp [e])
    have hx : 10 ∉ x := fun hm => h (List.mem_cons_of_mem _ hm)
    rw [List.cons_append, linesAux, if_neg hc, ih hx]
    simp

theorem linesAux_last {x : Bytes} (h : 10 ∉ x) (cur : Bytes) :
    linesAux x cur = if (cur.reverse ++ x).isEmpty then [] else [cur.reverse ++ x] := by
  induction x generalizing cur with
  | nil => simp [linesAux]
  | cons c x ih =>
    have hc : c ≠ 10 := fun e => h (by simp [e])
    have hx : 10 ∉ x := fun hm => h (List.mem_cons_of_mem _ hm)
    rw [linesAux, if_neg hc, ih hx]
    simp

/-- a newline-terminated line without further newlines -/
def NL (l : Bytes) : Prop := ∃ x, l = x ++ [10] ∧ 10 ∉ x

theorem lines_flatten {L : List Bytes} (h : ∀ l ∈ L, NL l) {last : Bytes} (hl : 10 ∉ last) :
    lines (L.flatten ++ last) = L ++ (if last.isEmpty then [] else [last]) := by
  induction L with
  | nil => simpa [lines] using linesAux_last hl []
  | cons l L ih =>
    obtain ⟨x, rfl, hx⟩ := h l (by simp)
    have := ih (fun l hl => h l (List.mem_cons_of_mem _ hl))
    unfold lines at this ⊢
    rw [List.flatten_cons, List.append_assoc, List.append_assoc, List.singleton_append,
      linesAux_nl hx, this]
    simp

end GoDebian.Lemmas.Changelog
