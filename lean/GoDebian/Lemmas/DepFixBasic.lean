/-
  Cursor primitives of the dependency parser (`eatWs`, `peek`, `next`, `takeUntil`):
  length facts and "stops exactly here" facts.  Core Lean only.
-/
import GoDebian.Model.Dependency

namespace GoDebian.Lemmas.DepFix
open GoDebian GoDebian.Dep

/-! ### `eatWs` -/

theorem eatWs_nil : eatWs [] = [] := rfl

theorem eatWs_cons_ws {c : Nat} (l : Bytes) (h : isWs c = true) : eatWs (c :: l) = eatWs l := by
  simp [eatWs, h]

theorem eatWs_cons_not {c : Nat} (l : Bytes) (h : isWs c = false) : eatWs (c :: l) = c :: l := by
  simp [eatWs, h]

theorem eatWs_length_le (l : Bytes) : (eatWs l).length ≤ l.length := by
  induction l with
  | nil => simp [eatWs_nil]
  | cons c l ih =>
    cases h : isWs c
    · rw [eatWs_cons_not l h]; exact Nat.le_refl _
    · rw [eatWs_cons_ws l h]; simp only [List.length_cons]; omega

/-- the byte under the cursor after `eatWs` is not white space -/
theorem eatWs_head {l : Bytes} {c : Nat} {r : Bytes} (h : eatWs l = c :: r) : isWs c = false := by
  induction l with
  | nil => simp [eatWs_nil] at h
  | cons d l ih =>
    cases hd : isWs d
    · rw [eatWs_cons_not l hd] at h
      cases h; exact hd
    · rw [eatWs_cons_ws l hd] at h
      exact ih h

theorem eatWs_of_head {c : Nat} {r : Bytes} (h : isWs c = false) : eatWs (c :: r) = c :: r :=
  eatWs_cons_not r h

theorem eatWs_idem (l : Bytes) : eatWs (eatWs l) = eatWs l := by
  cases h : eatWs l with
  | nil => rfl
  | cons c r => exact eatWs_of_head (eatWs_head h)

theorem isWs_zero : isWs 0 = false := by decide

theorem isWs_peek_eatWs (l : Bytes) : isWs (peek (eatWs l)) = false := by
  cases h : eatWs l with
  | nil => exact isWs_zero
  | cons c r => exact eatWs_head h

/-- a string that does not start with white space is left alone -/
theorem eatWs_of_peek {l : Bytes} (h : isWs (peek l) = false) : eatWs l = l := by
  cases l with
  | nil => rfl
  | cons c r => exact eatWs_of_head h

/-! ### `next`, `peek` -/

theorem next_snd_length_le (l : Bytes) : (next l).2.length ≤ l.length := by
  cases l <;> simp [next]

theorem next_snd_length_lt {l : Bytes} (h : l ≠ []) : (next l).2.length < l.length := by
  cases l with
  | nil => exact absurd rfl h
  | cons c r => simp [next]

theorem ne_nil_of_peek {l : Bytes} (h : peek l ≠ 0) : l ≠ [] := by
  intro e; subst e; exact h rfl

theorem peek_cons (c : Nat) (l : Bytes) : peek (c :: l) = c := rfl
theorem next_cons (c : Nat) (l : Bytes) : next (c :: l) = (c, l) := rfl

theorem peek_append_of_ne_nil {n : Bytes} (rest : Bytes) (h : n ≠ []) :
    peek (n ++ rest) = peek n := by
  cases n with
  | nil => exact absurd rfl h
  | cons c n => rfl

theorem peek_mem {n : Bytes} (h : n ≠ []) : peek n ∈ n := by
  cases n with
  | nil => exact absurd rfl h
  | cons c n => simp [peek]

/-- the first byte of a non-empty string of non-stop bytes followed by anything -/
theorem peek_append_no_stop {stop : Nat → Bool} {n : Bytes} (rest : Bytes) (h : n ≠ [])
    (hn : ∀ c ∈ n, stop c = false) : stop (peek (n ++ rest)) = false := by
  rw [peek_append_of_ne_nil rest h]
  exact hn _ (peek_mem h)

/-! ### `takeUntil` -/

theorem takeUntil_nil (stop : Nat → Bool) : takeUntil stop [] = ([], []) := rfl

theorem span_loop_eq (p : Nat → Bool) (l acc : Bytes) :
    List.span.loop p l acc = (acc.reverse ++ l.takeWhile p, l.dropWhile p) := by
  induction l generalizing acc with
  | nil => simp [List.span.loop]
  | cons a l ih =>
    cases h : p a
    · simp [List.span.loop, h]
    · simp [List.span.loop, h, ih]

theorem takeUntil_eq (stop : Nat → Bool) (l : Bytes) :
    takeUntil stop l = (l.takeWhile (fun c => !stop c), l.dropWhile (fun c => !stop c)) := by
  simp [takeUntil, List.span, span_loop_eq]

theorem takeUntil_cons_stop {stop : Nat → Bool} {c : Nat} (l : Bytes) (h : stop c = true) :
    takeUntil stop (c :: l) = ([], c :: l) := by
  simp [takeUntil_eq, h]

theorem takeUntil_cons_go {stop : Nat → Bool} {c : Nat} (l : Bytes) (h : stop c = false) :
    takeUntil stop (c :: l) = (c :: (takeUntil stop l).1, (takeUntil stop l).2) := by
  simp [takeUntil_eq, h]

theorem takeUntil_append_eq (stop : Nat → Bool) (l : Bytes) :
    (takeUntil stop l).1 ++ (takeUntil stop l).2 = l := by
  simp [takeUntil_eq]

theorem takeUntil_length (stop : Nat → Bool) (l : Bytes) :
    (takeUntil stop l).1.length + (takeUntil stop l).2.length = l.length := by
  have := congrArg List.length (takeUntil_append_eq stop l)
  simpa using this

theorem takeUntil_snd_length_le (stop : Nat → Bool) (l : Bytes) :
    (takeUntil stop l).2.length ≤ l.length := by
  have := takeUntil_length stop l; omega

theorem takeUntil_fst_no_stop (stop : Nat → Bool) (l : Bytes) :
    ∀ c ∈ (takeUntil stop l).1, stop c = false := by
  induction l with
  | nil => simp [takeUntil_nil]
  | cons d l ih =>
    cases h : stop d
    · rw [takeUntil_cons_go l h]
      intro c hc
      rcases List.mem_cons.mp hc with rfl | hc
      · exact h
      · exact ih c hc
    · rw [takeUntil_cons_stop l h]; simp

theorem takeUntil_snd_head {stop : Nat → Bool} {l : Bytes} {c : Nat} {r : Bytes}
    (h : (takeUntil stop l).2 = c :: r) : stop c = true := by
  induction l with
  | nil => simp [takeUntil_nil] at h
  | cons d l ih =>
    cases hd : stop d
    · rw [takeUntil_cons_go l hd] at h; exact ih h
    · rw [takeUntil_cons_stop l hd] at h
      cases h; exact hd

/-- the accumulation loop stops exactly at the first stop byte -/
theorem takeUntil_append {stop : Nat → Bool} (a : Bytes) {c : Nat} (rest : Bytes)
    (ha : ∀ x ∈ a, stop x = false) (hc : stop c = true) :
    takeUntil stop (a ++ c :: rest) = (a, c :: rest) := by
  induction a with
  | nil => exact takeUntil_cons_stop rest hc
  | cons d a ih =>
    rw [List.cons_append, takeUntil_cons_go _ (ha d (by simp)),
      ih (fun x hx => ha x (List.mem_cons_of_mem _ hx))]

theorem takeUntil_all {stop : Nat → Bool} (a : Bytes) (ha : ∀ x ∈ a, stop x = false) :
    takeUntil stop a = (a, []) := by
  induction a with
  | nil => rfl
  | cons d a ih =>
    rw [takeUntil_cons_go _ (ha d (by simp)), ih (fun x hx => ha x (List.mem_cons_of_mem _ hx))]

/-- at a stop byte or at the end -/
theorem takeUntil_append_peek {stop : Nat → Bool} (a rest : Bytes)
    (ha : ∀ x ∈ a, stop x = false) (hr : rest = [] ∨ stop (peek rest) = true) :
    takeUntil stop (a ++ rest) = (a, rest) := by
  cases rest with
  | nil => simpa using takeUntil_all a ha
  | cons c r =>
    rcases hr with hr | hr
    · cases hr
    · exact takeUntil_append a r ha hr

/-- the rest is empty or starts with a stop byte -/
theorem takeUntil_snd_peek (stop : Nat → Bool) (l : Bytes) :
    (takeUntil stop l).2 = [] ∨ stop (peek (takeUntil stop l).2) = true := by
  cases h : (takeUntil stop l).2 with
  | nil => exact Or.inl rfl
  | cons c r => exact Or.inr (takeUntil_snd_head h)

end GoDebian.Lemmas.DepFix
