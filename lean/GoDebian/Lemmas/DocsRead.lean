/-
  C10 lemmas, part 5: composition with the reader (C07) — `Unmarshal` of a rendered
  one-paragraph document decodes the paragraph the document denotes.  Core Lean only.
-/
import GoDebian.Model.Codec
import GoDebian.Spec.Deb822
import GoDebian.Lemmas.Deb822Read
import GoDebian.Lemmas.Deb822ReadNext

namespace GoDebian.Lemmas.Docs
open GoDebian GoDebian.Deb822 GoDebian.Codec GoDebian.Spec.Deb822
open GoDebian.Lemmas.Deb822Read

theorem allAux_prefix (fuel : Nat) (lines : List Bytes) (acc ps : List Paragraph)
    (h : allAux fuel lines acc = .ok ps) : ∃ tl, ps = acc ++ tl := by
  induction fuel generalizing lines acc with
  | zero => simp [allAux] at h
  | succ fuel ih =>
    rw [allAux_succ] at h
    split at h
    · injection h with h; exact ⟨[], by simp [h]⟩
    · cases h
    · rename_i q rest _
      obtain ⟨tl, htl⟩ := ih _ _ h
      exact ⟨q :: tl, by simp [htl]⟩

/-- a text that `All` reads as exactly one paragraph: `Next` returns that paragraph -/
theorem next_of_all_single {bs : Bytes} {q : Paragraph} (h : all bs = .ok [q]) :
    ∃ rest, next (physLines bs) = .para q rest := by
  unfold all at h
  simp only at h
  rw [allAux_succ] at h
  split at h
  · cases h
  · cases h
  · rename_i p rest hn
    obtain ⟨tl, htl⟩ := allAux_prefix _ _ _ _ h
    simp only [List.nil_append, List.cons_append, List.cons.injEq] at htl
    exact ⟨rest, by rw [hn, htl.1]⟩

/-- `Unmarshal` of a well-formed one-paragraph document in any layout decodes the
    paragraph the document denotes -/
theorem unmarshal_render (s : Schema) (para : Para) (cs : Choices) (hwf : wfPara para = true) :
    unmarshal s (render [para] cs) = decodeStruct (expectedPara para) s [] := by
  have hall := Lemmas.Deb822ReadNext.all_read_render [para] cs (by simp [wfDoc, hwf])
  obtain ⟨rest, hn⟩ := next_of_all_single (q := expectedPara para) (by simpa using hall)
  unfold unmarshal
  rw [hn]

end GoDebian.Lemmas.Docs
