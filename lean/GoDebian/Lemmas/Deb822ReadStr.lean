/-
  String facts the deb822 reader proof needs on top of `Lemmas/Str.lean`: trimming never
  lengthens, a trimmed string neither starts nor ends with a white-space rune, a string
  without white-space runes is trimmed, trimming removes white space around such strings,
  `SplitN(line, ":", 2)` splits at the first colon.  Core Lean only.
-/
import GoDebian.Lemmas.Str

namespace GoDebian.Lemmas.Deb822ReadStr
open GoDebian GoDebian.Str GoDebian.Lemmas.Str

/-- a concatenation of white-space runes -/
def Sp (w : Bytes) : Prop := trimLeftSpace w = []

instance (w : Bytes) : Decidable (Sp w) := inferInstanceAs (Decidable (_ = _))

/-! ### lengths -/

theorem trimLeftSpaceN_length_le (n : Nat) (l : Bytes) : (trimLeftSpaceN n l).length ≤ l.length := by
  induction n generalizing l with
  | zero => simp [trimLeftSpaceN]
  | succ n ih =>
    rw [trimLeftSpaceN_succ]
    split
    · exact Nat.le_refl _
    · exact Nat.le_trans (ih _) (by simp)

theorem trimLeftSpace_length_le (l : Bytes) : (trimLeftSpace l).length ≤ l.length :=
  trimLeftSpaceN_length_le _ _

theorem trimLeftSpace_length_lt {l : Bytes} (h : spaceLen l ≠ 0) :
    (trimLeftSpace l).length < l.length := by
  have hl : 0 < l.length := by
    cases l with
    | nil => exact absurd rfl h
    | cons => simp
  rw [trimLeftSpace_step h]
  have := trimLeftSpace_length_le (l.drop (spaceLen l))
  simp only [List.length_drop] at this
  omega

theorem trimRevN_length_le (n : Nat) (l : Bytes) : (trimRightSpaceRevN n l).length ≤ l.length := by
  induction n generalizing l with
  | zero => simp [trimRightSpaceRevN]
  | succ n ih =>
    rw [trimRevN_succ]
    split
    · exact Nat.le_refl _
    · exact Nat.le_trans (ih _) (by simp)

theorem trimRev_length_le (l : Bytes) : (trimRev l).length ≤ l.length := trimRevN_length_le _ _

theorem trimRev_length_lt {l : Bytes} (h : spaceLenRev l ≠ 0) : (trimRev l).length < l.length := by
  have hl : 0 < l.length := by
    cases l with
    | nil => exact absurd rfl h
    | cons => simp
  rw [trimRev_step h]
  have := trimRev_length_le (l.drop (spaceLenRev l))
  simp only [List.length_drop] at this
  omega

theorem trimRightSpace_length_le (l : Bytes) : (trimRightSpace l).length ≤ l.length := by
  rw [trimRightSpace_eq]
  have := trimRev_length_le l.reverse
  simpa using this

/-! ### trimmed strings -/

theorem spaceLenRev_of_trimRight_fixed {c : Bytes} (h : trimRightSpace c = c) :
    spaceLenRev c.reverse = 0 := by
  apply Classical.byContradiction
  intro hne
  have h1 := trimRev_length_lt hne
  rw [trimRightSpace_eq] at h
  have h2 : (trimRev c.reverse).length = c.length := by
    have := congrArg List.length h
    simpa using this
  simp only [List.length_reverse] at h1
  omega

theorem ends_of_trimmed {v : Bytes} (h : trimSpace v = v) :
    spaceLen v = 0 ∧ spaceLenRev v.reverse = 0 := by
  have h0 : spaceLen v = 0 := by
    apply Classical.byContradiction
    intro hne
    have h1 := trimLeftSpace_length_lt hne
    have h2 := trimRightSpace_length_le (trimLeftSpace v)
    have h3 : (trimRightSpace (trimLeftSpace v)).length = v.length := congrArg List.length h
    omega
  refine ⟨h0, spaceLenRev_of_trimRight_fixed ?_⟩
  unfold trimSpace at h
  rwa [trimLeftSpace_of_zero h0] at h

/-! ### the mirror image, right to left -/

theorem spaceLen_E2_80 {c : Nat}
    (hc : (0x80 ≤ c ∧ c ≤ 0x8A) ∨ c = 0xA8 ∨ c = 0xA9 ∨ c = 0xAF) (Z : Bytes) :
    spaceLen (0xE2 :: 0x80 :: c :: Z) = 3 := by
  simp [spaceLen, hc]

theorem spaceLenRev_mirror {l : Bytes} {k : Nat} (h : spaceLenRev l = k) (hk : k ≠ 0) (Z : Bytes) :
    spaceLen ((l.take k).reverse ++ Z) = k := by
  subst h
  unfold spaceLenRev at hk ⊢
  split at hk <;> first
    | (exfalso; exact hk rfl)
    | rfl
    | (split at hk
       · rename_i hc; simp only [hc, if_true]; exact spaceLen_E2_80 hc Z
       · exact absurd rfl hk)

theorem hasSpaceRune_append {A B : Bytes} (h : spaceLen B ≠ 0) : hasSpaceRune (A ++ B) = true := by
  induction A with
  | nil =>
    cases B with
    | nil => exact absurd rfl h
    | cons c r => simp [hasSpaceRune, h]
  | cons a A ih => simp [hasSpaceRune, ih]

/-- a string without white-space runes neither starts nor ends with one -/
theorem ends_of_noSpace {n : Bytes} (h : hasSpaceRune n = false) :
    spaceLen n = 0 ∧ spaceLenRev n.reverse = 0 := by
  constructor
  · cases n with
    | nil => rfl
    | cons c r =>
      simp only [hasSpaceRune, Bool.or_eq_false_iff, bne_eq_false_iff_eq] at h
      exact h.1
  · apply Classical.byContradiction
    intro hne
    have hm := spaceLenRev_mirror rfl hne []
    have hsplit : n = (n.reverse.drop (spaceLenRev n.reverse)).reverse
        ++ ((n.reverse.take (spaceLenRev n.reverse)).reverse ++ []) := by
      rw [List.append_nil, ← List.reverse_append, List.take_append_drop, List.reverse_reverse]
    have := hasSpaceRune_append (A := (n.reverse.drop (spaceLenRev n.reverse)).reverse)
      (by rw [hm]; exact hne)
    rw [← hsplit, h] at this
    cases this

theorem trimSpace_of_ends {t : Bytes} (h1 : spaceLen t = 0) (h2 : spaceLenRev t.reverse = 0) :
    trimSpace t = t := by
  unfold trimSpace
  rw [trimLeftSpace_of_zero h1, trimRightSpace_eq, trimRev_of_zero h2, List.reverse_reverse]

theorem trimSpace_of_noSpace {n : Bytes} (h : hasSpaceRune n = false) : trimSpace n = n :=
  trimSpace_of_ends (ends_of_noSpace h).1 (ends_of_noSpace h).2

/-! ### white space in front of anything -/

/-- generalises `trimLeftSpace_append_of_spaces`: nothing is assumed about `Y` -/
theorem trimLeftSpace_append_spaces {w : Bytes} (hw : Sp w) (Y : Bytes) :
    trimLeftSpace (w ++ Y) = trimLeftSpace Y := by
  suffices ∀ n (w : Bytes), w.length ≤ n → trimLeftSpace w = [] →
      trimLeftSpace (w ++ Y) = trimLeftSpace Y from this _ w (Nat.le_refl _) hw
  intro n
  induction n with
  | zero =>
    intro w hl _
    have : w = [] := List.length_eq_zero_iff.mp (by omega)
    subst this; rfl
  | succ n ih =>
    intro w hl hw
    by_cases hz : spaceLen w = 0
    · rw [trimLeftSpace_of_zero hz] at hw
      subst hw; rfl
    · obtain ⟨hle, happ⟩ := spaceLen_append rfl hz Y
      rw [trimLeftSpace_step (by rw [happ]; exact hz), happ, List.drop_append_of_le_length hle]
      apply ih
      · simp only [List.length_drop]; omega
      · rw [← trimLeftSpace_step hz]; exact hw

theorem sp_append {w1 w2 : Bytes} (h1 : Sp w1) (h2 : Sp w2) : Sp (w1 ++ w2) := by
  unfold Sp; rw [trimLeftSpace_append_spaces h1]; exact h2

theorem trimSpace_of_sp {w : Bytes} (h : Sp w) : trimSpace w = [] := by
  unfold trimSpace; rw [h]; rfl

theorem trimRightSpace_append_sp {X w : Bytes} (hw : Sp w) :
    trimRightSpace (X ++ w) = trimRightSpace X := by
  rw [trimRightSpace_eq, List.reverse_append, trimRev_append_of_spaces hw, ← trimRightSpace_eq]

/-! ### an ASCII byte behind a string that does not start with a white-space rune -/

theorem spaceLen_take {l : Bytes} {k : Nat} (h : spaceLen l = k) (hk : k ≠ 0) :
    spaceLen (l.take k) = k := by
  subst h
  unfold spaceLen at hk ⊢
  split at hk <;> first
    | (exfalso; exact hk rfl)
    | rfl
    | (split at hk
       · rename_i hc; simp only [hc, if_true]; exact spaceLen_E2_80 hc []
       · exact absurd rfl hk)

/-- the continuation bytes of a white-space rune are not ASCII -/
theorem spaceLen_high {l : Bytes} {k : Nat} (h : spaceLen l = k)
    (i b : Nat) (h1 : 1 ≤ i) (h2 : i < k) (hb : l[i]? = some b) : 0x80 ≤ b := by
  unfold spaceLen at h
  split at h <;> first
    | omega
    | (have hi : i = 1 := by omega
       subst hi; simp at hb; omega)
    | (have hi : i = 1 ∨ i = 2 := by omega
       rcases hi with hi | hi <;> subst hi <;> simp at hb <;> omega)
    | (split at h
       · have hi : i = 1 ∨ i = 2 := by omega
         rcases hi with hi | hi <;> subst hi <;> simp at hb <;> omega
       · omega)

theorem spaceLen_append_ascii {t : Bytes} (h : spaceLen t = 0) (hne : t ≠ []) (a : Nat)
    (ha : a < 0x80) (Y : Bytes) : spaceLen (t ++ a :: Y) = 0 := by
  apply Classical.byContradiction
  intro hk
  by_cases hle : spaceLen (t ++ a :: Y) ≤ t.length
  · have h1 := spaceLen_take rfl hk
    rw [List.take_append_of_le_length hle] at h1
    have h2 := (spaceLen_append h1 hk (t.drop (spaceLen (t ++ a :: Y)))).2
    rw [List.take_append_drop, h] at h2
    exact hk h2.symm
  · have hpos : 1 ≤ t.length := by
      cases t with
      | nil => exact absurd rfl hne
      | cons => simp
    have := spaceLen_high (l := t ++ a :: Y) rfl t.length a hpos (by omega) (by simp)
    omega

/-- `TrimSpace` strips white space around a string that neither starts nor ends with a
    white-space rune, when the white space behind starts with an ASCII byte. -/
theorem trimSpace_wrap_ends {w1 w2 t : Bytes} (hw1 : Sp w1) (hw2 : Sp w2)
    (hhead : ∀ a ∈ w2.head?, a < 0x80) (hne : t ≠ [])
    (h1 : spaceLen t = 0) (h2 : spaceLenRev t.reverse = 0) :
    trimSpace (w1 ++ t ++ w2) = t := by
  unfold trimSpace
  have hz : spaceLen (t ++ w2) = 0 := by
    cases w2 with
    | nil => simpa using h1
    | cons a Y => exact spaceLen_append_ascii h1 hne a (hhead a (by simp)) Y
  rw [List.append_assoc, trimLeftSpace_append_spaces hw1, trimLeftSpace_of_zero hz]
  exact trimRightSpace_append_of_spaces hw2 h2

/-! ### a UTF-8 start byte behind a string that does not start with a white-space rune

The white space behind a value may begin with a multi-byte rune (U+00A0, U+2003, …).  Its
first byte is a UTF-8 start byte (`≥ 0xC0`), which is never a continuation byte of a
white-space rune, so the left-to-right decoder still sees no white-space rune at the head
of `t ++ w`, whatever bytes `t` ends with. -/

/-- a byte that cannot continue a multi-byte rune: ASCII or a UTF-8 start byte -/
def NonCont (a : Nat) : Prop := a < 0x80 ∨ 0xC0 ≤ a

instance (a : Nat) : Decidable (NonCont a) := inferInstanceAs (Decidable (_ ∨ _))

/-- the continuation bytes of a white-space rune are UTF-8 continuation bytes -/
theorem spaceLen_cont {l : Bytes} {k : Nat} (h : spaceLen l = k)
    (i b : Nat) (h1 : 1 ≤ i) (h2 : i < k) (hb : l[i]? = some b) : 0x80 ≤ b ∧ b < 0xC0 := by
  unfold spaceLen at h
  split at h <;> first
    | omega
    | (have hi : i = 1 := by omega
       subst hi; simp at hb; omega)
    | (have hi : i = 1 ∨ i = 2 := by omega
       rcases hi with hi | hi <;> subst hi <;> simp at hb <;> omega)
    | (split at h
       · have hi : i = 1 ∨ i = 2 := by omega
         rcases hi with hi | hi <;> subst hi <;> simp at hb <;> omega
       · omega)

theorem spaceLen_append_nonCont {t : Bytes} (h : spaceLen t = 0) (hne : t ≠ []) (a : Nat)
    (ha : NonCont a) (Y : Bytes) : spaceLen (t ++ a :: Y) = 0 := by
  apply Classical.byContradiction
  intro hk
  by_cases hle : spaceLen (t ++ a :: Y) ≤ t.length
  · have h1 := spaceLen_take rfl hk
    rw [List.take_append_of_le_length hle] at h1
    have h2 := (spaceLen_append h1 hk (t.drop (spaceLen (t ++ a :: Y)))).2
    rw [List.take_append_drop, h] at h2
    exact hk h2.symm
  · have hpos : 1 ≤ t.length := by
      cases t with
      | nil => exact absurd rfl hne
      | cons => simp
    have := spaceLen_cont (l := t ++ a :: Y) rfl t.length a hpos (by omega) (by simp)
    unfold NonCont at ha
    omega

/-- `TrimSpace` strips white space around a string that neither starts nor ends with a
    white-space rune, when the white space behind starts with an ASCII byte or with a
    UTF-8 start byte (that is, with a complete rune). -/
theorem trimSpace_wrap_ends_nonCont {w1 w2 t : Bytes} (hw1 : Sp w1) (hw2 : Sp w2)
    (hhead : ∀ a ∈ w2.head?, NonCont a) (hne : t ≠ [])
    (h1 : spaceLen t = 0) (h2 : spaceLenRev t.reverse = 0) :
    trimSpace (w1 ++ t ++ w2) = t := by
  unfold trimSpace
  have hz : spaceLen (t ++ w2) = 0 := by
    cases w2 with
    | nil => simpa using h1
    | cons a Y => exact spaceLen_append_nonCont h1 hne a (hhead a (by simp)) Y
  rw [List.append_assoc, trimLeftSpace_append_spaces hw1, trimLeftSpace_of_zero hz]
  exact trimRightSpace_append_of_spaces hw2 h2

/-! ### prefixes, suffixes, `SplitN` -/

theorem hasPrefix_cons_singleton (c b : Nat) (l : Bytes) : hasPrefix (c :: l) [b] = (b == c) := by
  simp [hasPrefix, isPrefix]

theorem hasSuffix_append_singleton (x : Bytes) (b : Nat) : hasSuffix (x ++ [b]) [b] = true := by
  simp [hasSuffix, isPrefix]

theorem hasSuffix_of_not_mem {x : Bytes} {b : Nat} (h : b ∉ x) : hasSuffix x [b] = false := by
  unfold hasSuffix
  cases hr : x.reverse with
  | nil => simp [isPrefix]
  | cons a r =>
    have : a ∈ x := by
      have : a ∈ x.reverse := by rw [hr]; simp
      exact List.mem_reverse.mp this
    have hne : b ≠ a := fun e => h (e ▸ this)
    simp [isPrefix, hne]

theorem splitN_colon {name : Bytes} (h : 58 ∉ name) (rest : Bytes) :
    splitN [58] 2 (name ++ 58 :: rest) = [name, rest] := by
  have hi : indexOf [58] (name ++ 58 :: rest) = some name.length := indexByte_append rest h
  have h1 : ∀ n, splitNAux [58] n 1 rest = [rest] := by
    intro n; cases n <;> simp [splitNAux]
  simp [splitN, splitNAux, cut, hi, h1]

end GoDebian.Lemmas.Deb822ReadStr
