/-
  C09 — property theorems (see DESIGN.md §5 C09).
-/
import GoDebian.Model.Codec

namespace GoDebian.Props.C09
end GoDebian.Props.C09
