/-
  C09 — struct ↔ control-paragraph codec (the schema interpreter of Model/Codec.lean):
  paragraph algebra (`Set`, `Update`), which fields marshalling writes, totality,
  the round trip at the paragraph level and through the text, pass-through of unknown
  fields of an embedded Paragraph.
  Property theorems only; lemmas live in GoDebian/Lemmas/Codec*.lean, the well-formedness
  predicates in GoDebian/Spec/Codec.lean.
-/
import GoDebian.Model.Codec
import GoDebian.Spec.Codec
import GoDebian.Lemmas.Res
import GoDebian.Lemmas.CodecPara
import GoDebian.Lemmas.CodecConvert
import GoDebian.Lemmas.CodecMarshal
import GoDebian.Lemmas.CodecRecord
import GoDebian.Lemmas.CodecCustom
import GoDebian.Lemmas.CodecText
import GoDebian.Lemmas.CodecPass

namespace GoDebian.Props.C09
open GoDebian GoDebian.Deb822 GoDebian.Codec GoDebian.Spec.Codec
open GoDebian.Lemmas.Res

/-! ### Stage A — paragraph algebra -/

/-- `Update`: the other's values win, then p's; nothing else appears.  No invariant on
    either paragraph is needed: `Update` only walks the two `Order` lists. -/
theorem C09_update_values (p q : Paragraph) (k : Bytes) :
    (p.update q).get k =
      if q.order.contains k then q.get k else if p.order.contains k then p.get k else [] :=
  Lemmas.Codec.get_update p q k

/-- … and a name has a value afterwards exactly when one of the two `Order`s lists it -/
theorem C09_update_lookup (p q : Paragraph) (k : Bytes) :
    lookup k (p.update q).values =
      if k ∈ q.order then some (q.get k) else if k ∈ p.order then some (p.get k) else none :=
  Lemmas.Codec.lookup_update p q k

/-- `Update`: p's fields in order, then the other's new fields in their order (`p.order`
    need not be duplicate-free for this) -/
theorem C09_update_order (p q : Paragraph) (hq : q.order.Nodup) :
    (p.update q).order = p.order ++ q.order.filter (fun k => !p.order.contains k) := by
  rw [Lemmas.Codec.order_update, Lemmas.Codec.newKeys_of_nodup hq]

example :
    let p : Paragraph := ⟨[[65], [66]], [([65], [1]), ([66], [2]), ([90], [9])]⟩
    let q : Paragraph := ⟨[[67], [66]], [([66], [3]), ([67], [4])]⟩
    q.order.Nodup ∧
    p.update q = ⟨[[65], [66], [67]], [([65], [1]), ([66], [3]), ([67], [4])]⟩ := by
  decide +kernel

/-- `Set` -/
theorem C09_set (p : Paragraph) (k v : Bytes) :
    (p.set k v).get k = v ∧ (∀ k', k' ≠ k → (p.set k v).get k' = p.get k') ∧
    (p.set k v).order = if (lookup k p.values).isSome then p.order else p.order ++ [k] := by
  refine ⟨by simp [Lemmas.Codec.get_set], fun k' hk' => ?_, Lemmas.Codec.order_set p k v⟩
  rw [Lemmas.Codec.get_set, if_neg (fun e => hk' e.symm)]

example :
    let p : Paragraph := ⟨[[65]], [([65], [1])]⟩
    p.set [66] [2] = ⟨[[65], [66]], [([65], [1]), ([66], [2])]⟩ ∧
    p.set [65] [3] = ⟨[[65]], [([65], [3])]⟩ := by
  decide +kernel

/-! ### Stage B — what marshalling writes -/

/-- The statement as first written: the excuse "another field descriptor with the same
    key" does not cover a schema that lists the *same* descriptor twice. -/
def C09_omit_required_full : Prop :=
  ∀ (s : Schema) (r : List Val) (p : Paragraph), convertToParagraph s r = .ok p →
    (∀ f ∈ s, f.anonymous = false) → ∀ (f : FieldDesc) (v : Val), (f, v) ∈ s.zip r →
    f.key ≠ [45] → ∀ data : Bytes, marshalValue 16 f.kind f.delim v = .ok data →
    (f.key ∈ p.order ↔ (f.required = true ∨ data ≠ [])) ∨ (∃ g ∈ s, g ≠ f ∧ g.key = f.key)

/-- the witness: one optional string field, listed twice, empty in its first copy -/
def dupField : FieldDesc := .mk "A" [65] .str [] [] false false false

theorem C09_omit_required_full_false : ¬ C09_omit_required_full := by
  intro H
  have h : convertToParagraph [dupField, dupField] [.str [], .str [120]] =
      .ok ⟨[[65]], [([65], [120])]⟩ := by decide +kernel
  rcases H _ _ _ h (by simp [dupField, FieldDesc.anonymous]) dupField (.str []) (by simp)
      (by decide) [] rfl with h1 | ⟨g, hg, hne, _⟩
  · have := h1.mp (by simp [dupField, FieldDesc.key])
    simp [dupField, FieldDesc.required] at this
  · simp at hg
    exact hne hg

/-- Optional fields whose rendering is empty are omitted; required fields are always
    written; this for every non-anonymous, non-skipped field whose key occurs once among the
    schema's known keys — embedded Paragraph or not (an omitted known field does not come back from
    it). -/
theorem C09_omit_required_partial (s : Schema) (r : List Val) (p : Paragraph)
    (h : convertToParagraph s r = .ok p) (f : FieldDesc) (v : Val) (hf : (f, v) ∈ s.zip r)
    (ha : f.anonymous = false) (hk : f.key ≠ [45]) (data : Bytes)
    (hd : marshalValue 16 f.kind f.delim v = .ok data) :
    (f.key ∈ p.order ↔ (f.required = true ∨ data ≠ [])) ∨
      2 ≤ (knownKeys s).count f.key := by
  by_cases hu : (knownKeys s).count f.key ≤ 1
  · exact Or.inl (Lemmas.Codec.mem_order_convert h hf ha hk hd hu)
  · exact Or.inr (by omega)

/-- the form first asked for (no anonymous field at all), with the repaired excuse -/
theorem C09_omit_required (s : Schema) (r : List Val) (p : Paragraph)
    (h : convertToParagraph s r = .ok p) (hnoembed : ∀ f ∈ s, f.anonymous = false)
    (f : FieldDesc) (v : Val) (hf : (f, v) ∈ s.zip r) (hk : f.key ≠ [45]) (data : Bytes)
    (hd : marshalValue 16 f.kind f.delim v = .ok data) :
    (f.key ∈ p.order ↔ (f.required = true ∨ data ≠ [])) ∨
      2 ≤ (knownKeys s).count f.key :=
  C09_omit_required_partial s r p h f v hf (hnoembed f (Lemmas.Codec.mem_zip_left hf)) hk data hd

/-- A schema with a required and an optional string, an int, a bool, a skipped and an
    anonymous non-Paragraph field: the empty optional string is omitted, the empty required
    one is written, 0 and false are written ("0", "no"). -/
def sampleSchema : Schema :=
  [.mk "Name" (Bytes.ofString "Name") .str [] [] true false false,
   .mk "Note" (Bytes.ofString "Note") .str [] [] false false false,
   .mk "N" (Bytes.ofString "N") .int [] [] false false false,
   .mk "Ok" (Bytes.ofString "Ok") .bool [] [] false false false,
   .mk "Hidden" [45] .str [] [] false false false,
   .mk "Inner" (Bytes.ofString "Inner") (.nested []) [] [] false false true]

example :
    convertToParagraph sampleSchema [.str [], .zero, .zero, .bool false, .str [120], .zero] =
      .ok ⟨[Bytes.ofString "Name", Bytes.ofString "N", Bytes.ofString "Ok"],
        [(Bytes.ofString "Name", []), (Bytes.ofString "N", [48]),
         (Bytes.ofString "Ok", Bytes.ofString "no")]⟩ ∧
    (sampleSchema.map FieldDesc.key).Nodup := by
  decide +kernel

/-- absence of a required field on input is an error (whatever the other fields are,
    nested structs included) -/
theorem C09_required_missing (p : Paragraph) (s : Schema) (old : List Val) (f : FieldDesc)
    (hf : f ∈ s) (hr : f.required = true) (hk : f.key ≠ [45]) (ha : f.anonymous = false)
    (hmiss : lookup f.key p.values = none) :
    ∃ e, decodeStruct p s old = .error e :=
  Lemmas.Codec.decodeFields_required_missing p f hr hk ha hmiss s _ old hf

example :
    ∃ e, decodeStruct ⟨[Bytes.ofString "Note"], [(Bytes.ofString "Note", [120])]⟩
      sampleSchema [] = .error e :=
  C09_required_missing _ sampleSchema [] (.mk "Name" (Bytes.ofString "Name") .str [] [] true false false)
    (by simp [sampleSchema]) rfl (by decide +kernel) rfl (by decide +kernel)

/-- marshalling never panics, and never runs out of fuel on schemas whose kinds are nested
    at most 15 deep (`depthOK`; every Go type in use has depth ≤ 1) -/
theorem C09_marshal_total (s : Schema) (r : List Val) :
    convertToParagraph s r ≠ .error .panic ∧
      (depthOK s = true → convertToParagraph s r ≠ .error .fuel) :=
  Lemmas.Codec.convert_total s r

example : depthOK sampleSchema = true ∧
    depthOK [.mk "L" [76] (.slice (.slice .str)) [] [] false false false] = true := by
  decide +kernel

/-- the depth hypothesis cannot be dropped: 16 nested slices exhaust the fuel -/
example :
    let k16 : Kind := (List.range 16).foldl (fun k _ => .slice k) .str
    let v16 : Val := (List.range 16).foldl (fun v _ => .list [v]) (.str [120])
    kindDepth k16 = 16 ∧
    convertToParagraph [.mk "L" [76] k16 [] [] false false false] [v16] = .error .fuel := by
  decide +kernel

/-! ### Stage C — the round trip at the paragraph level -/

/-- A record of a flat schema (`flatSchema`: named, non-skipped fields with distinct keys,
    each a string / int / uint / bool / custom value or a list of such; `multiline` only on
    lists whose strip set has the newline) whose values match their kinds (`wfRec`) is
    decoded from its own paragraph to the same record, the Go zero value identified with
    `.zero` (`SameRec`). -/
theorem C09_roundtrip_paragraph (s : Schema) (r : List Val) (p : Paragraph)
    (hs : flatSchema s = true) (hr : wfRec s r) (h : convertToParagraph s r = .ok p) :
    ∃ r', decodeStruct p s [] = .ok r' ∧ SameRec s r r' :=
  Lemmas.Codec.roundtrip_paragraph hs hr h

/-- the `lawful` hypothesis on custom values is discharged for versions by C03 … -/
theorem C09_lawful_version (s : Bytes) (v : Version.Version) (h : Version.parse s = .ok v)
    (mustDecode : Bool) : wfCustom mustDecode "Version" (.version v) :=
  Lemmas.Codec.wfCustom_version h mustDecode

/-- … and for architectures by C05 -/
theorem C09_lawful_arch (n : Bytes) (a : Dep.Arch) (h : Dep.parseArch n = .ok a)
    (mustDecode : Bool) : wfCustom mustDecode "Arch" (.arch a) :=
  Lemmas.Codec.wfCustom_arch h mustDecode

/-- A flat schema with every kind: required string, required version, optional architecture,
    int, uint, bool, a ", "-separated list with a strip set, a list with the default
    delimiter, a multi-line newline-separated list of ints, an optional string. -/
def flatSample : Schema :=
  let B := Bytes.ofString
  [.mk "Package" (B "Package") .str [] [] true false false,
   .mk "Version" (B "Version") (.custom "Version") [] [] true false false,
   .mk "Arch" (B "Architecture") (.custom "Arch") [] [] false false false,
   .mk "Size" (B "Size") .int [] [] false false false,
   .mk "Count" (B "Count") .uint [] [] false false false,
   .mk "Essential" (B "Essential") .bool [] [] false false false,
   .mk "Binaries" (B "Binary") (.slice .str) (B ", ") (B "\n\r\t ") false false false,
   .mk "Tags" (B "Tag") (.slice .str) [] [] false false false,
   .mk "Nums" (B "Nums") (.slice .int) [10] (B "\n\r\t ") true true false,
   .mk "Note" (B "Note") .str [] [] false false false]

/-- … and a record for it: an untouched architecture (rendered "--"), a negative int, list
    elements with inner blanks and commas-without-blank, an untouched int inside a list, an
    empty optional string (omitted, comes back as the zero value). -/
def flatRecord : List Val :=
  let B := Bytes.ofString
  [.str (B "hello"), .custom (.version ⟨1, B "2.30", B "10"⟩), .zero, .int (-5), .uint 7,
   .bool true, .list [.str (B "a b,c"), .str (B "d")], .list [.str (B "x"), .str (B "y,z")],
   .list [.int 1, .zero], .str []]

example : flatSchema flatSample = true := by decide +kernel

example : wfRec flatSample flatRecord := by
  refine ⟨trivial, ?_, ?_, (show -(2^63 : Int) ≤ -5 ∧ (-5 : Int) < 2^63 by decide),
    (show 7 < 2^64 by decide), trivial, ?_, ?_, ?_, trivial, trivial⟩
  · exact C09_lawful_version (Bytes.ofString "1:2.30-10") _ (by decide +kernel) true
  · exact ⟨_, rfl, C09_lawful_arch (Bytes.ofString "--") _ (by decide +kernel) false⟩
  · intro x hx
    simp only [List.mem_cons, List.not_mem_nil, or_false] at hx
    rcases hx with rfl | rfl <;> exact ⟨trivial, _, rfl, by decide +kernel⟩
  · intro x hx
    simp only [List.mem_cons, List.not_mem_nil, or_false] at hx
    rcases hx with rfl | rfl <;> exact ⟨trivial, _, rfl, by decide +kernel⟩
  · intro x hx
    simp only [List.mem_cons, List.not_mem_nil, or_false] at hx
    rcases hx with rfl | rfl
    · exact ⟨(show -(2^63 : Int) ≤ 1 ∧ (1 : Int) < 2^63 by decide), _, rfl, by decide +kernel⟩
    · exact ⟨trivial, _, rfl, by decide +kernel⟩

example :
    let B := Bytes.ofString
    convertToParagraph flatSample flatRecord =
      .ok ⟨[B "Package", B "Version", B "Architecture", B "Size", B "Count", B "Essential",
            B "Binary", B "Tag", B "Nums"],
        [(B "Package", B "hello"), (B "Version", B "1:2.30-10"), (B "Architecture", B "--"),
         (B "Size", B "-5"), (B "Count", B "7"), (B "Essential", B "yes"),
         (B "Binary", B "a b,c, d"), (B "Tag", B "x y,z"), (B "Nums", B "\n1\n0")]⟩ := by
  decide +kernel

/-! ### Stage D — the round trip through the text -/

/-- `Marshal` then `Unmarshal`: a well-formed record of a flat schema whose fields all have
    well-formed names, are not `multiline` and render as text (`textRec`: one trimmed line;
    or, in a list field whose strip set has the newline, any text lines in the sense of
    C08's `textValue`), with at least one field written (`someWritten`; an empty paragraph
    is no paragraph), is marshalled to a text that unmarshals to the same record. -/
theorem C09_roundtrip (s : Schema) (r : List Val) (hs : flatSchema s = true) (hr : wfRec s r)
    (ht : textRec s r = true) (hne : someWritten s r = true) :
    ∃ text r', marshal s r = .ok text ∧ unmarshal s text = .ok r' ∧ SameRec s r r' :=
  Lemmas.Codec.roundtrip_text hs hr ht hne

/-- marshalling a well-formed record of a flat schema cannot fail -/
theorem C09_marshal_ok (s : Schema) (r : List Val) (hs : flatSchema s = true) (hr : wfRec s r) :
    ∃ p, convertToParagraph s r = .ok p :=
  Lemmas.Codec.convert_ok_of_wf hs hr

/-- the flat sample without its multi-line list -/
def textSample : Schema := flatSample.take 8 ++ flatSample.drop 9
def textRecord : List Val := flatRecord.take 8 ++ flatRecord.drop 9

example : flatSchema textSample = true ∧ textRec textSample textRecord = true ∧
    someWritten textSample textRecord = true ∧
    marshal textSample textRecord = .ok (Bytes.ofString
      ("Package: hello\nVersion: 1:2.30-10\nArchitecture: --\nSize: -5\nCount: 7\n" ++
       "Essential: yes\nBinary: a b,c, d\nTag: x y,z\n")) := by
  decide +kernel

example : wfRec textSample textRecord := by
  refine ⟨trivial, ?_, ?_, (show -(2^63 : Int) ≤ -5 ∧ (-5 : Int) < 2^63 by decide),
    (show 7 < 2^64 by decide), trivial, ?_, ?_, trivial, trivial⟩
  · exact C09_lawful_version (Bytes.ofString "1:2.30-10") _ (by decide +kernel) true
  · exact ⟨_, rfl, C09_lawful_arch (Bytes.ofString "--") _ (by decide +kernel) false⟩
  · intro x hx
    simp only [List.mem_cons, List.not_mem_nil, or_false] at hx
    rcases hx with rfl | rfl <;> exact ⟨trivial, _, rfl, by decide +kernel⟩
  · intro x hx
    simp only [List.mem_cons, List.not_mem_nil, or_false] at hx
    rcases hx with rfl | rfl <;> exact ⟨trivial, _, rfl, by decide +kernel⟩

/-- A newline-separated list of file hashes (the `Files` field of a .dsc): the value has
    two lines, the second is written as a continuation line, the reader appends a newline,
    the strip set removes it. -/
def filesSample : Schema :=
  [.mk "Source" (Bytes.ofString "Source") .str [] [] true false false,
   .mk "Files" (Bytes.ofString "Files") (.slice (.custom "MD5FileHash")) [10]
     (Bytes.ofString "\n\r\t ") false false false]

def hashA : FileHash :=
  { alg := sMd5, hash := Bytes.ofString "d41d8cd9", size := 12,
    filename := Bytes.ofString "a.dsc", byHash := [] }

def hashB : FileHash :=
  { alg := sMd5, hash := Bytes.ofString "900150983c", size := 3,
    filename := Bytes.ofString "a.tar.gz", byHash := [] }

def filesRecord : List Val :=
  [.str (Bytes.ofString "hello"), .list [.custom (.hash hashA), .custom (.hash hashB)]]

example : flatSchema filesSample = true ∧ textRec filesSample filesRecord = true ∧
    someWritten filesSample filesRecord = true ∧
    marshal filesSample filesRecord = .ok (Bytes.ofString
      "Source: hello\nFiles: d41d8cd9 12 a.dsc\n 900150983c 3 a.tar.gz\n") := by
  decide +kernel

example : wfRec filesSample filesRecord := by
  refine ⟨trivial, ?_, trivial⟩
  intro x hx
  simp only [List.mem_cons, List.not_mem_nil, or_false] at hx
  rcases hx with rfl | rfl
  · refine ⟨⟨_, rfl, fun h0 => absurd h0 (by decide +kernel), fun _ => ?_⟩, _, rfl, by decide +kernel⟩
    have : parseFileHash sMd5 (renderFileHash hashA) = .ok hashA := by decide +kernel
    exact congrArg (Except.map Custom.hash) this
  · refine ⟨⟨_, rfl, fun h0 => absurd h0 (by decide +kernel), fun _ => ?_⟩, _, rfl, by decide +kernel⟩
    have : parseFileHash sMd5 (renderFileHash hashB) = .ok hashB := by decide +kernel
    exact congrArg (Except.map Custom.hash) this

/-- `textRec` cannot be dropped: a string that starts with a blank is written on a
    continuation line and comes back with a trailing newline; a multi-line value comes back
    with one, too. -/
example :
    let s : Schema := [.mk "K" [75] .str [] [] false false false]
    textRec s [.str (Bytes.ofString " x")] = false ∧
    marshal s [.str (Bytes.ofString " x")] = .ok (Bytes.ofString "K: \n  x\n") ∧
    (match unmarshal s (Bytes.ofString "K: \n  x\n") with
     | .ok [.str b] => b == Bytes.ofString " x\n"
     | _ => false) = true ∧
    (match unmarshal s (Bytes.ofString "K: a\n b\n") with
     | .ok [.str b] => b == Bytes.ofString "a\nb\n"
     | _ => false) = true := by
  decide +kernel

/-- Why `flatField` allows `multiline` only on lists: a multi-line string is stored with its
    leading newline and decodes from the paragraph with it; through the text it comes back
    with a trailing newline instead. -/
example :
    let B := Bytes.ofString
    let s : Schema := [.mk "D" [68] .str [] [] false true false]
    flatSchema s = false ∧
    convertToParagraph s [.str (B "foo")] = .ok ⟨[[68]], [([68], B "\nfoo")]⟩ ∧
    (match decodeStruct ⟨[[68]], [([68], B "\nfoo")]⟩ s [] with
     | .ok [.str b] => b == B "\nfoo"
     | _ => false) = true ∧
    marshal s [.str (B "foo")] = .ok (B "D: \n foo\n") ∧
    (match unmarshal s (B "D: \n foo\n") with
     | .ok [.str b] => b == B "foo\n"
     | _ => false) = true := by
  decide +kernel

/-! ### Stage E — pass-through with an embedded Paragraph -/

/-- A struct that embeds the `Paragraph` it was decoded from (first field, anonymous), its
    other fields named, with distinct keys: marshalling keeps every field of the embedded
    paragraph the schema does not know, with its value and in its place; a known field
    that is written carries its new rendering, not the embedded text; a known optional
    field whose rendering is empty is not written at all — it does not come back from the
    embedded paragraph. -/
theorem C09_passthrough (f0 : FieldDesc) (s' : Schema) (p0 : Paragraph) (r' : List Val)
    (p : Paragraph) (h0a : f0.anonymous = true) (h0k : f0.kind = .para)
    (hs' : ∀ g ∈ s', g.anonymous = false) (hnd : (knownKeys (f0 :: s')).Nodup)
    (hp0 : p0.order.Nodup) (hlisted : ∀ k, (lookup k p0.values).isSome = true → k ∈ p0.order)
    (h : convertToParagraph (f0 :: s') (.para p0 :: r') = .ok p) :
    (∀ k, k ∉ knownKeys (f0 :: s') → p.get k = p0.get k) ∧
    (p.order.filter (fun k => !(knownKeys (f0 :: s')).contains k) =
      p0.order.filter (fun k => !(knownKeys (f0 :: s')).contains k)) ∧
    (∀ f v data, (f, v) ∈ (f0 :: s').zip (.para p0 :: r') → f.anonymous = false → f.key ≠ [45] →
      marshalValue 16 f.kind f.delim v = .ok data → (data ≠ [] ∨ f.required = true) →
      p.get f.key = (if f.multiline then 10 :: data else data)) ∧
    (∀ f v, (f, v) ∈ (f0 :: s').zip (.para p0 :: r') → f.anonymous = false → f.key ≠ [45] →
      marshalValue 16 f.kind f.delim v = .ok [] → f.required = false → f.key ∉ p.order) := by
  have hcount : ∀ k, (knownKeys (f0 :: s')).count k ≤ 1 := List.nodup_iff_count.mp hnd
  obtain ⟨h1, h2⟩ := Lemmas.Codec.passthrough h0a h0k hs' hp0 hlisted h
  refine ⟨h1, h2, fun f v data hfv ha hk hm hw => ?_, fun f v hfv ha hk hm hr => ?_⟩
  · have hl := Lemmas.Codec.lookup_convert h hfv ha hk hm (hcount _)
    have hc : ¬ (data.isEmpty && !f.required) = true := by
      rcases hw with hw | hw
      · simp [hw]
      · simp [hw]
    rw [if_neg hc] at hl
    unfold Paragraph.get
    rw [hl]
    rfl
  · have := Lemmas.Codec.mem_order_convert h hfv ha hk hm (hcount _)
    rw [this, hr]
    simp

/-- The scenario of the repaired defect "cleared known field resurrected": a paragraph with
    two known and two unknown fields is decoded, `Package` is changed, `Note` is cleared;
    what is written has the new `Package`, no `Note`, and both unknown fields in place. -/
example :
    let B := Bytes.ofString
    let s : Schema :=
      [.mk "Paragraph" (B "Paragraph") .para [] [] false false true,
       .mk "Package" (B "Package") .str [] [] true false false,
       .mk "Note" (B "Note") .str [] [] false false false,
       .mk "Size" (B "Size") .int [] [] false false false]
    let p0 : Paragraph := ⟨[B "Package", B "X-Custom", B "Note", B "Y"],
      [(B "Package", B "old"), (B "X-Custom", B "keep"), (B "Note", B "stale"), (B "Y", B "z")]⟩
    (knownKeys s).Nodup ∧ p0.order.Nodup ∧
    (∀ k ∈ p0.values.map Prod.fst, k ∈ p0.order) ∧
    convertToParagraph s [.para p0, .str (B "new"), .str [], .int 3] =
      .ok ⟨[B "Package", B "X-Custom", B "Y", B "Size"],
        [(B "Package", B "new"), (B "X-Custom", B "keep"), (B "Y", B "z"), (B "Size", B "3")]⟩ := by
  decide +kernel

/-- A field that the paragraph carries decodes to what the paragraph says, whatever the
    target held before (a struct decoded into more than once, e.g. one struct in a Decoder
    loop): the previous content of the field is not an input of the result. -/
theorem C09_decode_value_fresh (n : Nat) (k : Kind) (delim strip : Bytes) (old : Val) (value : Bytes) :
    decodeValue n k delim strip old value = decodeValue n k delim strip .zero value := by
  cases n with
  | zero => rfl
  | succ n => cases k <;> simp [decodeValue]

/-- the scenario of the repaired defect: a list field decoded into a target that already
    holds a list gives what a fresh target gets (the theorem has no hypotheses) -/
example :
    decodeValue 16 (.slice .str) [] [] (.list [.str (Bytes.ofString "stale")]) (Bytes.ofString "a b")
      = decodeValue 16 (.slice .str) [] [] .zero (Bytes.ofString "a b") :=
  C09_decode_value_fresh _ _ _ _ _ _

end GoDebian.Props.C09
