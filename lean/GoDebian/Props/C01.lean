/-
  C01 — version comparison orders versions exactly as dpkg does.
  Property theorems only; lemmas live in GoDebian/Lemmas.
-/
import GoDebian.Model.Version
import GoDebian.Spec.Version

namespace GoDebian.Props.C01
open GoDebian GoDebian.Version

/-- The property's own examples, evaluated on the model by the kernel. -/
theorem C01_tilde_plus :
    verrevcmp (Bytes.ofString "1.0~rc1") (Bytes.ofString "1.0") < 0 ∧
    verrevcmp (Bytes.ofString "1.0") (Bytes.ofString "1.0+b1") < 0 := by
  decide +kernel

end GoDebian.Props.C01
