/-
  C01 — version comparison orders versions exactly as dpkg does.
  Property theorems only; lemmas live in GoDebian/Lemmas.
-/
import GoDebian.Model.Version
import GoDebian.Spec.Version
import GoDebian.Lemmas.VersionCompare

namespace GoDebian.Props.C01
open GoDebian GoDebian.Version

/-- Main theorem: the Go loop `verrevcmp` computes the Debian Policy 5.6.12 order, for
    every pair of NUL-free strings of any length. -/
theorem C01_verrevcmp (a b : Bytes) (ha : 0 ∉ a) (hb : 0 ∉ b) :
    sgn (verrevcmp a b) = Spec.Version.ordInt (Spec.Version.cmp a b) :=
  Lemmas.Version.verrevcmp_spec a b ha hb

example :
    0 ∉ Bytes.ofString "1.0~rc1+b2" ∧ 0 ∉ Bytes.ofString "1.0~rc1+b10" ∧
    Spec.Version.cmp (Bytes.ofString "1.0~rc1+b2") (Bytes.ofString "1.0~rc1+b10") = .lt := by
  decide +kernel

/-- The NUL-freeness hypothesis cannot be dropped: Go's `order` gives byte 0 the weight
    of the end of the string. -/
example : sgn (verrevcmp [0] []) ≠ Spec.Version.ordInt (Spec.Version.cmp [0] []) := by
  decide +kernel

/-- `Compare` on whole versions is the Policy order: epochs numerically, then upstream,
    then revision. -/
theorem C01_compare (x y : Version)
    (hx : 0 ∉ x.upstream ∧ 0 ∉ x.revision) (hy : 0 ∉ y.upstream ∧ 0 ∉ y.revision) :
    sgn (Version.compare x y) = Spec.Version.ordInt (Spec.Version.compare x y) :=
  Lemmas.Version.compare_spec x y hx hy

example :
    let x : Version := ⟨1, Bytes.ofString "2.30", Bytes.ofString "10+deb11u1"⟩
    let y : Version := ⟨1, Bytes.ofString "2.30", Bytes.ofString "10~bpo1"⟩
    (0 ∉ x.upstream ∧ 0 ∉ x.revision) ∧ (0 ∉ y.upstream ∧ 0 ∉ y.revision) ∧
    Spec.Version.compare x y = .gt := by
  decide +kernel

/-- A missing revision equals revision "0", for every epoch and every upstream part
    (no NUL-freeness needed). -/
theorem C01_missing_revision (e : Nat) (u : Bytes) :
    Version.compare ⟨e, u, []⟩ ⟨e, u, [48]⟩ = 0 :=
  Lemmas.Version.compare_missing_revision e u

/-- Digit runs compare numerically with no limit on magnitude (specification side). -/
theorem C01_digits_numeric (da db : Bytes)
    (ha : ∀ c ∈ da, 48 ≤ c ∧ c ≤ 57) (hb : ∀ c ∈ db, 48 ≤ c ∧ c ≤ 57) :
    Spec.Version.cmp da db = compare (Spec.Version.natVal da) (Spec.Version.natVal db) :=
  Lemmas.Version.cmp_digits da db (Lemmas.Version.allDigits_of_bounds ha)
    (Lemmas.Version.allDigits_of_bounds hb)

/-- Digit runs compare numerically with no limit on magnitude (Go side): the sign of
    `verrevcmp` on two digit strings is the comparison of their unbounded values. -/
theorem C01_digits_numeric_model (da db : Bytes)
    (ha : ∀ c ∈ da, 48 ≤ c ∧ c ≤ 57) (hb : ∀ c ∈ db, 48 ≤ c ∧ c ≤ 57) :
    sgn (verrevcmp da db) =
      Spec.Version.ordInt (compare (Spec.Version.natVal da) (Spec.Version.natVal db)) := by
  rw [← C01_digits_numeric da db ha hb]
  exact C01_verrevcmp da db
    (Lemmas.Version.not_mem_zero_of_allDigits (Lemmas.Version.allDigits_of_bounds ha))
    (Lemmas.Version.not_mem_zero_of_allDigits (Lemmas.Version.allDigits_of_bounds hb))

/-- 2^64 + 1 against 2^64 with leading zeros: beyond any machine integer. -/
example :
    (∀ c ∈ Bytes.ofString "18446744073709551617", 48 ≤ c ∧ c ≤ 57) ∧
    (∀ c ∈ Bytes.ofString "00018446744073709551616", 48 ≤ c ∧ c ≤ 57) ∧
    verrevcmp (Bytes.ofString "18446744073709551617")
      (Bytes.ofString "00018446744073709551616") > 0 := by
  decide +kernel

/-- The property's own examples, evaluated on the model by the kernel. -/
theorem C01_tilde_plus :
    verrevcmp (Bytes.ofString "1.0~rc1") (Bytes.ofString "1.0") < 0 ∧
    verrevcmp (Bytes.ofString "1.0") (Bytes.ofString "1.0+b1") < 0 := by
  decide +kernel

end GoDebian.Props.C01
