/-
  C05 — property theorems (see DESIGN.md §5 C05).
  Property theorems only; lemmas live in GoDebian/Lemmas/ArchRoundTrip.lean and
  GoDebian/Lemmas/DepFix{Basic,Inv,Total,Render,Ctl,Poss,Fix}.lean.
-/
import GoDebian.Model.Dependency
import GoDebian.Lemmas.ArchIs
import GoDebian.Lemmas.ArchRoundTrip
import GoDebian.Lemmas.DepFixFix

namespace GoDebian.Props.C05
open GoDebian GoDebian.Dep

/-- Parse, render, parse gives back the same (abi, os, cpu) triple for every
    architecture name of any length: wildcards are neither widened nor narrowed. -/
theorem C05_arch (n : Bytes) (a : Arch) (h : parseArch n = .ok a) :
    parseArch a.render = .ok a :=
  Lemmas.Arch.parseArch_roundtrip n a h

/-- One-, two- and three-part names, a wildcard, and the corner cases: an empty cpu
    part, a cpu part that itself contains '-', "any" in the os position. -/
example :
    parseArch (Bytes.ofString "amd64") = .ok ⟨sGnu, sLinux, Bytes.ofString "amd64"⟩ ∧
    parseArch (Bytes.ofString "linux-any") = .ok ⟨sAny, sLinux, sAny⟩ ∧
    parseArch (Bytes.ofString "musl-linux-arm64") =
      .ok ⟨Bytes.ofString "musl", sLinux, Bytes.ofString "arm64"⟩ ∧
    parseArch (Bytes.ofString "gnu-linux-") = .ok ⟨sGnu, sLinux, []⟩ ∧
    parseArch (Bytes.ofString "a-b-c-d") =
      .ok ⟨Bytes.ofString "a", Bytes.ofString "b", Bytes.ofString "c-d"⟩ ∧
    parseArch (Bytes.ofString "any-all") = .ok ⟨sAny, sAny, sAll⟩ := by
  decide +kernel

/-- The renderings of those results, which parse back to the same triples. -/
example :
    (⟨sGnu, sLinux, Bytes.ofString "amd64"⟩ : Arch).render = Bytes.ofString "amd64" ∧
    (⟨sAny, sLinux, sAny⟩ : Arch).render = Bytes.ofString "linux-any" ∧
    (⟨sGnu, sLinux, []⟩ : Arch).render = Bytes.ofString "gnu-linux-" ∧
    (⟨sAny, sAny, sAny⟩ : Arch).render = Bytes.ofString "any" ∧
    (⟨sAny, sAny, sAll⟩ : Arch).render = Bytes.ofString "any-all" ∧
    (⟨Bytes.ofString "a", Bytes.ofString "b", Bytes.ofString "c-d"⟩ : Arch).render =
      Bytes.ofString "a-b-c-d" := by
  decide +kernel

/-! ### dependencies: parse, render, parse -/

/-- What `Parse` can return, on arbitrary input bytes (`Lemmas.DepFix.OutInv`): every
    relation is non-empty; a substvar is exactly `⟨name, nil, nil, [], nil, true⟩` with a
    name free of NUL and '}'; a package has a non-empty name that does not start with '$'
    and contains no name-stop byte (':' white space '(' ',' '|' NUL — but it may contain
    '[' or '<', as in "foo:any[x]"), a qualifier and arch-list entries that come from
    `ParseArch` of stop-free names, an arch list that is non-empty or the initial
    `⟨false, []⟩`, one of the five operators with a number free of NUL, ')' and leading or
    trailing white space, and non-empty stage sets of stages that have a '!' or a
    non-empty name free of NUL, '!', '>' and white space. -/
theorem C05_output_invariant (s : Bytes) (d : Dependency) (h : Dep.parse s = .ok d) :
    Lemmas.DepFix.OutInv d :=
  Lemmas.DepFix.parse_outInv h

/-- The invariant excludes values: a dependency with an empty relation does not satisfy it. -/
example : ¬ Lemmas.DepFix.OutInv [[]] := fun h => (h [] (by simp)).1 rfl

/-- For every string the parser accepts, the rendered form is accepted and parses to the
    identical value: nothing is lost by `String()`. -/
theorem C05_fixpoint (s : Bytes) (d : Dependency) (h : Dep.parse s = .ok d) :
    Dep.parse (Dep.render d) = .ok d :=
  Lemmas.DepFix.parse_fixpoint h

/-- Rendering reaches a fixpoint in one step. -/
theorem C05_render_stable (s : Bytes) (d : Dependency) (h : Dep.parse s = .ok d) :
    ∃ d', Dep.parse (Dep.render d) = .ok d' ∧ Dep.render d' = Dep.render d :=
  ⟨d, C05_fixpoint s d h, rfl⟩

/-- Accepted inputs far from canonical form: a qualifier in the middle of the name, a
    second qualifier that overrides the first, controllers in a non-canonical order, an
    empty stage name, an empty arch list and an empty stage set (dropped), a substvar
    glued to the next possibility, a version after a substvar (dropped), empty relations
    and alternatives (dropped), odd spacing inside the version.  Their renderings differ
    from the input and re-parse to the same value. -/
example :
    (Dep.parse (Bytes.ofString "foo:any[x]:all (>=  1 2  ) <a !b> <!> [] [!x !y] <>")).map Dep.render =
      .ok (Bytes.ofString "foo[x]:all [!x !y] (>= 1 2) <a !b> <!>") ∧
    Dep.parse (Bytes.ofString "foo[x]:all [!x !y] (>= 1 2) <a !b> <!>") =
      Dep.parse (Bytes.ofString "foo:any[x]:all (>=  1 2  ) <a !b> <!> [] [!x !y] <>") ∧
    (Dep.parse (Bytes.ofString "  ${foo}bar (>==1),, ${x} (>= 2)| |z:linux-any-amd64 ,")).map Dep.render =
      .ok (Bytes.ofString "${foo} | bar (>= =1), ${x} | z:linux-any-amd64") ∧
    Dep.parse (Bytes.ofString "${foo} | bar (>= =1), ${x} | z:linux-any-amd64") =
      Dep.parse (Bytes.ofString "  ${foo}bar (>==1),, ${x} (>= 2)| |z:linux-any-amd64 ,") := by
  decide +kernel

end GoDebian.Props.C05
