/-
  C05 — property theorems (see DESIGN.md §5 C05).
-/
import GoDebian.Model.Dependency

namespace GoDebian.Props.C05
end GoDebian.Props.C05
