/-
  C05 — property theorems (see DESIGN.md §5 C05).
  Property theorems only; lemmas live in GoDebian/Lemmas/ArchRoundTrip.lean.
-/
import GoDebian.Model.Dependency
import GoDebian.Lemmas.ArchIs
import GoDebian.Lemmas.ArchRoundTrip

namespace GoDebian.Props.C05
open GoDebian GoDebian.Dep

/-- Parse, render, parse gives back the same (abi, os, cpu) triple for every
    architecture name of any length: wildcards are neither widened nor narrowed. -/
theorem C05_arch (n : Bytes) (a : Arch) (h : parseArch n = .ok a) :
    parseArch a.render = .ok a :=
  Lemmas.Arch.parseArch_roundtrip n a h

/-- One-, two- and three-part names, a wildcard, and the corner cases: an empty cpu
    part, a cpu part that itself contains '-', "any" in the os position. -/
example :
    parseArch (Bytes.ofString "amd64") = .ok ⟨sGnu, sLinux, Bytes.ofString "amd64"⟩ ∧
    parseArch (Bytes.ofString "linux-any") = .ok ⟨sAny, sLinux, sAny⟩ ∧
    parseArch (Bytes.ofString "musl-linux-arm64") =
      .ok ⟨Bytes.ofString "musl", sLinux, Bytes.ofString "arm64"⟩ ∧
    parseArch (Bytes.ofString "gnu-linux-") = .ok ⟨sGnu, sLinux, []⟩ ∧
    parseArch (Bytes.ofString "a-b-c-d") =
      .ok ⟨Bytes.ofString "a", Bytes.ofString "b", Bytes.ofString "c-d"⟩ ∧
    parseArch (Bytes.ofString "any-all") = .ok ⟨sAny, sAny, sAll⟩ := by
  decide +kernel

/-- The renderings of those results, which parse back to the same triples. -/
example :
    (⟨sGnu, sLinux, Bytes.ofString "amd64"⟩ : Arch).render = Bytes.ofString "amd64" ∧
    (⟨sAny, sLinux, sAny⟩ : Arch).render = Bytes.ofString "linux-any" ∧
    (⟨sGnu, sLinux, []⟩ : Arch).render = Bytes.ofString "gnu-linux-" ∧
    (⟨sAny, sAny, sAny⟩ : Arch).render = Bytes.ofString "any" ∧
    (⟨sAny, sAny, sAll⟩ : Arch).render = Bytes.ofString "any-all" ∧
    (⟨Bytes.ofString "a", Bytes.ofString "b", Bytes.ofString "c-d"⟩ : Arch).render =
      Bytes.ofString "a-b-c-d" := by
  decide +kernel

end GoDebian.Props.C05
