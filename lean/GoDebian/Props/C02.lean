/-
  C02 — version comparison is a total preorder, so sorting is well defined.
  (Theorems are being added by the proof work; see DESIGN.md §5 C02.)
-/
import GoDebian.Model.Version

namespace GoDebian.Props.C02
end GoDebian.Props.C02
