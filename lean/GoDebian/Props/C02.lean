/-
  C02 — version comparison is a total preorder (on versions whose components contain no
  NUL byte), so that Go's sort adapter `Less` is a strict weak order and sorting works.
  Property theorems only; lemmas live in GoDebian/Lemmas.
-/
import GoDebian.Model.Version
import GoDebian.Spec.Version
import GoDebian.Lemmas.VersionCompare

namespace GoDebian.Props.C02
open GoDebian GoDebian.Version

/-- Both string components are free of NUL bytes (always true of parsed versions). -/
def NulFree (v : Version) : Prop := 0 ∉ v.upstream ∧ 0 ∉ v.revision

/-- Reflexivity holds for every version, NUL bytes or not. -/
theorem C02_refl (a : Version) : Version.compare a a = 0 :=
  Lemmas.Version.compare_self a

/-- Antisymmetry of the sign: swapping the arguments negates the result. -/
theorem C02_swap (a b : Version) (ha : NulFree a) (hb : NulFree b) :
    sgn (Version.compare b a) = - sgn (Version.compare a b) :=
  Lemmas.Version.compare_swap a b ha hb

example :
    let a : Version := ⟨0, Bytes.ofString "1.0~rc1", Bytes.ofString "1"⟩
    let b : Version := ⟨0, Bytes.ofString "1.0", []⟩
    NulFree a ∧ NulFree b ∧ sgn (Version.compare a b) = -1 := by
  refine ⟨⟨?_, ?_⟩, ⟨?_, ?_⟩, ?_⟩ <;> decide +kernel

/-- Totality: any two versions are comparable. -/
theorem C02_total (a b : Version) (ha : NulFree a) (hb : NulFree b) :
    Version.compare a b ≤ 0 ∨ Version.compare b a ≤ 0 :=
  Lemmas.Version.compare_total a b ha hb

/-- Transitivity of "not greater". -/
theorem C02_trans (a b c : Version) (ha : NulFree a) (hb : NulFree b) (hc : NulFree c) :
    Version.compare a b ≤ 0 → Version.compare b c ≤ 0 → Version.compare a c ≤ 0 :=
  Lemmas.Version.compare_trans a b c ha hb hc

example :
    let a : Version := ⟨0, Bytes.ofString "1.0~rc1", Bytes.ofString "1"⟩
    let b : Version := ⟨0, Bytes.ofString "1.0", []⟩
    let c : Version := ⟨0, Bytes.ofString "1.0", Bytes.ofString "0+b1"⟩
    NulFree a ∧ NulFree b ∧ NulFree c ∧
      Version.compare a b ≤ 0 ∧ Version.compare b c ≤ 0 := by
  refine ⟨⟨?_, ?_⟩, ⟨?_, ?_⟩, ⟨?_, ?_⟩, ?_, ?_⟩ <;> decide +kernel

/-- Versions that compare equal are indistinguishable by comparison with any third. -/
theorem C02_congr (a b c : Version) (ha : NulFree a) (hb : NulFree b) (hc : NulFree c) :
    Version.compare a b = 0 → sgn (Version.compare a c) = sgn (Version.compare b c) :=
  Lemmas.Version.compare_congr a b c ha hb hc

/-- "1.0" and "1.00-0" are different strings that compare equal. -/
example :
    let a : Version := ⟨0, Bytes.ofString "1.0", []⟩
    let b : Version := ⟨0, Bytes.ofString "1.00", Bytes.ofString "0"⟩
    NulFree a ∧ NulFree b ∧ a ≠ b ∧ Version.compare a b = 0 := by
  refine ⟨⟨?_, ?_⟩, ⟨?_, ?_⟩, ?_, ?_⟩ <;> decide +kernel

/-! ### Go's sort adapter -/

/-- `Less(i, j)` of the `sort.Interface` adapter over a slice of versions. -/
def Less (s : List Version) (i j : Fin s.length) : Prop :=
  Version.compare (s.get i) (s.get j) < 0

theorem C02_less_irrefl (s : List Version) (i : Fin s.length) : ¬ Less s i i := by
  unfold Less; rw [C02_refl]; omega

theorem C02_less_trans (s : List Version) (hs : ∀ v ∈ s, NulFree v) (i j k : Fin s.length) :
    Less s i j → Less s j k → Less s i k :=
  Lemmas.Version.compare_lt_trans _ _ _ (hs _ (List.get_mem s i)) (hs _ (List.get_mem s j))
    (hs _ (List.get_mem s k))

theorem C02_less_asymm (s : List Version) (hs : ∀ v ∈ s, NulFree v) (i j : Fin s.length) :
    Less s i j → ¬ Less s j i :=
  fun h h' => C02_less_irrefl s i (C02_less_trans s hs i j i h h')

/-- Incomparability under `Less` is transitive: with irreflexivity and transitivity this
    makes `Less` a strict weak order, which is what `sort.Sort` requires. -/
theorem C02_incomparable_trans (s : List Version) (hs : ∀ v ∈ s, NulFree v)
    (i j k : Fin s.length) :
    (¬ Less s i j ∧ ¬ Less s j i) → (¬ Less s j k ∧ ¬ Less s k j) →
      (¬ Less s i k ∧ ¬ Less s k i) :=
  Lemmas.Version.incomparable_trans _ _ _ (hs _ (List.get_mem s i)) (hs _ (List.get_mem s j))
    (hs _ (List.get_mem s k))

example :
    let s : List Version := [⟨0, Bytes.ofString "1.0", []⟩, ⟨0, Bytes.ofString "1.00", [48]⟩,
      ⟨0, Bytes.ofString "1.0~rc1", [49]⟩]
    (∀ v ∈ s, NulFree v) ∧ Less s ⟨2, by decide⟩ ⟨0, by decide⟩ ∧
      ¬ Less s ⟨0, by decide⟩ ⟨1, by decide⟩ ∧ ¬ Less s ⟨1, by decide⟩ ⟨0, by decide⟩ := by
  refine ⟨?_, ?_, ?_, ?_⟩
  · intro v hv
    simp only [List.mem_cons, List.not_mem_nil, or_false] at hv
    rcases hv with rfl | rfl | rfl <;> exact ⟨by decide +kernel, by decide +kernel⟩
  all_goals (unfold Less; decide +kernel)

/-- Sorting with the adapter's order: a stable merge sort by `compare · · ≤ 0` yields a
    non-decreasing permutation of its input. -/
theorem C02_sort (l : List Version) (h : ∀ v ∈ l, NulFree v) :
    let s := l.mergeSort (fun x y => decide (Version.compare x y ≤ 0))
    s.Perm l ∧ s.Pairwise (fun x y => Version.compare x y ≤ 0) :=
  ⟨List.mergeSort_perm l _, Lemmas.Version.sort_sorted l h⟩

/-- The hypothesis holds of a concrete unsorted list (its elements are pairwise distinct
    under `compare`, so the sorted result is determined). -/
example :
    let l : List Version := [⟨0, Bytes.ofString "1.0", []⟩, ⟨0, Bytes.ofString "1.0~rc1", [49]⟩,
      ⟨1, Bytes.ofString "0.1", []⟩, ⟨0, Bytes.ofString "1.0+b1", []⟩]
    (∀ v ∈ l, NulFree v) ∧ ¬ l.Pairwise (fun x y => Version.compare x y ≤ 0) := by
  refine ⟨?_, ?_⟩
  · intro v hv
    simp only [List.mem_cons, List.not_mem_nil, or_false] at hv
    rcases hv with rfl | rfl | rfl | rfl <;> exact ⟨by decide +kernel, by decide +kernel⟩
  · decide +kernel

end GoDebian.Props.C02
