/-
  C19 — `OrderDSCForBuild` together with the topological sort it calls: the loop always
  terminates (the model's fuel is never exhausted); a returned order is a permutation of
  the source names in which every source comes after each source that builds a binary it
  needs; a dependency cycle yields an error, an acyclic graph an order; and which edges
  the graph has.
  Property theorems only; lemmas live in GoDebian/Lemmas/BuildOrder*.lean.
-/
import GoDebian.Model.BuildOrder
import GoDebian.Lemmas.BuildOrder

namespace GoDebian.Props.C19
open GoDebian GoDebian.BuildOrder
open GoDebian.Lemmas.BuildOrder.Sample

/-- the fuel `nodes.length + 1` always suffices: every pass that does not end the loop
    marks at least one new node -/
theorem C19_total (srcs : List Src) (arch : Dep.Arch) : order srcs arch ≠ .error .fuel :=
  Lemmas.BuildOrder.order_not_fuel srcs arch

/-- the three outcomes that do occur: an order; a cycle error; and the nil dereference of
    `GetPossibilities` on a hand-built possibility without architecture set.
    (`a` wants `libz [armhf] | libb`, `unknown`, and `libc-x`; `b` wants `libc-x`;
    `z` wants `liba`; `b` builds two binaries.) -/
example :
    let a : Src := ⟨B "a", [B "liba"], [[[Parm "libz", P "libb"], [P "unknown"]], [], [[P "libc-x"]]]⟩
    let b : Src := ⟨B "b", [B "libb", B "libb-dev"], [[], [[P "libc-x"]], []]⟩
    let c : Src := ⟨B "c", [B "libc-x"], [[], [], []]⟩
    let z : Src := ⟨B "z", [B "libz"], [[[P "liba"]], [], []]⟩
    order [a, b, c, z] amd64 = .ok [B "c", B "b", B "a", B "z"] ∧
    order [a, b, { c with deps := [[[P "liba"]], [], []] }] amd64 = .error .err ∧
    order [c, ⟨B "v", [], [[[Pnil "x"]], [], []]⟩] amd64 = .error .panic := by
  decide +kernel

/-- the result is a permutation of the source names (distinct names) -/
theorem C19_perm (srcs : List Src) (arch : Dep.Arch) (out : List Bytes)
    (hd : (srcs.map (·.source)).Nodup) (h : order srcs arch = .ok out) :
    out.Perm (srcs.map (·.source)) :=
  Lemmas.BuildOrder.order_perm hd h

/-- the hypotheses hold on the four sources above; and without distinct names the
    conclusion fails: two sources of the same name are one node, output once -/
example :
    let a : Src := ⟨B "a", [B "liba"], [[[Parm "libz", P "libb"], [P "unknown"]], [], [[P "libc-x"]]]⟩
    let b : Src := ⟨B "b", [B "libb", B "libb-dev"], [[], [[P "libc-x"]], []]⟩
    let c : Src := ⟨B "c", [B "libc-x"], [[], [], []]⟩
    let z : Src := ⟨B "z", [B "libz"], [[[P "liba"]], [], []]⟩
    ([a, b, c, z].map (·.source)).Nodup ∧
    order [a, b, c, z] amd64 = .ok [B "c", B "b", B "a", B "z"] ∧
    order [c, c] amd64 = .ok [B "c"] := by
  decide +kernel

/-- every source comes after each source that builds a binary it needs -/
theorem C19_respects (srcs : List Src) (arch : Dep.Arch) (out : List Bytes)
    (es : List (Bytes × Bytes)) (he : edges srcs arch = .ok es) (h : order srcs arch = .ok out) :
    ∀ to from_, (to, from_) ∈ es → to ∈ out →
      ∃ i j : Nat, out[i]? = some from_ ∧ out[j]? = some to ∧ i < j :=
  fun to from_ hedge hto => Lemmas.BuildOrder.order_respects he h to from_ hedge hto

/-- the edges of the four sources: `a` needs `b` and `c`, `b` needs `c`, `z` needs `a`
    (`libz [armhf]` does not apply to amd64, `unknown` is built by no source) -/
example :
    let a : Src := ⟨B "a", [B "liba"], [[[Parm "libz", P "libb"], [P "unknown"]], [], [[P "libc-x"]]]⟩
    let b : Src := ⟨B "b", [B "libb", B "libb-dev"], [[], [[P "libc-x"]], []]⟩
    let c : Src := ⟨B "c", [B "libc-x"], [[], [], []]⟩
    let z : Src := ⟨B "z", [B "libz"], [[[P "liba"]], [], []]⟩
    edges [a, b, c, z] amd64 = .ok [(B "a", B "b"), (B "a", B "c"), (B "b", B "c"), (B "z", B "a")] ∧
    order [a, b, c, z] amd64 = .ok [B "c", B "b", B "a", B "z"] := by
  decide +kernel

/-- hence a dependency cycle (including a self-dependency) yields an error, never an
    order -/
theorem C19_cycle_error (srcs : List Src) (arch : Dep.Arch) (es : List (Bytes × Bytes))
    (he : edges srcs arch = .ok es) (cyc : List Bytes) (hne : cyc ≠ [])
    (hc : ∀ i, i < cyc.length → (cyc[(i+1) % cyc.length]!, cyc[i]!) ∈ es)
    (hin : ∀ n ∈ cyc, n ∈ nodeOrder srcs) :
    ∀ out, order srcs arch ≠ .ok out :=
  Lemmas.BuildOrder.order_cycle he cyc hne hc hin

/-- a cycle of length three (`a` needs `b` needs `c` needs `a`) next to an unaffected
    source -/
example :
    let a : Src := ⟨B "a", [B "liba"], [[[P "libb"]], [], []]⟩
    let b : Src := ⟨B "b", [B "libb"], [[], [[P "libc-x"]], []]⟩
    let c : Src := ⟨B "c", [B "libc-x"], [[], [], [[P "liba"]]]⟩
    let d : Src := ⟨B "d", [B "libd"], [[], [], []]⟩
    let es := [(B "a", B "b"), (B "b", B "c"), (B "c", B "a")]
    let cyc := [B "c", B "b", B "a"]
    edges [d, a, b, c] amd64 = .ok es ∧
    (∀ i, i < cyc.length → (cyc[(i+1) % cyc.length]!, cyc[i]!) ∈ es) ∧
    (∀ n ∈ cyc, n ∈ nodeOrder [d, a, b, c]) ∧
    order [d, a, b, c] amd64 = .error .err := by
  decide +kernel

/-- a self-dependency (`s` needs a binary it builds itself) -/
example :
    let d : Src := ⟨B "d", [B "libd"], [[], [], []]⟩
    let s : Src := ⟨B "s", [B "libs"], [[[P "libs"]], [], []]⟩
    let es := [(B "s", B "s")]
    let cyc := [B "s"]
    edges [d, s] amd64 = .ok es ∧
    (∀ i, i < cyc.length → (cyc[(i+1) % cyc.length]!, cyc[i]!) ∈ es) ∧
    (∀ n ∈ cyc, n ∈ nodeOrder [d, s]) ∧
    order [d, s] amd64 = .error .err := by
  decide +kernel

/-- and an acyclic graph is always ordered -/
theorem C19_acyclic_ok (srcs : List Src) (arch : Dep.Arch) (es : List (Bytes × Bytes))
    (he : edges srcs arch = .ok es)
    (hac : ∃ rank : Bytes → Nat, ∀ to from_, (to, from_) ∈ es → rank from_ < rank to) :
    ∃ out, order srcs arch = .ok out :=
  hac.elim fun rank hrank => Lemmas.BuildOrder.order_acyclic he rank hrank

/-- a rank function for the four sources: c ↦ 0, b ↦ 1, a ↦ 2, z ↦ 3 -/
example :
    let a : Src := ⟨B "a", [B "liba"], [[[Parm "libz", P "libb"], [P "unknown"]], [], [[P "libc-x"]]]⟩
    let b : Src := ⟨B "b", [B "libb", B "libb-dev"], [[], [[P "libc-x"]], []]⟩
    let c : Src := ⟨B "c", [B "libc-x"], [[], [], []]⟩
    let z : Src := ⟨B "z", [B "libz"], [[[P "liba"]], [], []]⟩
    ∃ es, edges [a, b, c, z] amd64 = .ok es ∧
      ∃ rank : Bytes → Nat, ∀ to from_, (to, from_) ∈ es → rank from_ < rank to :=
  let rank : Bytes → Nat := fun n => if n = B "c" then 0 else if n = B "b" then 1 else if n = B "a" then 2 else 3
  ⟨[(B "a", B "b"), (B "a", B "c"), (B "b", B "c"), (B "z", B "a")], by decide +kernel, rank,
    fun to from_ h =>
      (by decide +kernel : ∀ p ∈ [(B "a", B "b"), (B "a", B "c"), (B "b", B "c"), (B "z", B "a")],
        rank p.2 < rank p.1) (to, from_) h⟩

/-- which edges there are: `to` has, in one of its three fields, a relation whose first
    alternative applicable to the architecture is a binary of `from` -/
theorem C19_edges_spec (srcs : List Src) (arch : Dep.Arch) (es : List (Bytes × Bytes))
    (he : edges srcs arch = .ok es) (to from_ : Bytes) :
    (to, from_) ∈ es ↔ ∃ s ∈ srcs, s.source = to ∧ ∃ ws, wanted s arch = .ok ws ∧
      ∃ w ∈ ws, mapGet w (sourceMapping srcs) = some from_ :=
  Lemmas.BuildOrder.edges_spec he to from_

/-- the wanted names of `a` (first applicable alternative of each relation, the three
    fields in order) and the binary → source map (a later source overrides an earlier one
    that builds a binary of the same name) -/
example :
    let a : Src := ⟨B "a", [B "liba"], [[[Parm "libz", P "libb"], [P "unknown"]], [], [[P "libc-x"]]]⟩
    let b : Src := ⟨B "b", [B "libb", B "libb-dev"], [[], [[P "libc-x"]], []]⟩
    let c : Src := ⟨B "c", [B "libc-x"], [[], [], []]⟩
    let b2 : Src := ⟨B "b2", [B "libb"], [[], [], []]⟩
    wanted a amd64 = .ok [B "libb", B "unknown", B "libc-x"] ∧
    sourceMapping [a, b, c] = [(B "liba", B "a"), (B "libb", B "b"), (B "libb-dev", B "b"), (B "libc-x", B "c")] ∧
    edges [a, b, c] amd64 = .ok [(B "a", B "b"), (B "a", B "c"), (B "b", B "c")] ∧
    edges [a, b, c, b2] amd64 = .ok [(B "a", B "b2"), (B "a", B "c"), (B "b", B "c")] := by
  decide +kernel

end GoDebian.Props.C19
