/-
  C19 — property theorems (see DESIGN.md §5 C19).
-/
import GoDebian.Model.BuildOrder

namespace GoDebian.Props.C19
end GoDebian.Props.C19
