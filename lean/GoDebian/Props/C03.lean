/-
  C03 — version strings parse to their parts and render back without loss.
-/
import GoDebian.Model.Version
import GoDebian.Spec.VersionParse

namespace GoDebian.Props.C03
end GoDebian.Props.C03
