/-
  C03 — version strings parse to their parts and render back without loss.
  Property theorems only; lemmas live in GoDebian/Lemmas.
-/
import GoDebian.Model.Version
import GoDebian.Spec.VersionParse
import GoDebian.Lemmas.VersionParse
import GoDebian.Lemmas.VersionParseSpec

namespace GoDebian.Props.C03
open GoDebian GoDebian.Version

/-! ### round trip -/

/-- Whatever the parser accepts is printed (by `String`, `MarshalText`, JSON) as a string
    that parses back to the same three parts. -/
theorem C03_roundtrip (s : Bytes) (v : Version) (h : parse s = .ok v) :
    parse (toString v) = .ok v ∧ parse (marshalText v) = .ok v ∧
      jsonDecode (jsonEncode v) = .ok v :=
  have hp := Lemmas.VersionParse.parse_toString (Lemmas.VersionParse.parse_wf h)
  ⟨hp, hp, (Lemmas.VersionParse.jsonDecode_jsonEncode v).trans hp⟩

example :
    parse (Bytes.ofString "  1:2.30-10+deb11u1\n") =
      .ok ⟨1, Bytes.ofString "2.30", Bytes.ofString "10+deb11u1"⟩ := by
  decide +kernel

/-- Epoch 0 with a colon in the upstream part and an empty revision after a hyphen: the
    printer keeps "0:" and the trailing "-". -/
example :
    parse (Bytes.ofString "0:1:2-3-") = .ok ⟨0, Bytes.ofString "1:2-3", []⟩ ∧
    Version.toString ⟨0, Bytes.ofString "1:2-3", []⟩ = Bytes.ofString "0:1:2-3-" := by
  decide +kernel

/-- The text is not always reproduced (leading zeros, "+", "-0" in the epoch), the parts
    are. -/
example :
    parse (Bytes.ofString "+007:1") = .ok ⟨7, [49], []⟩ ∧
    Version.toString ⟨7, [49], []⟩ = Bytes.ofString "7:1" ∧
    parse (Bytes.ofString "-0:1") = .ok ⟨0, [49], []⟩ := by
  decide +kernel

/-- What every parser output satisfies (the hypothesis under which printing is
    loss-free). -/
theorem C03_output_invariant (s : Bytes) (v : Version) (h : parse s = .ok v) :
    v.epoch < 2^63 ∧ (∃ c rest, v.upstream = c :: rest ∧ cisdigit c = true) ∧
      (∀ c ∈ v.upstream, upstreamChar c = true) ∧ (∀ c ∈ v.revision, revisionChar c = true) :=
  have hwf := Lemmas.VersionParse.parse_wf h
  ⟨hwf.epoch_lt, Lemmas.VersionParse.partsOK_iff.mp hwf.parts⟩

/-! ### agreement with the specification -/

/-- Every string the specification accepts is parsed to the parts it names. -/
theorem C03_accepts (s : Bytes) (v : Version)
    (h : Spec.VersionParse.verdict s = some (.accept v)) : parse s = .ok v :=
  Lemmas.VersionParse.parse_of_accept h

example :
    Spec.VersionParse.verdict (Bytes.ofString "\t0012:1.2-3:4-5~rc1 ") =
      some (.accept ⟨12, Bytes.ofString "1.2-3:4", Bytes.ofString "5~rc1"⟩) := by
  decide +kernel

/-- Every string the specification rejects is rejected with an error: empty or blank,
    embedded white space, empty / non-numeric / negative / oversized epoch, nothing after
    the colon, empty upstream part, a non-digit first character, a character outside the
    alphabet of its part. -/
theorem C03_rejects (s : Bytes) (h : Spec.VersionParse.verdict s = some .reject) :
    parse s = .error .err :=
  Lemmas.VersionParse.parse_of_reject h

/-- One witness per rejection class. -/
example :
    [" \n", "1 2", ":1", "a:1", "1x:1", "-1:1", "-:1", "9223372036854775808:1", "1:", "1:-2",
      "-2", "a1", "1:a", "1_2", "1.0-1_2", "1.0-1:2", "1 2"].all
      (fun s => Spec.VersionParse.verdict (Bytes.ofString s) == some .reject) = true := by
  decide +kernel

/-- The largest epoch is accepted; signed epochs are left open by the specification. -/
example :
    Spec.VersionParse.verdict (Bytes.ofString "9223372036854775807:1") =
      some (.accept ⟨2^63 - 1, [49], []⟩) ∧
    Spec.VersionParse.verdict (Bytes.ofString "+5:1") = none ∧
    Spec.VersionParse.verdict (Bytes.ofString "-00:1") = none := by
  decide +kernel

/-! ### grammar form -/

/-- White space: a concatenation of UTF-8 encodings of Unicode `White_Space` runes
    (`TrimLeft` with `unicode.IsSpace` erases it completely). -/
def IsSpaces (w : Bytes) : Prop := Str.trimLeftSpace w = []

instance (w : Bytes) : Decidable (IsSpaces w) := inferInstanceAs (Decidable (_ = _))

example : IsSpaces [] ∧ IsSpaces (Bytes.ofString "\t \n\u00a0") ∧
    IsSpaces (Bytes.ofString " \r\u3000\u0085\u2028\u200a") ∧
    ¬ IsSpaces (Bytes.ofString " x") ∧ ¬ IsSpaces [0xC2] ∧ ¬ IsSpaces [0xE2, 0x80, 0x8B] := by
  decide +kernel

/-- Every well-formed version in its full textual form — any white space around it, any
    number of leading zeros in the epoch — parses to its three parts. -/
theorem C03_parse_grammar (e : Nat) (u r w1 w2 : Bytes) (zeros : Nat) (he : e < 2^63)
    (hu : ∃ c rest, u = c :: rest ∧ cisdigit c = true) (hua : ∀ c ∈ u, upstreamChar c = true)
    (hra : ∀ c ∈ r, revisionChar c = true) (hw1 : IsSpaces w1) (hw2 : IsSpaces w2) :
    parse (w1 ++ List.replicate zeros 48 ++ Str.fmtNat e ++ [58] ++ u ++ [45] ++ r ++ w2)
      = .ok ⟨e, u, r⟩ := by
  have := Lemmas.VersionParse.parse_render w1 w2 zeros (some e) u (some r) hw1 hw2 he
    (Lemmas.VersionParse.partsOK_iff.mpr ⟨hu, hua, hra⟩) (by simp) (by simp)
  simpa [Lemmas.VersionParse.render, Lemmas.VersionParse.epochPart,
    Lemmas.VersionParse.revPart, List.append_assoc] using this

example :
    let u := Bytes.ofString "1.2-3:4"
    let r := Bytes.ofString "5~rc1+b2"
    (∃ c rest, u = c :: rest ∧ cisdigit c = true) ∧ (∀ c ∈ u, upstreamChar c = true) ∧
      (∀ c ∈ r, revisionChar c = true) := by
  refine ⟨⟨49, Bytes.ofString ".2-3:4", ?_, ?_⟩, ?_, ?_⟩ <;> decide +kernel

/-- The epoch may be omitted when it is 0 and the upstream part has no ':'. -/
theorem C03_parse_grammar_short_no_epoch (u r w1 w2 : Bytes)
    (hu : ∃ c rest, u = c :: rest ∧ cisdigit c = true) (hua : ∀ c ∈ u, upstreamChar c = true)
    (hra : ∀ c ∈ r, revisionChar c = true) (hcolon : 58 ∉ u)
    (hw1 : IsSpaces w1) (hw2 : IsSpaces w2) :
    parse (w1 ++ u ++ [45] ++ r ++ w2) = .ok ⟨0, u, r⟩ := by
  have := Lemmas.VersionParse.parse_render w1 w2 0 none u (some r) hw1 hw2 (by simp)
    (Lemmas.VersionParse.partsOK_iff.mpr ⟨hu, hua, hra⟩) (fun _ => hcolon) (by simp)
  simpa [Lemmas.VersionParse.render, Lemmas.VersionParse.epochPart,
    Lemmas.VersionParse.revPart, List.append_assoc] using this

/-- The revision, hyphen included, may be omitted when it is empty and the upstream part
    has no '-'. -/
theorem C03_parse_grammar_short_no_revision (e : Nat) (u w1 w2 : Bytes) (zeros : Nat)
    (he : e < 2^63)
    (hu : ∃ c rest, u = c :: rest ∧ cisdigit c = true) (hua : ∀ c ∈ u, upstreamChar c = true)
    (hhyphen : 45 ∉ u) (hw1 : IsSpaces w1) (hw2 : IsSpaces w2) :
    parse (w1 ++ List.replicate zeros 48 ++ Str.fmtNat e ++ [58] ++ u ++ w2)
      = .ok ⟨e, u, []⟩ := by
  have := Lemmas.VersionParse.parse_render w1 w2 zeros (some e) u none hw1 hw2 he
    (Lemmas.VersionParse.partsOK_iff.mpr ⟨hu, hua, by simp⟩) (by simp) (fun _ => hhyphen)
  simpa [Lemmas.VersionParse.render, Lemmas.VersionParse.epochPart,
    Lemmas.VersionParse.revPart, List.append_assoc] using this

/-- Both may be omitted: a bare upstream version. -/
theorem C03_parse_grammar_short_bare (u w1 w2 : Bytes)
    (hu : ∃ c rest, u = c :: rest ∧ cisdigit c = true) (hua : ∀ c ∈ u, upstreamChar c = true)
    (hcolon : 58 ∉ u) (hhyphen : 45 ∉ u) (hw1 : IsSpaces w1) (hw2 : IsSpaces w2) :
    parse (w1 ++ u ++ w2) = .ok ⟨0, u, []⟩ := by
  have := Lemmas.VersionParse.parse_render w1 w2 0 none u none hw1 hw2 (by simp)
    (Lemmas.VersionParse.partsOK_iff.mpr ⟨hu, hua, by simp⟩) (fun _ => hcolon)
    (fun _ => hhyphen)
  simpa [Lemmas.VersionParse.render, Lemmas.VersionParse.epochPart,
    Lemmas.VersionParse.revPart, List.append_assoc] using this

/-- The omission conditions cannot be dropped: a ':' in the upstream part of an
    epoch-less string is taken for the epoch separator, a '-' in the upstream part of a
    revision-less string for the revision separator. -/
example :
    parse (Bytes.ofString "1:2-3") ≠ .ok ⟨0, Bytes.ofString "1:2", [51]⟩ ∧
    parse (Bytes.ofString "1-2") ≠ .ok ⟨0, Bytes.ofString "1-2", []⟩ := by
  decide +kernel

end GoDebian.Props.C03
