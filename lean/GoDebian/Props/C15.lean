/-
  C15 — the `ar` reader and the `.deb` loader on ARBITRARY bytes: iteration terminates
  (the fuel of the model is never exhausted), makes at most one step per 60 input bytes,
  returns only members that came from a header with both magic bytes and whose reader
  delivers exactly `size` bytes; `.deb` loading never loops and never panics.
  Property theorems only; lemmas live in GoDebian/Lemmas/ArIter.lean and ArDeb.lean.
-/
import GoDebian.Model.Deb
import GoDebian.Spec.Ar
import GoDebian.Lemmas.ArIter
import GoDebian.Lemmas.ArDeb

namespace GoDebian.Props.C15
open GoDebian GoDebian.Ar

/-- Iteration finishes: the fuel `bs.length / 60 + 1` is never exhausted.  This is the
    termination proof of the Go loop `for { e, err := ar.Next(); … }`: every successful
    `Next` needs 60 bytes at the current offset and advances the offset by at least 60. -/
theorem C15_terminates (bs : Bytes) (es : List Entry) (e : End)
    (h : readAll bs = some (es, e)) : e ≠ .fuel :=
  Lemmas.Ar.readAll_terminates h

/-- One step of the loop: a successful `Next` at `off` has 60 bytes available there and
    moves the offset forward by at least 60. -/
theorem C15_next_advances (bs : Bytes) (off off' : Nat) (e : Entry)
    (h : next bs off = .entry e off') : off + 60 ≤ bs.length ∧ off + 60 ≤ off' :=
  ⟨(Lemmas.Ar.next_entry h).1, (Lemmas.Ar.next_entry h).2.1⟩

/-- At most one step per 60 input bytes (the left disjunct always holds). -/
theorem C15_progress (bs : Bytes) (es : List Entry) (e : End) (h : readAll bs = some (es, e)) :
    8 + 60 * es.length ≤ bs.length ∨ es = [] :=
  Or.inl (Lemmas.Ar.readAll_progress h)

/-- Every returned member came from a header with both magic bytes, has a non-negative
    size, and its reader delivers exactly that many bytes, starting right after the
    header. -/
theorem C15_entries (bs : Bytes) (es : List Entry) (e : End) (h : readAll bs = some (es, e)) :
    ∀ x ∈ es, bs[x.hdrOff + 58]? = some 96 ∧ bs[x.hdrOff + 59]? = some 10 ∧ 0 ≤ x.size
      ∧ (Ar.data bs x).length = x.size.toNat ∧ x.dataOff = x.hdrOff + 60 :=
  Lemmas.Ar.readAll_entries h

/-- The hypothesis is satisfiable on inputs that are not well-formed archives, with each
    of the two possible ends:
    * an archive of two members (odd-sized data with its pad byte, a blank numeric column,
      an empty member) followed by 3 bytes of garbage: the truncated header reads as EOF;
    * the same archive with 60 bytes cut out of the middle, so that the first member's
      data are the last bytes of the second header: one entry, then EOF;
    * the archive cut in the middle of the first member's data: the probe fails;
    * an all-blank header line without the magic bytes: bad;
    * an all-blank header line with the magic bytes: a nameless member of size 0;
    * a size column "-1": bad;  a size column "+1" with the byte present: accepted;
    * a file shorter than the global magic: `LoadAr` fails. -/
example :
    let B := Bytes.ofString
    let m1 : Spec.Ar.Member := ⟨B "a.txt", true, none, some 0, some 0, B "100644", B "hey"⟩
    let m2 : Spec.Ar.Member := ⟨B "control.tar.gz", false, some 1700000000, none, some 1000, B "644", []⟩
    let bs := Spec.Ar.build [m1, m2]
    let e1 : Entry := ⟨B "a.txt", 0, 0, 0, B "100644", 3, 8, 68⟩
    let e2 : Entry := ⟨B "control.tar.gz", 1700000000, 0, 1000, B "644", 0, 72, 132⟩
    let blank : Entry := ⟨[], 0, 0, 0, [], 0, 8, 68⟩
    bs.length = 132 ∧
    readAll (bs ++ [1, 2, 3]) = some ([e1, e2], .eof) ∧
    readAll (bs.take 68 ++ bs.drop 128) = some ([e1], .eof) ∧
    Ar.data (bs.take 68 ++ bs.drop 128) e1 = [32, 32, 96] ∧
    readAll (bs.take 70) = some ([], .bad) ∧
    readAll (magic ++ List.replicate 60 32) = some ([], .bad) ∧
    readAll (magic ++ List.replicate 58 32 ++ [96, 10]) = some ([blank], .eof) ∧
    readAll (magic ++ List.replicate 48 32 ++ B "-1        " ++ [96, 10]) = some ([], .bad) ∧
    readAll (magic ++ List.replicate 48 32 ++ B "+1        " ++ [96, 10, 7])
      = some ([{ blank with size := 1 }], .eof) ∧
    readAll (B "!<arch>") = none := by
  decide +kernel

/-- `.deb` loading on arbitrary bytes neither runs out of fuel (= loops forever) nor
    panics: not in anything `Load` does before it needs a decompressor (`plan`), and in the
    whole of `Load` an outcome other than a value or an ordinary error can only be one
    that `Codec.unmarshal` reports on the control file (its own bounded recursion, see
    C11/C12), after `plan` has succeeded. -/
theorem C15_load_total (bs : Bytes) (schema : Codec.Schema) (ctl : Deb.TarAnswer) (d : Bool) :
    Deb.plan bs ≠ .error .fuel ∧ Deb.plan bs ≠ .error .panic ∧
    ∀ e, Deb.load bs schema ctl d = .error e → e = .fuel ∨ e = .panic →
      ∃ p content, Deb.plan bs = .ok p ∧ Codec.unmarshal schema content = .error e :=
  ⟨(Lemmas.Ar.plan_total bs).1, (Lemmas.Ar.plan_total bs).2, fun _ h he =>
    Lemmas.Ar.load_error h (by rcases he with rfl | rfl <;> simp)⟩

/-- Both remaining outcomes of `plan` occur: a `.deb` with debian-binary = "2.0\n", one
    control.* and one data.* tar member is accepted; without the data member, with a
    duplicate member, truncated inside a member, or on garbage, the result is an error
    value. -/
example :
    let B := Bytes.ofString
    let d1 : Spec.Ar.Member := ⟨B "debian-binary", false, some 1700000000, some 0, some 0, B "100644", B "2.0\n"⟩
    let d2 : Spec.Ar.Member := ⟨B "control.tar.gz", false, some 1700000000, some 0, some 0, B "100644", B "xyz"⟩
    let d3 : Spec.Ar.Member := ⟨B "data.tar.xz", true, some 1700000000, some 0, some 0, B "100644", B "data!"⟩
    let err (r : Res Deb.Plan) : Option Err := match r with | .error e => some e | .ok _ => none
    (Deb.plan (Spec.Ar.build [d1, d2, d3])).toOption.map
        (fun p => (p.members.map (·.name), p.control.name, p.data.name))
      = some ([B "debian-binary", B "control.tar.gz", B "data.tar.xz"],
              B "control.tar.gz", B "data.tar.xz") ∧
    err (Deb.plan (Spec.Ar.build [d1, d2])) = some .err ∧
    err (Deb.plan (Spec.Ar.build [d1, d2, d3, d2])) = some .err ∧
    err (Deb.plan ((Spec.Ar.build [d1, d2, d3]).take 200)) = some .err ∧
    err (Deb.plan (B "garbage")) = some .err := by
  decide +kernel

end GoDebian.Props.C15
