/-
  C15 — property theorems (see DESIGN.md §5 C15).
-/
import GoDebian.Model.Deb
import GoDebian.Spec.Ar

namespace GoDebian.Props.C15
end GoDebian.Props.C15
