/-
  C14 — `.deb` loading: a package without debian-binary, with a format version line other
  than "2.0\n", or without a control.* / data.* member is rejected; a well-formed package
  built by the archive specification is loaded with the packaged control paragraph, the
  member extensions and the member index.
  Property theorems only; lemmas live in GoDebian/Lemmas/DebPlan.lean and DebBuild.lean.
-/
import GoDebian.Model.Deb
import GoDebian.Spec.Ar
import GoDebian.Lemmas.DebPlan
import GoDebian.Lemmas.DebBuild

namespace GoDebian.Props.C14
open GoDebian GoDebian.Ar GoDebian.Deb

/-- A package that lacks debian-binary is rejected. -/
theorem C14_reject_no_binary (bs : Bytes) (es : List Entry)
    (h : Ar.readAll bs = some (es, .eof)) (hn : ∀ e ∈ es, e.name ≠ sDebianBinary) :
    plan bs = .error .err :=
  Lemmas.Deb.plan_no_binary h hn

/-- Satisfiable: control and data members present, debian-binary absent (or misspelt). -/
example :
    let B := Bytes.ofString
    let d1 : Spec.Ar.Member := ⟨B "debian_binary", false, some 1700000000, some 0, some 0, B "100644", B "2.0\n"⟩
    let d2 : Spec.Ar.Member := ⟨B "control.tar.gz", false, some 1700000000, some 0, some 0, B "100644", B "xyz"⟩
    let d3 : Spec.Ar.Member := ⟨B "data.tar.xz", true, some 1700000000, some 0, some 0, B "100644", B "data!"⟩
    ((Ar.readAll (Spec.Ar.build [d1, d2, d3])).map (fun r => (r.1.map (·.name), r.2)))
      = some ([B "debian_binary", B "control.tar.gz", B "data.tar.xz"], .eof) ∧
    plan (Spec.Ar.build [d1, d2, d3]) matches .error .err := by
  decide +kernel

/-- A package that loads has a debian-binary member starting with the format version line
    "2.0\n": any other version line is rejected. -/
theorem C14_reject_version (bs : Bytes) (p : Plan) (hp : plan bs = .ok p) :
    ∃ b, find sDebianBinary p.members = some b ∧ (Ar.data bs b).take 4 = [50, 46, 48, 10] :=
  Lemmas.Deb.plan_version hp

/-- Satisfiable (trailing bytes after the version line are tolerated, as by `ReadString`),
    and the contrapositive on concrete packages: "2.1\n", "2.0" without newline, "2.0\r\n",
    an empty member. -/
example :
    let B := Bytes.ofString
    let db (v : String) : Spec.Ar.Member := ⟨B "debian-binary", false, some 1700000000, some 0, some 0, B "100644", B v⟩
    let d2 : Spec.Ar.Member := ⟨B "control.tar.gz", false, some 1700000000, some 0, some 0, B "100644", B "xyz"⟩
    let d3 : Spec.Ar.Member := ⟨B "data.tar.xz", true, some 1700000000, some 0, some 0, B "100644", B "data!"⟩
    (plan (Spec.Ar.build [db "2.0\n", d2, d3])).toOption.isSome = true ∧
    (plan (Spec.Ar.build [db "2.0\nextra\n", d2, d3])).toOption.isSome = true ∧
    (plan (Spec.Ar.build [db "2.1\n", d2, d3])).toOption.isSome = false ∧
    (plan (Spec.Ar.build [db "2.0", d2, d3])).toOption.isSome = false ∧
    (plan (Spec.Ar.build [db "2.0\r\n", d2, d3])).toOption.isSome = false ∧
    (plan (Spec.Ar.build [db "", d2, d3])).toOption.isSome = false := by
  decide +kernel

/-- A package without a control.* member, or without a data.* member, is rejected. -/
theorem C14_reject_missing (bs : Bytes) (es : List Entry) (h : Ar.readAll bs = some (es, .eof))
    (hn : (∀ e ∈ es, Str.hasPrefix e.name sControlDot = false) ∨
          (∀ e ∈ es, Str.hasPrefix e.name sDataDot = false)) :
    plan bs = .error .err :=
  Lemmas.Deb.plan_missing h hn

/-- Both disjuncts are satisfiable (a member called just "control" or "data.tar" under
    another prefix does not count). -/
example :
    let B := Bytes.ofString
    let d1 : Spec.Ar.Member := ⟨B "debian-binary", false, some 1700000000, some 0, some 0, B "100644", B "2.0\n"⟩
    let d2 : Spec.Ar.Member := ⟨B "control.tar.gz", false, some 1700000000, some 0, some 0, B "100644", B "xyz"⟩
    let d3 : Spec.Ar.Member := ⟨B "data.tar.xz", true, some 1700000000, some 0, some 0, B "100644", B "data!"⟩
    let c' : Spec.Ar.Member := { d2 with name := B "control" }
    let d' : Spec.Ar.Member := { d3 with name := B "xdata.tar" }
    ((Ar.readAll (Spec.Ar.build [d1, c', d3])).map
        (fun r => (r.1.all (fun e => Str.hasPrefix e.name sControlDot = false), r.2)))
      = some (true, .eof) ∧
    ((Ar.readAll (Spec.Ar.build [d1, d2, d'])).map
        (fun r => (r.1.all (fun e => Str.hasPrefix e.name sDataDot = false), r.2)))
      = some (true, .eof) ∧
    plan (Spec.Ar.build [d1, c', d3]) matches .error .err ∧
    plan (Spec.Ar.build [d1, d2, d']) matches .error .err := by
  decide +kernel

/-- Loading is a function of the bytes and the external answers (same bytes, same result:
    `load` is a function) — and for a well-formed package built by the archive specification
    it yields the extensions and the member index.  The packaged control paragraph is in
    `C14_load_built_control`. -/
theorem C14_load_built (ms : List Spec.Ar.Member) (schema : Codec.Schema)
    (ctlName dataName content : Bytes) (rec : List Codec.Val)
    (hw : ms.all Spec.Ar.wfMember = true) (hnd : (ms.map (·.name)).Nodup)
    (hb : ∃ m ∈ ms, m.name = sDebianBinary ∧ m.data = [50, 46, 48, 10])
    (hc : (ms.filter (fun m => Str.hasPrefix m.name sControlDot)).map (·.name) = [ctlName])
    (hd : (ms.filter (fun m => Str.hasPrefix m.name sDataDot)).map (·.name) = [dataName])
    (htc : isTarfile ctlName = true) (htd : isTarfile dataName = true)
    (es : List (Bytes × Option Bytes))
    (hfind : es.find? (fun (n, _) => Path.clean n = sControl)
      = some ([46, 47] ++ sControl, some content))
    (hu : Codec.unmarshal schema content = .ok rec) :
    ∃ l, load (Spec.Ar.build ms) schema (.entries es false) true = .ok l ∧
      l.controlExt = ctlName.drop 8 ∧ l.dataExt = dataName.drop 5 ∧
      l.members = ms.map (·.name) :=
  let ⟨l, h, _, h2, h3, h4⟩ :=
    Lemmas.Deb.load_built ms schema hw hnd hb hc hd htc htd es hfind hu
  ⟨l, h, h2, h3, h4⟩

/-- The same, with the loaded control record: it is the decoding of the `./control` file of
    the control tar, under whatever name of the tar entry cleans to "control". -/
theorem C14_load_built_control (ms : List Spec.Ar.Member) (schema : Codec.Schema)
    (ctlName dataName content n : Bytes) (rec : List Codec.Val)
    (hw : ms.all Spec.Ar.wfMember = true) (hnd : (ms.map (·.name)).Nodup)
    (hb : ∃ m ∈ ms, m.name = sDebianBinary ∧ m.data = [50, 46, 48, 10])
    (hc : (ms.filter (fun m => Str.hasPrefix m.name sControlDot)).map (·.name) = [ctlName])
    (hd : (ms.filter (fun m => Str.hasPrefix m.name sDataDot)).map (·.name) = [dataName])
    (htc : isTarfile ctlName = true) (htd : isTarfile dataName = true)
    (es : List (Bytes × Option Bytes))
    (hfind : es.find? (fun (n, _) => Path.clean n = sControl) = some (n, some content))
    (hu : Codec.unmarshal schema content = .ok rec) :
    ∃ l, load (Spec.Ar.build ms) schema (.entries es false) true = .ok l ∧ l.control = rec ∧
      l.controlExt = ctlName.drop 8 ∧ l.dataExt = dataName.drop 5 ∧
      l.members = ms.map (·.name) :=
  Lemmas.Deb.load_built ms schema hw hnd hb hc hd htc htd es hfind hu

/-- The hypotheses are jointly satisfiable: a package with a signature member, a GNU-style
    data member name, and a control tar whose `./control` comes after two other entries. -/
example :
    let B := Bytes.ofString
    let d1 : Spec.Ar.Member := ⟨B "debian-binary", false, some 1700000000, some 0, some 0, B "100644", B "2.0\n"⟩
    let d2 : Spec.Ar.Member := ⟨B "control.tar.gz", false, some 1700000000, some 0, some 0, B "100644", B "xyz"⟩
    let d3 : Spec.Ar.Member := ⟨B "data.tar.xz", true, some 1700000000, some 0, some 0, B "100644", B "data!"⟩
    let d4 : Spec.Ar.Member := ⟨B "_gpgorigin", true, none, none, none, B "644", B "SIG"⟩
    let ms := [d1, d2, d4, d3]
    let schema : Codec.Schema := [.mk "Package" (B "Package") .str [] [] true false false,
      .mk "Version" (B "Version") (.custom "Version") [] [] false false false]
    let content := B "Package: hello\nVersion: 1:2.0-3\n"
    let es : List (Bytes × Option Bytes) :=
      [(B "./", some []), (B "./md5sums", some (B "x")), (B "./control", some content)]
    ms.all Spec.Ar.wfMember = true ∧ (ms.map (·.name)).Nodup ∧
    (∃ m ∈ ms, m.name = sDebianBinary ∧ m.data = [50, 46, 48, 10]) ∧
    (ms.filter (fun m => Str.hasPrefix m.name sControlDot)).map (·.name) = [B "control.tar.gz"] ∧
    (ms.filter (fun m => Str.hasPrefix m.name sDataDot)).map (·.name) = [B "data.tar.xz"] ∧
    isTarfile (B "control.tar.gz") = true ∧ isTarfile (B "data.tar.xz") = true ∧
    es.find? (fun (n, _) => Path.clean n = sControl) = some ([46, 47] ++ sControl, some content) ∧
    (Codec.unmarshal schema content).toOption.isSome = true ∧
    (load (Spec.Ar.build ms) schema (.entries es false) true).toOption.map
        (fun l => (l.controlExt, l.dataExt, l.members))
      = some (B "tar.gz", B "tar.xz",
              [B "debian-binary", B "control.tar.gz", B "_gpgorigin", B "data.tar.xz"]) := by
  decide +kernel

/-- … and the decoded record of that example, by evaluation. -/
example :
    let B := Bytes.ofString
    (match Codec.unmarshal [.mk "Package" (B "Package") .str [] [] true false false,
        .mk "Version" (B "Version") (.custom "Version") [] [] false false false]
      (B "Package: hello\nVersion: 1:2.0-3\n") with
      | .ok [.str p, .custom (.version v)] => some (p, v)
      | _ => none)
      = some (B "hello", ⟨1, B "2.0", B "3"⟩) := by
  decide +kernel

end GoDebian.Props.C14
