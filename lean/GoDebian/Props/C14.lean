/-
  C14 — property theorems (see DESIGN.md §5 C14).
-/
import GoDebian.Model.Deb
import GoDebian.Spec.Ar

namespace GoDebian.Props.C14
end GoDebian.Props.C14
