/-
  C18 — property theorems (see DESIGN.md §5 C18): totality of the dependency parser on
  arbitrary input bytes.
  Property theorems only; lemmas live in GoDebian/Lemmas/DepFix{Basic,Inv,Total}.lean.
-/
import GoDebian.Model.Codec
import GoDebian.Model.Changelog
import GoDebian.Model.Dependency
import GoDebian.Lemmas.ArchIs
import GoDebian.Lemmas.DepFixTotal

namespace GoDebian.Props.C18
open GoDebian GoDebian.Dep

/-- The parser never runs out of fuel and never takes the nil-pointer branch: for every
    input it returns a value or an ordinary error.  (Every fuelled loop is started with
    fuel = remaining length + 1 and every iteration returns or continues on a strictly
    shorter input; the possibility under construction always has `archs = some _`.) -/
theorem C18_dep_total (s : Bytes) :
    Dep.parse s ≠ .error .fuel ∧ Dep.parse s ≠ .error .panic :=
  Lemmas.DepFix.parse_total s

/-- Both remaining outcomes occur, on inputs that exercise every loop: nested `[...]`,
    `<...>`, `(...)`, a qualifier, a substvar, NUL and unterminated brackets. -/
example :
    (Dep.parse (Bytes.ofString "a:any [!x !y] (>= 1) <s !t> <u> | ${v}, b")).toBool = true ∧
    Dep.parse (Bytes.ofString "a [x") = .error .err ∧
    Dep.parse (Bytes.ofString "a <x") = .error .err ∧
    Dep.parse (Bytes.ofString "a (>= 1") = .error .err ∧
    Dep.parse (Bytes.ofString "a [x] [y]") = .error .err ∧
    Dep.parse (Bytes.ofString "${v") = .error .err ∧
    Dep.parse [97, 32, 91, 0, 93] = .error .err ∧
    Dep.parse [97, 0, 98] = .ok [[⟨[97], none, some ⟨false, []⟩, [], none, false⟩]] := by
  decide +kernel

/-- `ParseArch` never fails: `SplitN` with limit 3 yields one to three parts and every
    case assigns all three fields. -/
theorem C18_arch_total (s : Bytes) : ∃ a, Dep.parseArch s = .ok a :=
  Lemmas.DepFix.parseArch_total s

/-- The three shapes, including the empty string and a name with more than two dashes. -/
example :
    Dep.parseArch [] = .ok ⟨sGnu, sLinux, []⟩ ∧
    Dep.parseArch (Bytes.ofString "-") = .ok ⟨sAny, [], []⟩ ∧
    Dep.parseArch (Bytes.ofString "a-b-c-d-") =
      .ok ⟨Bytes.ofString "a", Bytes.ofString "b", Bytes.ofString "c-d-"⟩ := by
  decide +kernel

/-- `ParseArchitectures` returns a value or an ordinary error for every input (in fact it
    always returns a value, since `ParseArch` cannot fail). -/
theorem C18_archlist_total (s : Bytes) :
    Dep.parseArchitectures s ≠ .error .fuel ∧ Dep.parseArchitectures s ≠ .error .panic := by
  obtain ⟨l, h⟩ := Lemmas.DepFix.parseArchitectures_total s
  rw [h]
  exact ⟨nofun, nofun⟩

/-- Repeated blanks, tabs around an element and an all-blank input. -/
example :
    Dep.parseArchitectures (Bytes.ofString "amd64  \tlinux-any\t  any-i386 ") =
      .ok [⟨sGnu, sLinux, Bytes.ofString "amd64"⟩, ⟨sAny, sLinux, sAny⟩,
           ⟨sAny, sAny, Bytes.ofString "i386"⟩] ∧
    Dep.parseArchitectures (Bytes.ofString "   ") = .ok [] := by
  decide +kernel

end GoDebian.Props.C18
