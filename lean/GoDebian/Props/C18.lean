/-
  C18 — property theorems (see DESIGN.md §5 C18): totality of the dependency parser on
  arbitrary input bytes.
  Property theorems only; lemmas live in GoDebian/Lemmas/DepFix{Basic,Inv,Total}.lean.
-/
import GoDebian.Model.Codec
import GoDebian.Model.Changelog
import GoDebian.Model.Dependency
import GoDebian.Lemmas.ArchIs
import GoDebian.Lemmas.DepFixTotal
import GoDebian.Props.C07
import GoDebian.Lemmas.VersionParse
import GoDebian.Props.C17

namespace GoDebian.Props.C18
open GoDebian GoDebian.Dep

/-- The parser never runs out of fuel and never takes the nil-pointer branch: for every
    input it returns a value or an ordinary error.  (Every fuelled loop is started with
    fuel = remaining length + 1 and every iteration returns or continues on a strictly
    shorter input; the possibility under construction always has `archs = some _`.) -/
theorem C18_dep_total (s : Bytes) :
    Dep.parse s ≠ .error .fuel ∧ Dep.parse s ≠ .error .panic :=
  Lemmas.DepFix.parse_total s

/-- Both remaining outcomes occur, on inputs that exercise every loop: nested `[...]`,
    `<...>`, `(...)`, a qualifier, a substvar, NUL and unterminated brackets. -/
example :
    (Dep.parse (Bytes.ofString "a:any [!x !y] (>= 1) <s !t> <u> | ${v}, b")).toBool = true ∧
    Dep.parse (Bytes.ofString "a [x") = .error .err ∧
    Dep.parse (Bytes.ofString "a <x") = .error .err ∧
    Dep.parse (Bytes.ofString "a (>= 1") = .error .err ∧
    Dep.parse (Bytes.ofString "a [x] [y]") = .error .err ∧
    Dep.parse (Bytes.ofString "${v") = .error .err ∧
    Dep.parse [97, 32, 91, 0, 93] = .error .err ∧
    Dep.parse [97, 0, 98] = .ok [[⟨[97], none, some ⟨false, []⟩, [], none, false⟩]] := by
  decide +kernel

/-- `ParseArch` never fails: `SplitN` with limit 3 yields one to three parts and every
    case assigns all three fields. -/
theorem C18_arch_total (s : Bytes) : ∃ a, Dep.parseArch s = .ok a :=
  Lemmas.DepFix.parseArch_total s

/-- The three shapes, including the empty string and a name with more than two dashes. -/
example :
    Dep.parseArch [] = .ok ⟨sGnu, sLinux, []⟩ ∧
    Dep.parseArch (Bytes.ofString "-") = .ok ⟨sAny, [], []⟩ ∧
    Dep.parseArch (Bytes.ofString "a-b-c-d-") =
      .ok ⟨Bytes.ofString "a", Bytes.ofString "b", Bytes.ofString "c-d-"⟩ := by
  decide +kernel

/-- `ParseArchitectures` returns a value or an ordinary error for every input (in fact it
    always returns a value, since `ParseArch` cannot fail). -/
theorem C18_archlist_total (s : Bytes) :
    Dep.parseArchitectures s ≠ .error .fuel ∧ Dep.parseArchitectures s ≠ .error .panic := by
  obtain ⟨l, h⟩ := Lemmas.DepFix.parseArchitectures_total s
  rw [h]
  exact ⟨nofun, nofun⟩

/-- Repeated blanks, tabs around an element and an all-blank input. -/
example :
    Dep.parseArchitectures (Bytes.ofString "amd64  \tlinux-any\t  any-i386 ") =
      .ok [⟨sGnu, sLinux, Bytes.ofString "amd64"⟩, ⟨sAny, sLinux, sAny⟩,
           ⟨sAny, sAny, Bytes.ofString "i386"⟩] ∧
    Dep.parseArchitectures (Bytes.ofString "   ") = .ok [] := by
  decide +kernel

/-! ### the other text parsers (restated here so that C18's evidence lists them) -/

/-- `version.Parse` has no loop and no indexing that can fail: every outcome is a value or
    the ordinary error -/
theorem C18_version_total (s : Bytes) :
    Version.parse s ≠ .error .fuel ∧ Version.parse s ≠ .error .panic := by
  have key : ∀ e, Version.parse s = .error e → e = .err := by
    intro e h
    rw [Lemmas.VersionParse.parse_eq] at h
    have hfin : ∀ ep u r e, Lemmas.VersionParse.finish ep u r = .error e → e = .err := by
      intro ep u r e h
      unfold Lemmas.VersionParse.finish at h
      repeat' split at h
      all_goals first | (cases h; rfl) | cases h
    have hbody : ∀ ep rest e, Lemmas.VersionParse.parseBody ep rest = .error e → e = .err := by
      intro ep rest e h
      unfold Lemmas.VersionParse.parseBody at h
      split at h
      · cases h; rfl
      · split at h <;> exact hfin _ _ _ _ h
    have hep : ∀ t e, Lemmas.VersionParse.epochOf t = .error e → e = .err := by
      intro t e h
      unfold Lemmas.VersionParse.epochOf at h
      split at h
      · cases h; rfl
      · split at h
        · cases h; rfl
        · cases h
    split at h
    · cases h; rfl
    · split at h
      · cases h; rfl
      · unfold Lemmas.VersionParse.parseTrimmed at h
        split at h
        · exact hbody _ _ _ h
        · split at h
          · rename_i e' he
            cases h
            exact hep _ _ he
          · exact hbody _ _ _ h
  constructor <;> intro h <;> have := key _ h <;> cases this

/-- never a value together with an error: results are `Except` values (by construction);
    in particular an accepted version string yields exactly one value -/
theorem C18_version_xor (s : Bytes) : (∃ v, Version.parse s = .ok v) ∨ (∃ e, Version.parse s = .error e) := by
  cases h : Version.parse s with
  | ok v => exact .inl ⟨v, rfl⟩
  | error e => exact .inr ⟨e, rfl⟩

/-- the control-paragraph reader terminates on every input (from C07) -/
theorem C18_deb822_total (s : Bytes) :
    Deb822.all s ≠ .error .fuel ∧ Deb822.all s ≠ .error .panic := Props.C07.C07_all_total s

/-- the changelog parser terminates on every input, whatever the date oracle says (from C17) -/
theorem C18_changelog_total (s : Bytes) (dateOK : Bytes → Bool) :
    Changelog.parse s dateOK ≠ .error .fuel ∧ Changelog.parse s dateOK ≠ .error .panic :=
  Props.C17.C17_total s dateOK

/-- checksum-line parsers: field-count and number checks instead of indexing -/
theorem C18_filehash_total (alg s : Bytes) :
    Codec.parseFileHash alg s ≠ .error .panic ∧ Codec.parseChangesHash s ≠ .error .panic := by
  constructor
  · unfold Codec.parseFileHash
    split <;> (try split) <;> simp
  · unfold Codec.parseChangesHash
    split <;> (try split) <;> simp

example : Version.parse (Bytes.ofString "1:2.0-3") = .ok ⟨1, Bytes.ofString "2.0", Bytes.ofString "3"⟩ ∧
    Codec.parseFileHash Codec.sMd5 (Bytes.ofString "abc") = .error .err := by decide +kernel

end GoDebian.Props.C18
