/-
  C18 — property theorems (see DESIGN.md §5 C18).
-/
import GoDebian.Model.Codec
import GoDebian.Model.Changelog

namespace GoDebian.Props.C18
end GoDebian.Props.C18
