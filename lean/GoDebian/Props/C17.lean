/-
  C17 — the changelog parser returns every entry faithfully, or an error; never a silently
  shortened list.  On arbitrary input: a clean end is reported only when nothing but empty
  lines is left, every returned entry consumed a complete block, success accounts for every
  line, the parser terminates.  On rendered changelogs: exactly the entries are returned.
  Property theorems only; lemmas live in GoDebian/Lemmas/Changelog*.lean.
-/
import GoDebian.Model.Changelog
import GoDebian.Spec.Changelog
import GoDebian.Lemmas.ChangelogParse
import GoDebian.Lemmas.ChangelogRender

namespace GoDebian.Props.C17
open GoDebian GoDebian.Changelog

/-! ### arbitrary input -/

/-- A clean end is reported only when nothing but empty lines is left. -/
theorem C17_eof_iff (ls : List Bytes) (dateOK : Bytes → Bool) :
    parseOne ls dateOK = .eof ↔ ∀ l ∈ ls, l = [10] :=
  Lemmas.Changelog.parseOne_eof_iff ls dateOK

/-- Both directions occur: empty lines only are a clean end; a line holding a blank, a
    carriage return or any text is not (it is an error). -/
example :
    (∀ l ∈ [[10], [10]], l = [10]) ∧ ¬ (∀ l ∈ [[10], [32, 10]], l = [10]) ∧
    (match parseOne [[10], [32, 10]] (fun _ => true) with | .bad => true | _ => false) = true ∧
    (match parseOne [[13, 10]] (fun _ => true) with | .bad => true | _ => false) = true := by
  decide +kernel

/-- Every returned entry consumed a complete block: empty lines, a header line that does not
    start with a blank, body lines, and a trailer line starting with " -- "; its change text
    is exactly the body lines; its date text was accepted. -/
theorem C17_entry_block (ls rest : List Bytes) (dateOK : Bytes → Bool) (e : Entry)
    (h : parseOne ls dateOK = .entry e rest) :
    ∃ blanks header body trailer, ls = blanks ++ [header] ++ body ++ [trailer] ++ rest ∧
      (∀ l ∈ blanks, l = [10]) ∧ header ≠ [10] ∧ Str.hasPrefix header [32] = false ∧
      Str.hasPrefix trailer [32, 45, 45, 32] = true ∧
      (∀ l ∈ body, Str.hasPrefix l [32, 45, 45, 32] = false) ∧ e.changelog = body.flatten ∧
      dateOK e.whenText = true :=
  Lemmas.Changelog.parseOne_block h

/-- The hypothesis is satisfiable outside the image of `render`: no options, no body, no
    date; the lines after the trailer are handed back untouched. -/
example :
    (match parseOne (lines (Bytes.ofString "\nx (2) y z\n -- w\nnext\n")) (fun _ => true) with
      | .entry e rest => e.source == [120] && e.changelog == [] && e.changedBy == [119] &&
          e.whenText == [] && rest == [Bytes.ofString "next\n"]
      | _ => false) = true := by
  decide +kernel

/-- Hence: if parsing succeeds, the whole input is accounted for.  The lines of the input
    are a sequence of blocks followed by empty lines only; there are as many blocks as
    entries; `parseOne`, started at the i-th block, returns the i-th entry and leaves exactly
    the lines after that block; the block is complete (empty lines, header, body, trailer)
    and the entry's change text is its body. -/
theorem C17_no_silent_loss (b : Bytes) (dateOK : Bytes → Bool) (es : List Entry)
    (h : parse b dateOK = .ok es) :
    ∃ blocks : List (List Bytes), ∃ tail : List Bytes,
      lines b = blocks.flatten ++ tail ∧ (∀ l ∈ tail, l = [10]) ∧ blocks.length = es.length ∧
      ∀ i (hi : i < blocks.length) (hi' : i < es.length),
        parseOne (blocks[i] ++ ((blocks.drop (i + 1)).flatten ++ tail)) dateOK
          = .entry es[i] ((blocks.drop (i + 1)).flatten ++ tail) ∧
        ∃ blanks header body trailer, blocks[i] = blanks ++ [header] ++ body ++ [trailer] ∧
          (∀ l ∈ blanks, l = [10]) ∧ header ≠ [10] ∧ Str.hasPrefix header [32] = false ∧
          Str.hasPrefix trailer [32, 45, 45, 32] = true ∧
          (∀ l ∈ body, Str.hasPrefix l [32, 45, 45, 32] = false) ∧
          es[i].changelog = body.flatten ∧ dateOK es[i].whenText = true := by
  obtain ⟨blocks, tail, h1, h2⟩ := Lemmas.Changelog.parse_ok h
  refine ⟨blocks, tail, h1, Lemmas.Changelog.consumes_tail h2,
    Lemmas.Changelog.consumes_length h2, fun i hi hi' => ?_⟩
  have h3 := (Lemmas.Changelog.consumes_get h2 i hi hi').2
  exact ⟨h3, Lemmas.Changelog.parseOne_block_exact h3⟩

/-- A successful parse of input outside the image of `render` (leading empty line, an entry
    without options and date directly behind the previous one's separator). -/
example :
    (((parse (Bytes.ofString ("\nhello (1.0-1) unstable; urgency=low\n\n  * change\n\n" ++
        " -- A B <a@b>  Mon, 02 Jan 2006 15:04:05 -0700\n\nx (2) y z\n -- w\n\n"))
        (fun _ => true)).toOption.map
      (·.map (fun e => (e.source, e.version, e.target, e.arguments, e.changelog, e.changedBy,
        e.whenText)))) ==
    some [(Bytes.ofString "hello", ⟨0, Bytes.ofString "1.0", [49]⟩, Bytes.ofString "unstable",
        [(Bytes.ofString "urgency", Bytes.ofString "low")], Bytes.ofString "\n  * change\n\n",
        Bytes.ofString "A B <a@b>", Bytes.ofString "Mon, 02 Jan 2006 15:04:05 -0700"),
      ([120], ⟨0, [50], []⟩, Bytes.ofString "y z", [([], [])], [], [119], [])]) = true := by
  decide +kernel

/-- Incomplete input is an error, not a shorter list: a last entry cut off before its
    trailer, text behind the last entry, a date the time library rejects. -/
example :
    (parse (Bytes.ofString "a (1) u; k=v\n -- w  d\nb (2) u; k=v\n  * x\n") (fun _ => true)).toOption.isNone
      = true ∧
    (parse (Bytes.ofString "a (1) u; k=v\n -- w  d\n trailing\n") (fun _ => true)).toOption.isNone
      = true ∧
    (parse (Bytes.ofString "a (1) u; k=v\n -- w  d\n") (fun t => t != [100])).toOption.isNone
      = true := by
  decide +kernel

/-- The parser terminates: fuel `lines.length + 1` is never exhausted, and no step can
    panic.  The only outcomes are a list of entries or an error value. -/
theorem C17_total (b : Bytes) (dateOK : Bytes → Bool) :
    parse b dateOK ≠ .error .fuel ∧ parse b dateOK ≠ .error .panic :=
  Lemmas.Changelog.parse_total b dateOK

/-- Each `parseOne` step that returns an entry returns strictly fewer lines than it got. -/
theorem C17_entry_consumes (ls rest : List Bytes) (dateOK : Bytes → Bool) (e : Entry)
    (h : parseOne ls dateOK = .entry e rest) : rest.length < ls.length :=
  Lemmas.Changelog.parseOne_consumes h

/-! ### rendered changelogs -/

open GoDebian.Spec.Changelog

/-- Main theorem, entries compared directly: every list of well-formed entries whose dates
    the time library accepts, rendered with 1–3 empty lines between entries, 0–2 at the end,
    with or without the final newline, is parsed to exactly these entries, in order. -/
theorem C17_parse_render_entries (es : List SEntry) (cs : Spec.Deb822.Choices) (fin : Bool)
    (dateOK : Bytes → Bool) (hwf : es.all wfEntry = true) (hd : ∀ e ∈ es, dateOK e.date = true) :
    parse (render es cs fin) dateOK = .ok (es.map view) :=
  Lemmas.Changelog.parse_render hwf hd cs fin

/-- The same, field by field. -/
theorem C17_parse_render (es : List SEntry) (cs : Spec.Deb822.Choices) (fin : Bool)
    (dateOK : Bytes → Bool) (hwf : es.all wfEntry = true) (hd : ∀ e ∈ es, dateOK e.date = true)
    (_hne : es ≠ [] ∨ fin = true) :
    (parse (render es cs fin) dateOK).map (·.map (fun e =>
        (e.source, e.version, e.target, e.arguments, e.changelog, e.changedBy, e.whenText)))
      = .ok (es.map (fun s => let v := view s;
        (v.source, v.version, v.target, v.arguments, v.changelog, v.changedBy, v.whenText))) := by
  rw [C17_parse_render_entries es cs fin dateOK hwf hd]
  simp [Except.map, List.map_map, Function.comp_def]

/-- Two well-formed entries exercising the corners: epoch and revision, two distributions,
    an option holding ";" "(" ")", a repeated option key (the later value wins), an empty
    body, body lines " --x" and the empty line, a one-byte maintainer "-", a date text that
    starts with "--" and holds a double blank; three empty lines between the entries, none at
    the end, final newline missing. -/
example :
    let B := Bytes.ofString
    let e1 : SEntry := ⟨B "hello", ⟨1, B "2.30", B "1"⟩, [B "unstable", B "x"],
      [(B "urgency", B "low"), (B "a;b", B "(c)")], [B "  * foo", [], B " --x"], B "A B <a@b>",
      B "Mon, 02 Jan 2006 15:04:05 -0700"⟩
    let e2 : SEntry := ⟨B "h", ⟨0, B "2-3", []⟩, [B "u"], [(B "k", B "v"), (B "k", B "w")], [],
      B "-", B "--  x"⟩
    [e1, e2].all wfEntry = true ∧
    render [e1, e2] [2, 0] false =
      B ("hello (1:2.30-1) unstable x; urgency=low, a;b=(c)\n\n  * foo\n\n --x\n\n" ++
        " -- A B <a@b>  Mon, 02 Jan 2006 15:04:05 -0700\n\n\n\nh (2-3-) u; k=v, k=w\n\n\n -- -  --  x") ∧
    (view e2).arguments = [(B "k", B "w")] ∧ (view e2).changelog = B "\n\n" ∧
    (view e1).target = B "unstable x" ∧ (view e1).changelog = B "\n  * foo\n\n --x\n\n" := by
  decide +kernel

/-- The empty changelog is well-formed; its renderings are runs of empty lines. -/
example : render [] [2] true = [10, 10] ∧ render [] [2] false = [10] ∧ render [] [] false = [] := by
  decide +kernel

end GoDebian.Props.C17
