/-
  C17 — property theorems (see DESIGN.md §5 C17).
-/
import GoDebian.Model.Changelog

namespace GoDebian.Props.C17
end GoDebian.Props.C17
