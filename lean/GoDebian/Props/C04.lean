/-
  C04 — the relationship-field parser accepts the whole grammar: every field built from
  the grammar (`Spec/Dependency.lean`), with any legal spacing and any admissible clause
  order, parses to exactly the structure it denotes; malformed fields are rejected with an
  error.  Property theorems only; lemmas live in GoDebian/Lemmas/DepGrammar*.lean.
-/
import GoDebian.Model.Dependency
import GoDebian.Spec.Dependency
import GoDebian.Lemmas.ArchIs            -- `DecidableEq (Except ε α)` for the examples
import GoDebian.Lemmas.DepGrammarTop
import GoDebian.Lemmas.DepGrammarReject

namespace GoDebian.Props.C04
open GoDebian GoDebian.Dep GoDebian.Spec.Dependency

/-! ### acceptance -/

/-- MAIN: every relationship field built from the grammar, with any legal spacing (blanks,
    tabs, CR, LF around every token; at least one white-space byte before `[` and `<`;
    `(` may abut) and any clause order (version and architecture clauses in either order,
    interleaved arbitrarily with the profile groups), parses to exactly the structure it
    denotes. -/
theorem C04_parse_render (d : SDep) (cs : Spec.Deb822.Choices) (h : wfDep d = true) :
    Dep.parse (Spec.Dependency.render d cs) = .ok (denote d) :=
  Lemmas.DepGrammarTop.parse_render d cs h

/-- A well-formed three-relation field and a choice stream exercising: leading blank, a
    `:arch` qualifier, a negated two-entry architecture list folded over a line, a profile
    group with tab / double-blank / CRLF-tab spacing, the version clause abutting `>` and
    placed *between* the two profile groups and *after* the architecture list, `|` and `,`
    with and without white space, a substitution variable containing `:`, an epoch version
    with `=`. -/
example :
    let B := Bytes.ofString
    let d : SDep :=
      [[⟨false, B "libc6", some (B "amd64"), some (opGE, B "2.17~"), true, [B "i386", B "hurd-any"],
          [[(false, B "stage1"), (true, B "nocheck")], [(false, B "cross")]]⟩,
        ⟨false, B "foo", none, none, false, [], []⟩],
       [⟨true, B "shlibs:Depends", none, none, false, [], []⟩],
       [⟨false, B "bar", none, some (opEQ, B "1:2-3"), false, [], []⟩]]
    let cs : Spec.Deb822.Choices :=
      [1, 1, 0, 1, 0, 1, 0, 3, 1, 0, 2, 4, 5, 0, 1, 6, 0, 2, 1, 0, 1, 0, 0, 0, 0, 1, 1, 2]
    wfDep d = true ∧
    Spec.Dependency.render d cs =
      B (" libc6:amd64 [!i386\n !hurd-any ] <\tstage1  !nocheck\r\n\t>( >=\n2.17~)\t< cross> |foo," ++
         "${shlibs:Depends} , bar(=1:2-3)") ∧
    denote d =
      [[⟨B "libc6", some ⟨sGnu, sLinux, B "amd64"⟩,
          some ⟨true, [⟨sGnu, sLinux, B "i386"⟩, ⟨sAny, B "hurd", sAny⟩]⟩,
          [[⟨false, B "stage1"⟩, ⟨true, B "nocheck"⟩], [⟨false, B "cross"⟩]],
          some ⟨B "2.17~", opGE⟩, false⟩,
        ⟨B "foo", none, some ⟨false, []⟩, [], none, false⟩],
       [⟨B "shlibs:Depends", none, none, [], none, true⟩],
       [⟨B "bar", none, some ⟨false, []⟩, [], some ⟨B "1:2-3", opEQ⟩, false⟩]] := by
  decide +kernel

/-- The empty field is well-formed; its renderings are white space only. -/
example : wfDep [] = true ∧ Spec.Dependency.render [] [3, 5] = [10, 32, 13, 10, 9] ∧ denote [] = [] := by
  decide +kernel

/-! #### the stages of the proof, as usable corollaries -/

/-- no clauses at all: names, qualifiers, substitution variables, `|` and `,` -/
def simpleDep (d : SDep) : Bool :=
  d.all (·.all (fun p => p.version.isNone && p.archs.isEmpty && p.stages.isEmpty))

/-- (1) dependencies whose alternatives have no clauses, with arbitrary spacing -/
theorem C04_parse_render_simple (d : SDep) (cs : Spec.Deb822.Choices) (h : wfDep d = true)
    (_ : simpleDep d = true) : Dep.parse (Spec.Dependency.render d cs) = .ok (denote d) :=
  C04_parse_render d cs h

example :
    let B := Bytes.ofString
    let d : SDep := [[⟨false, B "a", none, none, false, [], []⟩, ⟨true, B "x:y", none, none, false, [], []⟩],
      [⟨false, B "b", some (B "any"), none, false, [], []⟩]]
    wfDep d = true ∧ simpleDep d = true ∧
    Spec.Dependency.render d [2, 1, 3, 0, 5, 1, 4] = B "\ta\n |${x:y}\r\n\t, b:any" := by
  decide +kernel

/-- (2) plus version clauses -/
theorem C04_parse_render_version (d : SDep) (cs : Spec.Deb822.Choices) (h : wfDep d = true)
    (_ : d.all (·.all (fun p => p.archs.isEmpty && p.stages.isEmpty)) = true) :
    Dep.parse (Spec.Dependency.render d cs) = .ok (denote d) :=
  C04_parse_render d cs h

example :
    let B := Bytes.ofString
    let d : SDep := [[⟨false, B "a", some (B "i386"), some (opLT, B "1.0-1"), false, [], []⟩]]
    wfDep d = true ∧ d.all (·.all (fun p => p.archs.isEmpty && p.stages.isEmpty)) = true ∧
    Spec.Dependency.render d [0, 0, 1, 2, 1, 3] = B "a:i386 (\t<< 1.0-1\n )" := by
  decide +kernel

/-- (3) plus architecture lists -/
theorem C04_parse_render_archs (d : SDep) (cs : Spec.Deb822.Choices) (h : wfDep d = true)
    (_ : d.all (·.all (fun p => p.stages.isEmpty)) = true) :
    Dep.parse (Spec.Dependency.render d cs) = .ok (denote d) :=
  C04_parse_render d cs h

example :
    let B := Bytes.ofString
    let d : SDep := [[⟨false, B "a", none, some (opLE, B "2"), false, [B "linux-any", B "amd64"], []⟩]]
    wfDep d = true ∧ d.all (·.all (fun p => p.stages.isEmpty)) = true ∧
    Spec.Dependency.render d [0, 1, 2, 0, 1, 0, 0, 0, 0, 0] = B "a\t[linux-any amd64](<=2)" := by
  decide +kernel

/-! ### rejection -/

/-- Malformed fields are rejected with an error (and, the result being an `Except`, with
    no result): an unterminated `(` — whatever follows it, as long as no `)` does. -/
theorem C04_reject_unterminated_paren (pre body : Bytes) (hpre : token reserved pre = true)
    (h : 41 ∉ body) : ∃ e, Dep.parse (pre ++ [32, 40] ++ body) = .error e :=
  Lemmas.DepGrammarReject.reject_unterminated_paren pre body hpre h

example :
    token reserved (Bytes.ofString "foo") = true ∧ 41 ∉ Bytes.ofString ">= 1.0" ∧
    Dep.parse (Bytes.ofString "foo (>= 1.0") = .error .err := by
  decide +kernel

/-- an unterminated `[` -/
theorem C04_reject_unterminated_bracket (pre body : Bytes) (hpre : token reserved pre = true)
    (h : 93 ∉ body) : ∃ e, Dep.parse (pre ++ [32, 91] ++ body) = .error e :=
  Lemmas.DepGrammarReject.reject_unterminated_bracket pre body hpre h

example :
    token reserved (Bytes.ofString "foo") = true ∧ 93 ∉ Bytes.ofString "amd64 i386, bar" ∧
    Dep.parse (Bytes.ofString "foo [amd64 i386, bar") = .error .err := by
  decide +kernel

/-- an unterminated `<` -/
theorem C04_reject_unterminated_angle (pre body : Bytes) (hpre : token reserved pre = true)
    (h : 62 ∉ body) : ∃ e, Dep.parse (pre ++ [32, 60] ++ body) = .error e :=
  Lemmas.DepGrammarReject.reject_unterminated_angle pre body hpre h

example :
    token reserved (Bytes.ofString "foo") = true ∧ 62 ∉ Bytes.ofString "!stage1 | bar" ∧
    Dep.parse (Bytes.ofString "foo <!stage1 | bar") = .error .err := by
  decide +kernel

/-- an unterminated `${` -/
theorem C04_reject_unterminated_substvar (body : Bytes) (h : 125 ∉ body) :
    ∃ e, Dep.parse ([36, 123] ++ body) = .error e :=
  Lemmas.DepGrammarReject.reject_unterminated_substvar body h

example :
    125 ∉ Bytes.ofString "misc:Depends, foo" ∧
    Dep.parse (Bytes.ofString "${misc:Depends, foo") = .error .err := by
  decide +kernel

/-- mixed negation inside one architecture list, in either order: `n [!a b]`, `n [a !b]` -/
theorem C04_reject_mixed_negation (n a b : Bytes) (hn : token reserved n = true)
    (ha : token reserved a = true) (hb : token reserved b = true) :
    (∃ e, Dep.parse (n ++ [32, 91, 33] ++ a ++ [32] ++ b ++ [93]) = .error e) ∧
    (∃ e, Dep.parse (n ++ [32, 91] ++ a ++ [32, 33] ++ b ++ [93]) = .error e) :=
  Lemmas.DepGrammarReject.reject_mixed_negation n a b hn ha hb

example :
    token reserved (Bytes.ofString "foo") = true ∧ token reserved (Bytes.ofString "amd64") = true ∧
    token reserved (Bytes.ofString "i386") = true ∧
    Dep.parse (Bytes.ofString "foo [!amd64 i386]") = .error .err ∧
    Dep.parse (Bytes.ofString "foo [amd64 !i386]") = .error .err := by
  decide +kernel

/-- a second version clause: `n (>= v) (<= w)` (the error arises at the second `(`, so
    nothing is assumed about `w`) -/
theorem C04_reject_second_version (n v w : Bytes) (hn : token reserved n = true)
    (hv : token [41] v = true) :
    ∃ e, Dep.parse (n ++ [32, 40, 62, 61, 32] ++ v ++ [41, 32, 40, 60, 61, 32] ++ w ++ [41])
      = .error e :=
  Lemmas.DepGrammarReject.reject_second_version n v w hn hv

example :
    token reserved (Bytes.ofString "foo") = true ∧ token [41] (Bytes.ofString "1.0") = true ∧
    Bytes.ofString "foo" ++ [32, 40, 62, 61, 32] ++ Bytes.ofString "1.0" ++ [41, 32, 40, 60, 61, 32] ++
      Bytes.ofString "2.0" ++ [41] = Bytes.ofString "foo (>= 1.0) (<= 2.0)" ∧
    Dep.parse (Bytes.ofString "foo (>= 1.0) (<= 2.0)") = .error .err := by
  decide +kernel

/-- a second architecture clause: `n [a] [b]` (the error arises at the second `[`, so
    nothing is assumed about `b`) -/
theorem C04_reject_second_arch (n a b : Bytes) (hn : token reserved n = true)
    (ha : token reserved a = true) :
    ∃ e, Dep.parse (n ++ [32, 91] ++ a ++ [93, 32, 91] ++ b ++ [93]) = .error e :=
  Lemmas.DepGrammarReject.reject_second_arch n a b hn ha

example :
    token reserved (Bytes.ofString "foo") = true ∧ token reserved (Bytes.ofString "amd64") = true ∧
    Bytes.ofString "foo" ++ [32, 91] ++ Bytes.ofString "amd64" ++ [93, 32, 91] ++
      Bytes.ofString "i386" ++ [93] = Bytes.ofString "foo [amd64] [i386]" ∧
    Dep.parse (Bytes.ofString "foo [amd64] [i386]") = .error .err := by
  decide +kernel

/-- an unknown operator: `n (c1 c2 …` where `c1 c2` is none of `=`, `>=`, `<=`, `>>`, `<<`
    (`c1` not white space; the error arises at the operator, so nothing is assumed about
    what follows it) -/
theorem C04_reject_unknown_operator (n : Bytes) (c1 c2 : Nat) (rest : Bytes)
    (hn : token reserved n = true) (hws : isWs c1 = false)
    (hop : c1 ≠ 61 ∧ ¬ ((c1 = 62 ∨ c1 = 60) ∧ (c2 = 61 ∨ c2 = c1))) :
    ∃ e, Dep.parse (n ++ [32, 40] ++ [c1, c2] ++ rest) = .error e :=
  Lemmas.DepGrammarReject.reject_unknown_operator n c1 c2 rest hn hws hop

/-- `foo (~> 1.0)`, `foo (> 1.0)` (the old single-character form), `foo (<> 1.0)`. -/
example :
    token reserved (Bytes.ofString "foo") = true ∧
    isWs 126 = false ∧ (126 ≠ 61 ∧ ¬ ((126 = 62 ∨ 126 = 60) ∧ (62 = 61 ∨ 62 = 126))) ∧
    isWs 62 = false ∧ (62 ≠ 61 ∧ ¬ ((62 = 62 ∨ 62 = 60) ∧ (32 = 61 ∨ 32 = 62))) ∧
    isWs 60 = false ∧ (60 ≠ 61 ∧ ¬ ((60 = 62 ∨ 60 = 60) ∧ (62 = 61 ∨ 62 = 60))) ∧
    Dep.parse (Bytes.ofString "foo (~> 1.0)") = .error .err ∧
    Dep.parse (Bytes.ofString "foo (> 1.0)") = .error .err ∧
    Dep.parse (Bytes.ofString "foo (<> 1.0)") = .error .err := by
  decide +kernel

/-- two names without a separator: `a b` -/
theorem C04_reject_two_names (a b : Bytes) (ha : token reserved a = true)
    (hb : token reserved b = true) : ∃ e, Dep.parse (a ++ [32] ++ b) = .error e :=
  Lemmas.DepGrammarReject.reject_two_names a b ha hb

example :
    token reserved (Bytes.ofString "foo") = true ∧ token reserved (Bytes.ofString "bar") = true ∧
    Dep.parse (Bytes.ofString "foo bar") = .error .err := by
  decide +kernel

end GoDebian.Props.C04
