/-
  C04 — property theorems (see DESIGN.md §5 C04).
-/
import GoDebian.Model.Dependency

namespace GoDebian.Props.C04
end GoDebian.Props.C04
