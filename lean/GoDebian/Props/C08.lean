/-
  C08 — property theorems (see DESIGN.md §5 C08).
-/
import GoDebian.Model.Deb822
import GoDebian.Spec.Deb822

namespace GoDebian.Props.C08
end GoDebian.Props.C08
