/-
  C08 — what `Paragraph.WriteTo` writes is read back by the paragraph reader with the same
  fields and the same logical lines.
  Property theorems only; lemmas live in GoDebian/Lemmas/Deb822Write*.lean.
-/
import GoDebian.Model.Deb822
import GoDebian.Spec.Deb822
import GoDebian.Spec.Deb822Write
import GoDebian.Lemmas.Deb822WriteInv

namespace GoDebian.Props.C08
open GoDebian GoDebian.Deb822 GoDebian.Spec.Deb822Write

/-- A text paragraph used as the witness below: a plain field, a multi-line field with an
    empty line (written " ."), a field whose first line starts with a blank (written on a
    continuation line after an empty first line), an empty value. -/
def sample : Paragraph :=
  let pkg := Bytes.ofString "Package"
  let desc := Bytes.ofString "Description"
  let note := Bytes.ofString "X-Note"
  let tag := Bytes.ofString "Tag"
  ⟨[pkg, desc, note, tag],
   [(pkg, Bytes.ofString "hello"),
    (desc, Bytes.ofString "short text\n\n  indented: line\nlast\n"),
    (note, Bytes.ofString "  starts with blanks\nmore"),
    (tag, [])]⟩

example : textPara sample = true ∧ sample.order ≠ [] ∧
    sample.write = Bytes.ofString
      "Package: hello\nDescription: short text\n .\n   indented: line\n last\nX-Note: \n   starts with blanks\n more\nTag: \n" := by
  decide +kernel

/-- the written form never contains an empty or white-space-only line inside a paragraph -/
theorem C08_no_blank_line (p : Paragraph) (h : textPara p = true) :
    ∀ l ∈ physLines p.write, blankLine l = false := by
  have hs := Lemmas.Deb822Write.textPara_spec h
  rw [Lemmas.Deb822Write.physLines_write p (fun k hk => (hs.2.1 k hk).1.2.2.1)]
  exact Lemmas.Deb822Write.not_blank_paraLines hs.2.1

example : (physLines sample.write).length = 9 ∧ blankLine (Bytes.ofString "  \t\r\n") = true := by
  decide +kernel

/-- it reads back as one paragraph with the same fields in the same order and the same
    logical lines per field -/
theorem C08_read_write (p : Paragraph) (h : textPara p = true) (hne : p.order ≠ []) :
    ∃ q, all p.write = .ok [q] ∧ q.order = p.order ∧
      ∀ k ∈ p.order, valueLines (q.get k) = valueLines (p.get k) :=
  ⟨Lemmas.Deb822Write.reread p,
    Lemmas.Deb822Write.all_write (Lemmas.Deb822Write.rereadable_of_textPara h hne), rfl,
    fun _ hk => Lemmas.Deb822Write.valueLines_get_reread hk
      ((Lemmas.Deb822Write.textPara_spec h).2.2 _ hk)⟩

/-- The values themselves may differ by the trailing newline: "…\nmore" comes back as
    "…\nmore\n"; the logical lines do not. -/
example :
    all sample.write = .ok [⟨sample.order,
      [(Bytes.ofString "Package", Bytes.ofString "hello"),
       (Bytes.ofString "Description", Bytes.ofString "short text\n\n  indented: line\nlast\n"),
       (Bytes.ofString "X-Note", Bytes.ofString "  starts with blanks\nmore\n"),
       (Bytes.ofString "Tag", [])]⟩] := by
  decide +kernel

/-- The excluded case (recorded finding `leading-empty-line`): an empty first line followed
    by further lines is written as "k: \n more", which reads back without the empty line. -/
example :
    let p : Paragraph := ⟨[[107]], [([107], Bytes.ofString "\nmore")]⟩
    noLeadingEmptyLine (p.get [107]) = false ∧
    all p.write = .ok [⟨[[107]], [([107], Bytes.ofString "more\n")]⟩] := by
  decide +kernel

/-- paragraphs written one after another (blank line between, as the encoder does) read
    back as the same number of paragraphs -/
theorem C08_count (ps : List Paragraph) (h : ∀ p ∈ ps, textPara p = true ∧ p.order ≠ []) :
    ∃ qs, all (writeAll ps) = .ok qs ∧ qs.length = ps.length :=
  ⟨ps.map Lemmas.Deb822Write.reread,
    Lemmas.Deb822Write.all_writeAll ps
      (fun p hp => Lemmas.Deb822Write.rereadable_of_textPara (h p hp).1 (h p hp).2),
    List.length_map _⟩

example :
    let ps := [sample, ⟨[[97]], [([97], [98])]⟩, sample]
    (∀ p ∈ ps, textPara p = true ∧ p.order ≠ []) ∧
      (all (writeAll ps)).toOption.map List.length = some 3 := by
  decide +kernel

/-- The non-emptiness hypothesis cannot be dropped: a paragraph without fields writes
    nothing, and the two blank lines around it separate only two paragraphs. -/
example :
    let ps := [sample, ⟨[], []⟩, sample]
    textPara ⟨[], []⟩ = true ∧ (all (writeAll ps)).toOption.map List.length = some 2 := by
  decide +kernel

/-! ### read–write–read -/

/-- read-write-read is the identity (up to one trailing newline per value) on whatever the
    reader produced, and a second cycle changes nothing, not even a byte -/
theorem C08_stable (bs : Bytes) (ps : List Paragraph) (h : all bs = .ok ps)
    (hl : ∀ p ∈ ps, ∀ k ∈ p.order, noLeadingEmptyLine (p.get k) = true) :
    ∃ ps', all (writeAll ps) = .ok ps' ∧
      List.Forall₂ (fun a b => sameUpToNewline a b = true) ps ps' ∧ writeAll ps' = writeAll ps :=
  ⟨ps.map Lemmas.Deb822Write.reread, Lemmas.Deb822Write.stable_of_all h hl⟩

/-- Two paragraphs with a comment, CRLF, an empty line inside a value, a tab-marked
    continuation with trailing blanks, an empty field name, a field name with an inner
    blank, a value whose first line starts with blanks, one whose first line starts with a
    carriage return, a repeated name across paragraphs. -/
example :
    let pkg := Bytes.ofString "Package"
    let desc := Bytes.ofString "Description"
    let ps : List Paragraph :=
      [⟨[pkg, desc], [(pkg, Bytes.ofString "hello"),
          (desc, Bytes.ofString "short\n\n indented\nlast\n")]⟩,
       ⟨[[], Bytes.ofString "a b", [88], [89], pkg],
        [([], Bytes.ofString "empty key"), (Bytes.ofString "a b", Bytes.ofString "inner blank"),
          ([88], Bytes.ofString "  lead\n"), ([89], Bytes.ofString "\rx\n"),
          (pkg, Bytes.ofString "again")]⟩]
    all (Bytes.ofString ("# c\nPackage:  hello \r\nDescription: short\n .\n\t indented \n last\n\n\n" ++
      ": empty key\na b : inner blank\nX:\n   lead\nY:\n \rx\nPackage: again\n")) = .ok ps ∧
    (∀ p ∈ ps, ∀ k ∈ p.order, noLeadingEmptyLine (p.get k) = true) := by
  decide +kernel

/-- The two findings of the first proof attempt (`hash-key`, `first-line-space`), after the
    fixes: a field name that would be written as a comment is rejected by the reader; a
    first line starting with any white-space rune is written on a continuation line and
    comes back unchanged. -/
example :
    all (Bytes.ofString "\r#foo: bar\n") = .error .err ∧
    writeAll [⟨[[97]], [([97], Bytes.ofString "\rx\n")]⟩] = Bytes.ofString "a: \n \rx\n" ∧
    all (Bytes.ofString "a: \n \rx\n") = .ok [⟨[[97]], [([97], Bytes.ofString "\rx\n")]⟩] := by
  decide +kernel

/-- The remaining hypothesis cannot be dropped (finding `leading-empty-line`): the reader
    returns "\nx\n" for an empty field line followed by " ." and " x"; written back, the
    empty first line is taken for the empty field line and only "x\n" returns. -/
example :
    let ps : List Paragraph := [⟨[[97]], [([97], Bytes.ofString "\nx\n")]⟩]
    all (Bytes.ofString "a:\n .\n x\n") = .ok ps ∧
    noLeadingEmptyLine (Bytes.ofString "\nx\n") = false ∧
    all (writeAll ps) = .ok [⟨[[97]], [([97], Bytes.ofString "x\n")]⟩] := by
  decide +kernel

/-- What every paragraph returned by the reader looks like (the invariant behind
    `C08_stable`): at least one field, distinct names, each name trimmed, free of ':' and
    newline and not starting with '#', each value a trimmed newline-free first line `t`
    alone, or `t` (if not empty) and right-trimmed newline-free continuation lines other
    than ".", each followed by a newline. -/
theorem C08_reader_output (bs : Bytes) (ps : List Paragraph) (h : all bs = .ok ps) :
    ∀ p ∈ ps, p.order ≠ [] ∧ p.order.Nodup ∧ ∀ k ∈ p.order,
      (Str.trimSpace k = k ∧ 58 ∉ k ∧ 10 ∉ k ∧ k.head? ≠ some 35) ∧
      ∃ (t : Bytes) (ls : List Bytes), p.get k = (if ls.isEmpty then t else
          (if t.isEmpty then [] else t ++ [10]) ++ (ls.map (· ++ [10])).flatten) ∧
        Str.trimSpace t = t ∧ 10 ∉ t ∧
        ∀ l ∈ ls, Str.trimRightSpace l = l ∧ 10 ∉ l ∧ l ≠ [46] := by
  intro p hp
  obtain ⟨h1, h2, h3⟩ := Lemmas.Deb822Write.all_inv h p hp
  refine ⟨h1, h2, fun k hk => ?_⟩
  obtain ⟨⟨hk1, hk2, hk3, hk4⟩, t, ls, hv, ht, ht', hls⟩ := h3 k hk
  exact ⟨⟨Lemmas.Deb822WriteStr.trimSpace_of_trimmed hk1, hk2, hk3, hk4⟩, t, ls, hv,
    Lemmas.Deb822WriteStr.trimSpace_of_trimmed ht, ht', hls⟩

end GoDebian.Props.C08
