/-
  C08 — what `Paragraph.WriteTo` writes is read back by the paragraph reader with the same
  fields and the same logical lines.
  Property theorems only; lemmas live in GoDebian/Lemmas/Deb822Write*.lean.
-/
import GoDebian.Model.Deb822
import GoDebian.Spec.Deb822
import GoDebian.Spec.Deb822Write
import GoDebian.Lemmas.Deb822WriteDoc

namespace GoDebian.Props.C08
open GoDebian GoDebian.Deb822 GoDebian.Spec.Deb822Write

/-- A text paragraph used as the witness below: a plain field, a multi-line field with an
    empty line (written " ."), a field whose first line starts with a blank (written on a
    continuation line after an empty first line), an empty value. -/
def sample : Paragraph :=
  let pkg := Bytes.ofString "Package"
  let desc := Bytes.ofString "Description"
  let note := Bytes.ofString "X-Note"
  let tag := Bytes.ofString "Tag"
  ⟨[pkg, desc, note, tag],
   [(pkg, Bytes.ofString "hello"),
    (desc, Bytes.ofString "short text\n\n  indented: line\nlast\n"),
    (note, Bytes.ofString "  starts with blanks\nmore"),
    (tag, [])]⟩

example : textPara sample = true ∧ sample.order ≠ [] ∧
    sample.write = Bytes.ofString
      "Package: hello\nDescription: short text\n .\n   indented: line\n last\nX-Note: \n   starts with blanks\n more\nTag: \n" := by
  decide +kernel

/-- the written form never contains an empty or white-space-only line inside a paragraph -/
theorem C08_no_blank_line (p : Paragraph) (h : textPara p = true) :
    ∀ l ∈ physLines p.write, blankLine l = false := by
  have hs := Lemmas.Deb822Write.textPara_spec h
  rw [Lemmas.Deb822Write.physLines_write p (fun k hk => (hs.2.1 k hk).1.2.2.1)]
  exact Lemmas.Deb822Write.not_blank_paraLines hs.2.1

example : (physLines sample.write).length = 9 ∧ blankLine (Bytes.ofString "  \t\r\n") = true := by
  decide +kernel

/-- it reads back as one paragraph with the same fields in the same order and the same
    logical lines per field -/
theorem C08_read_write (p : Paragraph) (h : textPara p = true) (hne : p.order ≠ []) :
    ∃ q, all p.write = .ok [q] ∧ q.order = p.order ∧
      ∀ k ∈ p.order, valueLines (q.get k) = valueLines (p.get k) :=
  ⟨Lemmas.Deb822Write.reread p,
    Lemmas.Deb822Write.all_write (Lemmas.Deb822Write.rereadable_of_textPara h hne), rfl,
    fun _ hk => Lemmas.Deb822Write.valueLines_get_reread hk
      ((Lemmas.Deb822Write.textPara_spec h).2.2 _ hk)⟩

/-- The values themselves may differ by the trailing newline: "…\nmore" comes back as
    "…\nmore\n"; the logical lines do not. -/
example :
    all sample.write = .ok [⟨sample.order,
      [(Bytes.ofString "Package", Bytes.ofString "hello"),
       (Bytes.ofString "Description", Bytes.ofString "short text\n\n  indented: line\nlast\n"),
       (Bytes.ofString "X-Note", Bytes.ofString "  starts with blanks\nmore\n"),
       (Bytes.ofString "Tag", [])]⟩] := by
  decide +kernel

/-- The excluded case (recorded finding `leading-empty-line`): an empty first line followed
    by further lines is written as "k: \n more", which reads back without the empty line. -/
example :
    let p : Paragraph := ⟨[[107]], [([107], Bytes.ofString "\nmore")]⟩
    noLeadingEmptyLine (p.get [107]) = false ∧
    all p.write = .ok [⟨[[107]], [([107], Bytes.ofString "more\n")]⟩] := by
  decide +kernel

/-- paragraphs written one after another (blank line between, as the encoder does) read
    back as the same number of paragraphs -/
theorem C08_count (ps : List Paragraph) (h : ∀ p ∈ ps, textPara p = true ∧ p.order ≠ []) :
    ∃ qs, all (writeAll ps) = .ok qs ∧ qs.length = ps.length :=
  ⟨ps.map Lemmas.Deb822Write.reread,
    Lemmas.Deb822Write.all_writeAll ps
      (fun p hp => Lemmas.Deb822Write.rereadable_of_textPara (h p hp).1 (h p hp).2),
    List.length_map _⟩

example :
    let ps := [sample, ⟨[[97]], [([97], [98])]⟩, sample]
    (∀ p ∈ ps, textPara p = true ∧ p.order ≠ []) ∧
      (all (writeAll ps)).toOption.map List.length = some 3 := by
  decide +kernel

/-- The non-emptiness hypothesis cannot be dropped: a paragraph without fields writes
    nothing, and the two blank lines around it separate only two paragraphs. -/
example :
    let ps := [sample, ⟨[], []⟩, sample]
    textPara ⟨[], []⟩ = true ∧ (all (writeAll ps)).toOption.map List.length = some 2 := by
  decide +kernel

end GoDebian.Props.C08
