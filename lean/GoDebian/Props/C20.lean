/-
  C20 — property theorems (see DESIGN.md §5 C20).
-/
import GoDebian.Model.Upload

namespace GoDebian.Props.C20
end GoDebian.Props.C20
