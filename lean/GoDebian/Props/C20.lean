/-
  C20 — Copy / Move / Remove of a .dsc / .changes with the files it lists, over the
  abstract file system of Model/Upload.lean: listed names that are not plain file names
  and a control file that lists itself stop everything before any step; nothing outside
  the two directories is touched and only listed names change; the control file goes last,
  so its presence in the destination certifies a complete upload and a failure never
  leaves one there; removal deletes the control file last.
  Property theorems only; lemmas live in GoDebian/Lemmas/Upload.lean.
-/
import GoDebian.Model.Upload
import GoDebian.Lemmas.Upload
import GoDebian.Model.UploadPaths
import GoDebian.Lemmas.Paths

namespace GoDebian.Props.C20
open GoDebian GoDebian.Upload

/-- whatever names are listed, a name that is not a plain file name stops everything
    before any step -/
theorem C20_nonplain_noop (op : Op) (s : State) (ctl : Bytes) (names : List Bytes)
    (h : names.all plain = false) : exec op s ctl names = ⟨s, false, false⟩ :=
  Lemmas.Upload.exec_nonplain op s ctl names h

/-- "../x", "sub/x", "/abs", "..", "." and "" among otherwise fine names -/
example :
    let B := Bytes.ofString
    [[B "a.tar.gz", B "../x"], [B "sub/x"], [B "/abs"], [B ".."], [B "."], [[]]].all
      (fun names => names.all plain = false) = true ∧
    [B "a.tar.gz", B "..a", B "a b"].all plain = true := by
  decide +kernel

/-- a control file that lists itself: nothing happens -/
theorem C20_self_listing_noop (op : Op) (s : State) (ctl : Bytes) (names : List Bytes)
    (h : names.contains ctl = true) :
    (exec op s ctl names).ok = false ∧ (exec op s ctl names).state = s :=
  Lemmas.Upload.exec_self_listing op s ctl names h

example :
    let B := Bytes.ofString
    [B "a.tar.gz", B "a.dsc"].contains (B "a.dsc") = true ∧
    [B "a.tar.gz", B "a.dsc"].all plain = true := by
  decide +kernel

/-- nothing outside the two directories is ever touched -/
theorem C20_confined (op : Op) (s : State) (ctl : Bytes) (names : List Bytes) :
    (exec op s ctl names).state.outside = s.outside :=
  (Lemmas.Upload.exec_frame op s ctl names).1

/-- the destination kind never changes and only names among `names ++ [ctl]` change in
    either directory -/
theorem C20_only_listed (op : Op) (s : State) (ctl : Bytes) (names : List Bytes) (n : Bytes)
    (h : n ∉ names ∧ n ≠ ctl) :
    get (exec op s ctl names).state.src n = get s.src n ∧
    get (exec op s ctl names).state.dest n = get s.dest n :=
  (Lemmas.Upload.exec_frame op s ctl names).2 n h

/-- a move of two files and the control file in a directory that also holds a bystander,
    into a destination that holds another bystander: both bystanders stay -/
example :
    let B := Bytes.ofString
    let s : State := ⟨[(B "other", .file 9), (B "a.tar.gz", .file 1), (B "a.dsc", .file 2)], .dir,
      [(B "old", .dir true)], false⟩
    let o := exec .move s (B "a.dsc") [B "a.tar.gz"]
    o.ok = true ∧ get o.state.src (B "other") = some (.file 9) ∧
    get o.state.dest (B "old") = some (.dir true) ∧ o.state.outside = false ∧
    get o.state.src (B "a.dsc") = none ∧ get o.state.dest (B "a.dsc") = some (.file 2) := by
  decide +kernel

/-- control file last (copy/move): if the control file was not in the destination before
    and is there afterwards, the operation succeeded and every referenced file is there
    with the content/shape it had at the source -/
theorem C20_control_last (op : Op) (s : State) (ctl : Bytes) (names : List Bytes)
    (hop : op ≠ .remove) (h0 : get s.dest ctl = none)
    (h1 : (get (exec op s ctl names).state.dest ctl).isSome) :
    (exec op s ctl names).ok = true ∧
    ∀ n ∈ names, get (exec op s ctl names).state.dest n = get s.src n := by
  cases hok : (exec op s ctl names).ok
  · rw [(Lemmas.Upload.exec_failure hop s ctl names h0 hok).1] at h1
    cases h1
  · exact ⟨rfl, fun n hn => (Lemmas.Upload.exec_success hop s ctl names hok).2 n
      (List.mem_append_left _ hn)⟩

/-- the hypotheses hold for a copy with a duplicate listed name and for a move -/
example :
    let B := Bytes.ofString
    let s : State := ⟨[(B "a.tar.gz", .file 1), (B "b.tar.gz", .file 3), (B "a.dsc", .file 2)], .dir,
      [(B "a.tar.gz", .file 7)], false⟩
    get s.dest (B "a.dsc") = none ∧
    (get (exec .copy s (B "a.dsc") [B "a.tar.gz", B "b.tar.gz", B "a.tar.gz"]).state.dest (B "a.dsc")).isSome ∧
    (get (exec .move s (B "a.dsc") [B "a.tar.gz", B "b.tar.gz"]).state.dest (B "a.dsc")).isSome := by
  decide +kernel

/-- failure leaves no control file in the destination, and for a move the control file is
    still at its source -/
theorem C20_failure (op : Op) (s : State) (ctl : Bytes) (names : List Bytes)
    (hop : op ≠ .remove) (h0 : get s.dest ctl = none) (hf : (exec op s ctl names).ok = false) :
    get (exec op s ctl names).state.dest ctl = none ∧
    (op = .move → get (exec op s ctl names).state.src ctl = get s.src ctl) :=
  Lemmas.Upload.exec_failure hop s ctl names h0 hf

/-- failures at every point: a missing second file (the first one has already moved), a
    duplicate name under move, a control file that is a directory under copy (the partial
    file is removed again), a destination slot occupied by a directory, a missing
    destination, a destination that is a file -/
example :
    let B := Bytes.ofString
    let src : Dir := [(B "a.tar.gz", .file 1), (B "a.dsc", .file 2)]
    let s : State := ⟨src, .dir, [], false⟩
    let o1 := exec .move s (B "a.dsc") [B "a.tar.gz", B "b.tar.gz"]
    o1.ok = false ∧ get o1.state.dest (B "a.tar.gz") = some (.file 1) ∧ get o1.state.src (B "a.tar.gz") = none ∧
    (exec .move s (B "a.dsc") [B "a.tar.gz", B "a.tar.gz"]).ok = false ∧
    (exec .copy ⟨[(B "a.tar.gz", .file 1), (B "a.dsc", .dir false)], .dir, [], false⟩ (B "a.dsc") [B "a.tar.gz"]).ok = false ∧
    (exec .copy ⟨src, .dir, [(B "a.tar.gz", .dir false)], false⟩ (B "a.dsc") [B "a.tar.gz"]).ok = false ∧
    (exec .copy ⟨src, .missing, [], false⟩ (B "a.dsc") [B "a.tar.gz"]).ok = false ∧
    (exec .move ⟨src, .file, [], false⟩ (B "a.dsc") [B "a.tar.gz"]).ok = false := by
  decide +kernel

/-- removal deletes the control file last: if removal fails the control file is untouched -/
theorem C20_remove_last (s : State) (ctl : Bytes) (names : List Bytes)
    (hf : (exec .remove s ctl names).ok = false) :
    get (exec .remove s ctl names).state.src ctl = get s.src ctl :=
  Lemmas.Upload.exec_remove_failure s ctl names hf

/-- a listed name that is a non-empty directory: the first file is gone, the control file
    is still there -/
example :
    let B := Bytes.ofString
    let s : State := ⟨[(B "a.tar.gz", .file 1), (B "b", .dir true), (B "a.dsc", .file 2)], .missing, [], false⟩
    let o := exec .remove s (B "a.dsc") [B "a.tar.gz", B "b"]
    o.ok = false ∧ get o.state.src (B "a.tar.gz") = none ∧ get o.state.src (B "a.dsc") = some (.file 2) := by
  decide +kernel

/-- success: the handle points into the destination and all files (referenced ones and the
    control file) are there, identical to the originals -/
theorem C20_success (op : Op) (s : State) (ctl : Bytes) (names : List Bytes)
    (hop : op ≠ .remove) (hs : (exec op s ctl names).ok = true) :
    (exec op s ctl names).handleDest = true ∧
    ∀ n ∈ names ++ [ctl], get (exec op s ctl names).state.dest n = get s.src n :=
  Lemmas.Upload.exec_success hop s ctl names hs

/-- success of a move that overwrites an existing destination file and moves an empty
    directory, and of a copy with a duplicate name -/
example :
    let B := Bytes.ofString
    let s : State := ⟨[(B "a.tar.gz", .file 1), (B "d", .dir false), (B "a.dsc", .file 2)], .dir,
      [(B "a.tar.gz", .file 7)], false⟩
    (exec .move s (B "a.dsc") [B "a.tar.gz", B "d"]).ok = true ∧
    (exec .copy s (B "a.dsc") [B "a.tar.gz", B "a.tar.gz"]).ok = true := by
  decide +kernel

/-- every intermediate state of the file loop: the control file is not yet in the
    destination -/
theorem C20_prefix (op : Op) (s : State) (ctl : Bytes) (names : List Bytes) (k : Nat)
    (_hop : op ≠ .remove) (h0 : get s.dest ctl = none) (hc : names.contains ctl = false)
    (_hp : names.all plain = true) :
    get (runFiles op s (names.take k)).1.dest ctl = none :=
  (Lemmas.Upload.runFiles_take_dest op s ctl names k hc).trans h0

example :
    let B := Bytes.ofString
    let s : State := ⟨[(B "a.tar.gz", .file 1), (B "b.tar.gz", .file 3), (B "a.dsc", .file 2)], .dir, [], false⟩
    let names := [B "a.tar.gz", B "b.tar.gz"]
    get s.dest (B "a.dsc") = none ∧ names.contains (B "a.dsc") = false ∧ names.all plain = true ∧
    get (runFiles .copy s (names.take 1)).1.dest (B "a.tar.gz") = some (.file 1) := by
  decide +kernel

/-! ### one handle, several operations (`execW`, `runW`) -/

/-- a step of a handle changes only the handle's own directory and the destination -/
theorem C20_seq_step_frame (op : Op) (w w' : World) (t : Nat) (ctl : Bytes) (names : List Bytes)
    (ok : Bool) (h : execW op w t ctl names = some (w', ok)) (i : Nat) (hi : i ≠ w.here) (ht : i ≠ t) :
    w'.dirs[i]? = w.dirs[i]? := by
  unfold execW at h
  split at h
  · cases h
  · split at h
    · injection h with h
      injection h with h1 _
      subst h1
      simp [Ne.symm hi, Ne.symm ht]
    · cases h

/-- where the handle is afterwards: in the destination exactly when a copy / move
    succeeded, where it was otherwise -/
theorem C20_seq_step_handle (op : Op) (w w' : World) (t : Nat) (ctl : Bytes) (names : List Bytes)
    (ok : Bool) (h : execW op w t ctl names = some (w', ok)) :
    w'.here = (if ok = true ∧ op ≠ .remove then t else w.here) := by
  unfold execW at h
  split at h
  · cases h
  · split at h
    · rename_i s d _ _
      injection h with h
      injection h with h1 h2
      subst h1; subst h2
      have hs := Lemmas.Upload.exec_shape op ⟨s, .dir, d, false⟩ ctl names
      generalize exec op ⟨s, .dir, d, false⟩ ctl names = o at hs
      cases hs <;> simp
    · cases h

/-- a successful copy / move step puts every referenced file and the control file into
    the destination as they were in the handle's directory before the step -/
theorem C20_seq_step_success (op : Op) (w w' : World) (t : Nat) (ctl : Bytes) (names : List Bytes)
    (hop : op ≠ .remove) (h : execW op w t ctl names = some (w', true)) :
    ∃ s d', w.dirs[w.here]? = some s ∧ w'.dirs[t]? = some d' ∧
      ∀ n ∈ names ++ [ctl], get d' n = get s n := by
  unfold execW at h
  split at h
  · cases h
  · split at h
    · rename_i hne s d hs hd
      injection h with h
      injection h with h1 h2
      subst h1
      refine ⟨s, (exec op ⟨s, .dir, d, false⟩ ctl names).state.dest, hs, ?_, ?_⟩
      · have hlen : t < w.dirs.length := by
          rcases List.getElem?_eq_some_iff.mp hd with ⟨hl, _⟩; exact hl
        simp [hlen]
      · exact (Lemmas.Upload.exec_success hop ⟨s, .dir, d, false⟩ ctl names h2).2
    · cases h

/-- any sequence of operations on one handle: a directory that is neither where the handle
    starts nor the destination of any step is never changed -/
theorem C20_seq_frame (ctl : Bytes) (names : List Bytes) (ops : List (Op × Nat)) (w w' : World)
    (oks : List Bool) (h : runW ctl names w ops = some (w', oks)) (i : Nat) (hi : i ≠ w.here)
    (ht : ∀ p ∈ ops, p.2 ≠ i) : w'.dirs[i]? = w.dirs[i]? := by
  induction ops generalizing w oks with
  | nil => simp [runW] at h; rw [h.1]
  | cons p rest ih =>
    obtain ⟨op, t⟩ := p
    simp only [runW] at h
    split at h
    · cases h
    · rename_i w1 ok hstep
      split at h
      · cases h
      · rename_i w2 oks2 hrest
        injection h with h
        injection h with h1 _
        subst h1
        have hti : i ≠ t := fun e => ht (op, t) (List.mem_cons_self) e.symm
        have hhere : i ≠ w1.here := by
          rw [C20_seq_step_handle op w w1 t ctl names ok hstep]
          split
          · exact hti
          · exact hi
        rw [ih w1 oks2 hrest hhere (fun p hp => ht p (List.mem_cons_of_mem _ hp))]
        exact C20_seq_step_frame op w w1 t ctl names ok hstep i hi hti

/-- copy to a staging directory, then move on: the originals stay where they were, the
    staging directory is emptied again, the handle ends in the final directory; copy then
    remove leaves the originals alone as well -/
example :
    let B := Bytes.ofString
    let d0 : Dir := [(B "a.tar.gz", .file 1), (B "a.dsc", .file 2)]
    runW (B "a.dsc") [B "a.tar.gz"] ⟨[d0, [], []], 0⟩ [(.copy, 1), (.move, 2)]
      = some (⟨[d0, [], d0], 2⟩, [true, true]) ∧
    runW (B "a.dsc") [B "a.tar.gz"] ⟨[d0, [], []], 0⟩ [(.copy, 1), (.remove, 2)]
      = some (⟨[d0, [], []], 1⟩, [true, true]) := by
  decide +kernel

/-! ### the paths behind the names

The model above works on names inside two directories.  These theorems say which paths the
Go code builds from the handle's Filename, the destination and the listed names
(`AbsFiles`, `filepath.Base`, string concatenation), and that for the names
`checkListedFilename` lets through every one of them lies directly in the control file's
own directory or directly in the destination.  (The attempt to prove `plain n → no '/' in n`
for the previous `checkListedFilename` failed at n = "/": `filepath.Base("/") = "/"`; the Go
code moved the whole upload directory for that name.  Repaired in /repo, see
known_findings.json.) -/

open GoDebian.Lemmas.Paths in
/-- Copy / Move: for a handle whose Filename is the canonical absolute path `dir/f` and
    listed names that pass `checkListedFilename`, the k-th call reads `dir/nₖ` and writes
    `dest/nₖ`; the last one reads `dir/f` and writes `dest/f`. -/
theorem C20_paths_plan (dir : List Bytes) (f dest : Bytes) (names : List Bytes)
    (hd : ∀ c ∈ dir, PlainComp c) (hf : PlainComp f) (hn : names.all plain = true) :
    planPaths (canon (dir ++ [f])) dest names =
      names.map (fun n => (canon (dir ++ [n]), dest ++ [47] ++ n)) ++ [(canon (dir ++ [f]), dest ++ [47] ++ f)] := by
  unfold planPaths
  rw [base_canon_snoc dir hf]
  congr 1
  apply List.map_congr_left
  intro n hm
  have hp : PlainComp n := plain_PlainComp (List.all_eq_true.mp hn n hm)
  have hsrc : Acc.absFile (canon (dir ++ [f])) n = canon (dir ++ [n]) := by
    unfold Acc.absFile
    rw [dir_canon_snoc hd hf, join_canon hd hp]
  rw [hsrc, base_canon_snoc dir hp]

open GoDebian.Lemmas.Paths in
/-- every source path of the plan lies directly in the control file's directory, every
    destination path is the destination directory plus a plain name -/
theorem C20_paths_confined (dir : List Bytes) (f dest : Bytes) (names : List Bytes)
    (hd : ∀ c ∈ dir, PlainComp c) (hf : PlainComp f) (hn : names.all plain = true) :
    ∀ sd ∈ planPaths (canon (dir ++ [f])) dest names,
      Path.dir sd.1 = Path.dir (canon (dir ++ [f])) ∧
      ∃ n, PlainComp n ∧ sd.1 = canon (dir ++ [n]) ∧ sd.2 = dest ++ [47] ++ n := by
  rw [C20_paths_plan dir f dest names hd hf hn]
  intro sd hm
  rw [dir_canon_snoc hd hf]
  rcases List.mem_append.mp hm with hm | hm
  · obtain ⟨n, hnm, rfl⟩ := List.mem_map.mp hm
    have hp : PlainComp n := plain_PlainComp (List.all_eq_true.mp hn n hnm)
    exact ⟨dir_canon_snoc hd hp, n, hp, rfl, rfl⟩
  · simp only [List.mem_singleton] at hm
    subst hm
    exact ⟨dir_canon_snoc hd hf, f, hf, rfl, rfl⟩

open GoDebian.Lemmas.Paths in
/-- Remove deletes `dir/n` for every listed name and `dir/f` last -/
theorem C20_paths_remove (dir : List Bytes) (f : Bytes) (names : List Bytes)
    (hd : ∀ c ∈ dir, PlainComp c) (hf : PlainComp f) (hn : names.all plain = true) :
    removePaths (canon (dir ++ [f])) names = names.map (fun n => canon (dir ++ [n])) ++ [canon (dir ++ [f])] := by
  unfold removePaths
  congr 1
  apply List.map_congr_left
  intro n hm
  have hp : PlainComp n := plain_PlainComp (List.all_eq_true.mp hn n hm)
  unfold Acc.absFile
  rw [dir_canon_snoc hd hf, join_canon hd hp]

open GoDebian.Lemmas.Paths in
/-- after a successful Copy / Move the handle's Filename is `dest/f` -/
theorem C20_paths_handle (dir : List Bytes) (f dest : Bytes) (hf : PlainComp f) :
    newFilename (canon (dir ++ [f])) dest = dest ++ [47] ++ f := by
  unfold newFilename; rw [base_canon_snoc dir hf]

open GoDebian.Lemmas.Paths in
/-- `checkListedFilename` accepts exactly the plain components -/
theorem C20_plain_iff (n : Bytes) : plain n = true ↔ PlainComp n :=
  ⟨plain_PlainComp, PlainComp_plain⟩

/-- "/", "//", "a/", "/etc/passwd", "../x", "", ".", ".." are refused; "foo_1.0.tar.gz" is plain -/
example :
    let B := Bytes.ofString
    [B "/", B "//", B "a/", B "/etc/passwd", B "../x", B "", B ".", B ".."].all (fun n => !plain n) = true ∧
    plain (B "foo_1.0.tar.gz") = true := by
  decide +kernel

/-- the plan of a .dsc in /srv/incoming with two files, copied to /srv/queue -/
example :
    let B := Bytes.ofString
    planPaths (B "/srv/incoming/a_1.dsc") (B "/srv/queue") [B "a_1.tar.gz", B "a_1.diff.gz"] =
      [(B "/srv/incoming/a_1.tar.gz", B "/srv/queue/a_1.tar.gz"), (B "/srv/incoming/a_1.diff.gz", B "/srv/queue/a_1.diff.gz"),
       (B "/srv/incoming/a_1.dsc", B "/srv/queue/a_1.dsc")] := by
  decide +kernel

end GoDebian.Props.C20
