/-
  C06 — architecture matching, restriction lists, possibility selection and version
  constraints follow the Debian semantics (see DESIGN.md §5 C06).
  Property theorems only; lemmas live in GoDebian/Lemmas/ArchIs.lean.
-/
import GoDebian.Model.Dependency
import GoDebian.Spec.Arch
import GoDebian.Lemmas.ArchIs

namespace GoDebian.Props.C06
open GoDebian GoDebian.Dep GoDebian.Spec.Arch

/-- A concrete architecture matches a pattern exactly when every pattern component is
    "any" or equals the concrete one; `all` as a pattern matches no concrete
    architecture. -/
theorem C06_is_wild (c p : Arch) (hc : Concrete c) (hp : Dom p) :
    c.is p = (decide (p ≠ All) && wildMatches c p) :=
  Lemmas.Arch.is_wild c p hc hp

/-- gnu-linux-amd64 against the pattern any-linux-any. -/
example :
    let c : Arch := ⟨sGnu, sLinux, Bytes.ofString "amd64"⟩
    let p : Arch := ⟨sAny, sLinux, sAny⟩
    Concrete c ∧ Dom p ∧ c.is p = true ∧ c.is ⟨sAny, Bytes.ofString "kfreebsd", sAny⟩ = false := by
  decide +kernel

/-- `all` matches only `all`. -/
theorem C06_is_all (p : Arch) (hp : Dom p) : All.is p = decide (p = All) :=
  Lemmas.Arch.is_all p hp

example :
    Dom ⟨sAny, sAny, sAny⟩ ∧ All.is ⟨sAny, sAny, sAny⟩ = false ∧ Dom All ∧ All.is All = true := by
  decide +kernel

/-- Two concrete architectures match iff they are equal. -/
theorem C06_is_concrete (c c' : Arch) (hc : Concrete c) (hc' : Concrete c') :
    c.is c' = decide (c = c') :=
  Lemmas.Arch.is_concrete c c' hc hc'

example :
    let c : Arch := ⟨sGnu, sLinux, Bytes.ofString "amd64"⟩
    let c' : Arch := ⟨sGnu, sLinux, Bytes.ofString "arm64"⟩
    Concrete c ∧ Concrete c' ∧ c.is c' = false ∧ c.is c = true := by
  decide +kernel

/-- Swapping the operands gives the same answer. -/
theorem C06_is_symm (a b : Arch) (ha : Dom a) (hb : Dom b) : a.is b = b.is a :=
  Lemmas.Arch.is_symm a b ha hb

example :
    let a : Arch := ⟨sAny, sLinux, sAny⟩
    let b : Arch := ⟨sGnu, sLinux, Bytes.ofString "amd64"⟩
    Dom a ∧ Dom b ∧ a.is b = true ∧ b.is a = true := by
  decide +kernel

/-- Outside `Dom` (a triple mixing "all" with other components) symmetry is lost, so
    the hypothesis is needed. -/
example :
    let a : Arch := ⟨sAny, sAll, sAll⟩
    let b : Arch := ⟨sGnu, sAll, sAll⟩
    ¬ Dom a ∧ a.is b ≠ b.is a := by
  decide +kernel

/-- A bracketed list admits `a` iff (some entry matches) ≠ negated; the empty list
    admits everything. -/
theorem C06_matches (s : ArchSet) (a : Arch) : s.matches a = listAdmits Arch.is s a :=
  Lemmas.Arch.matches_eq s a

/-- `[!amd64 !i386]` on arm64 and on amd64; the empty list. -/
example :
    let amd64 : Arch := ⟨sGnu, sLinux, Bytes.ofString "amd64"⟩
    let i386 : Arch := ⟨sGnu, sLinux, Bytes.ofString "i386"⟩
    let arm64 : Arch := ⟨sGnu, sLinux, Bytes.ofString "arm64"⟩
    let s : ArchSet := ⟨true, [amd64, i386]⟩
    s.matches arm64 = true ∧ s.matches amd64 = false ∧ (⟨false, []⟩ : ArchSet).matches amd64 = true := by
  decide +kernel

/-- Per relation, in order, the first non-substvar alternative whose list admits the
    architecture; relations with no such alternative contribute nothing. -/
theorem C06_possibilities (d : Dependency) (a : Arch)
    (h : ∀ rel ∈ d, ∀ p ∈ rel, p.substvar = false → p.archs.isSome) :
    getPossibilities d a = .ok (d.filterMap (fun rel =>
      rel.find? (fun p => !p.substvar &&
        (match p.archs with | some s => listAdmits Arch.is s a | none => false)))) :=
  Lemmas.Arch.getPossibilities_eq d a h

/-- `foo [i386] | bar, ${misc:Depends}, baz [!amd64]` on amd64 selects `bar` only. -/
example :
    let amd64 : Arch := ⟨sGnu, sLinux, Bytes.ofString "amd64"⟩
    let i386 : Arch := ⟨sGnu, sLinux, Bytes.ofString "i386"⟩
    let foo : Possibility := ⟨Bytes.ofString "foo", none, some ⟨false, [i386]⟩, [], none, false⟩
    let bar : Possibility := ⟨Bytes.ofString "bar", none, some ⟨false, []⟩, [], none, false⟩
    let sv : Possibility := ⟨Bytes.ofString "misc:Depends", none, none, [], none, true⟩
    let baz : Possibility := ⟨Bytes.ofString "baz", none, some ⟨true, [amd64]⟩, [], none, false⟩
    let d : Dependency := [[foo, bar], [sv], [baz]]
    (∀ rel ∈ d, ∀ p ∈ rel, p.substvar = false → p.archs.isSome) ∧
    getPossibilities d amd64 = .ok [bar] ∧ getPossibilities d i386 = .ok [foo, baz] := by
  decide +kernel

/-- The hypothesis is needed: a hand-built non-substvar alternative without a list
    makes the Go code dereference nil. -/
example :
    getPossibilities [[⟨[120], none, none, [], none, false⟩]] All = .error .panic := by
  decide +kernel

/-- All non-substvar alternatives, in order. -/
theorem C06_all_possibilities (d : Dependency) :
    getAllPossibilities d = (d.map (·.filter (fun p => !p.substvar))).flatten :=
  Lemmas.Arch.getAllPossibilities_eq d

/-- All substvars, in order. -/
theorem C06_substvars (d : Dependency) :
    getSubstvars d = (d.map (·.filter (·.substvar))).flatten :=
  Lemmas.Arch.getSubstvars_eq d

example :
    let foo : Possibility := ⟨Bytes.ofString "foo", none, some ⟨false, []⟩, [], none, false⟩
    let bar : Possibility := ⟨Bytes.ofString "bar", none, some ⟨false, []⟩, [], none, false⟩
    let sv : Possibility := ⟨Bytes.ofString "misc:Depends", none, none, [], none, true⟩
    let d : Dependency := [[foo, sv], [sv, bar]]
    getAllPossibilities d = [foo, bar] ∧ getSubstvars d = [sv, sv] := by
  decide +kernel

/-- `(op N)` is satisfied by `V` exactly when `V` compared with `N` is <0, ≤0, =0, ≥0,
    >0 for `<<`, `<=`, `=`, `>=`, `>>`. -/
theorem C06_satisfied (op n : Bytes) (v N : Version.Version)
    (hN : Version.parse n = .ok N) :
    satisfiedBy ⟨n, op⟩ v =
      (if op = opLT then decide (Version.compare v N < 0)
       else if op = opLE then decide (Version.compare v N ≤ 0)
       else if op = opEQ then decide (Version.compare v N = 0)
       else if op = opGE then decide (Version.compare v N ≥ 0)
       else if op = opGT then decide (Version.compare v N > 0) else false) :=
  Lemmas.Arch.satisfiedBy_ok op n v N hN

/-- `(>= 1.0~rc1)` and `(<< 1.0~rc1)` against 1.0. -/
example :
    let n := Bytes.ofString "1.0~rc1"
    let N : Version.Version := ⟨0, Bytes.ofString "1.0~rc1", []⟩
    let v : Version.Version := ⟨0, Bytes.ofString "1.0", []⟩
    Version.parse n = .ok N ∧ satisfiedBy ⟨n, opGE⟩ v = true ∧ satisfiedBy ⟨n, opLT⟩ v = false := by
  decide +kernel

/-- Never satisfied when `N` is unparsable. -/
theorem C06_satisfied_unparsable (op n : Bytes) (v : Version.Version) (e : Err)
    (hN : Version.parse n = .error e) : satisfiedBy ⟨n, op⟩ v = false :=
  Lemmas.Arch.satisfiedBy_unparsable op n v e hN

example : Version.parse (Bytes.ofString "a b") = .error .err := by decide +kernel

/-- Never satisfied when the operator is unknown. -/
theorem C06_satisfied_unknown_op (op n : Bytes) (v : Version.Version)
    (h : op ≠ opLT ∧ op ≠ opLE ∧ op ≠ opEQ ∧ op ≠ opGE ∧ op ≠ opGT) :
    satisfiedBy ⟨n, op⟩ v = false :=
  Lemmas.Arch.satisfiedBy_unknown_op op n v h

/-- The deprecated single `<` is not an operator of the model. -/
example :
    let op : Bytes := [60]
    op ≠ opLT ∧ op ≠ opLE ∧ op ≠ opEQ ∧ op ≠ opGE ∧ op ≠ opGT := by
  decide +kernel

end GoDebian.Props.C06
