/-
  C06 — property theorems (see DESIGN.md §5 C06).
-/
import GoDebian.Model.Dependency

namespace GoDebian.Props.C06
end GoDebian.Props.C06
