/-
  C16 — what `CheckDebsig` verifies is debian-binary ++ the control member ++ the data
  member, the very members the loader selected; these are the only members with their
  prefix; the loaded control data come from that same control member.
  Property theorems only; lemmas live in GoDebian/Lemmas/DebPlan.lean.
-/
import GoDebian.Model.Deb
import GoDebian.Spec.Ar
import GoDebian.Lemmas.DebPlan

namespace GoDebian.Props.C16
open GoDebian GoDebian.Ar GoDebian.Deb

/-- What CheckDebsig verifies is debian-binary ++ the control member ++ the data member —
    the very members the loader selected. -/
theorem C16_covers (bs : Bytes) (p : Plan) (role : Bytes) (sig b c d : Entry)
    (hp : plan bs = .ok p) (h : debsigPlan p role = some (sig, b, c, d)) :
    c = p.control ∧ d = p.data ∧ find sDebianBinary p.members = some b ∧
      find (sGpg ++ role) p.members = some sig ∧
      signedBytes bs p = Ar.data bs b ++ Ar.data bs c ++ Ar.data bs d :=
  have _ := hp
  Lemmas.Deb.debsigPlan_some h

/-- Satisfiable: a package with an `_gpgorigin` member between control and data; the signed
    message is the three members' data in the fixed order, not the archive order, and
    without the signature member. -/
example :
    let B := Bytes.ofString
    let d1 : Spec.Ar.Member := ⟨B "debian-binary", false, some 1700000000, some 0, some 0, B "100644", B "2.0\n"⟩
    let d2 : Spec.Ar.Member := ⟨B "control.tar.gz", false, some 1700000000, some 0, some 0, B "100644", B "xyz"⟩
    let d3 : Spec.Ar.Member := ⟨B "data.tar.xz", true, some 1700000000, some 0, some 0, B "100644", B "data!"⟩
    let d4 : Spec.Ar.Member := ⟨B "_gpgorigin", true, some 1700000000, some 0, some 0, B "100644", B "SIG"⟩
    let bs := Spec.Ar.build [d3, d4, d1, d2]
    (plan bs).toOption.map (fun p => (debsigPlan p (B "origin")).map
        (fun q => (q.1.name, q.2.1.name, q.2.2.1.name, q.2.2.2.name)))
      = some (some (B "_gpgorigin", B "debian-binary", B "control.tar.gz", B "data.tar.xz")) ∧
    (plan bs).toOption.map (fun p => signedBytes bs p) = some (B "2.0\nxyzdata!") ∧
    (plan bs).toOption.map (fun p => (debsigPlan p (B "maint")).isSome) = some false := by
  decide +kernel

/-- The selected members are the only ones with their prefix: a second control.* or data.*
    member makes loading fail; no two members share a name. -/
theorem C16_unique (bs : Bytes) (p : Plan) (hp : plan bs = .ok p) :
    p.members.filter (fun m => Str.hasPrefix m.name sControlDot) = [p.control] ∧
      p.members.filter (fun m => Str.hasPrefix m.name sDataDot) = [p.data] ∧
      (p.members.map (·.name)).Nodup :=
  let ⟨_, _, _, hnd, _, _, _, hcs, hds, _⟩ := Lemmas.Deb.plan_ok hp
  ⟨hcs, hds, hnd⟩

/-- The hypothesis is satisfiable, and a second `control.*` / `data.*` member (under a
    different name, so not caught as a duplicate) or a repeated name is rejected. -/
example :
    let B := Bytes.ofString
    let d1 : Spec.Ar.Member := ⟨B "debian-binary", false, some 1700000000, some 0, some 0, B "100644", B "2.0\n"⟩
    let d2 : Spec.Ar.Member := ⟨B "control.tar.gz", false, some 1700000000, some 0, some 0, B "100644", B "xyz"⟩
    let d3 : Spec.Ar.Member := ⟨B "data.tar.xz", true, some 1700000000, some 0, some 0, B "100644", B "data!"⟩
    let d2' : Spec.Ar.Member := { d2 with name := B "control.tar.xz" }
    let d3' : Spec.Ar.Member := { d3 with name := B "data.tar" }
    (plan (Spec.Ar.build [d1, d2, d3])).toOption.isSome = true ∧
    (plan (Spec.Ar.build [d1, d2, d3, d2'])).toOption.isSome = false ∧
    (plan (Spec.Ar.build [d1, d3', d2, d3])).toOption.isSome = false ∧
    (plan (Spec.Ar.build [d1, d2, d3, d1])).toOption.isSome = false := by
  decide +kernel

/-- Without a `_gpg<role>` member nothing is verified: `CheckDebsig` reports an error. -/
theorem C16_reject_role (p : Plan) (role : Bytes) (h : find (sGpg ++ role) p.members = none) :
    debsigPlan p role = none :=
  Lemmas.Deb.debsigPlan_none h

example :
    let e : Entry := ⟨Bytes.ofString "_gpgorigin", 0, 0, 0, [], 0, 8, 68⟩
    find (sGpg ++ Bytes.ofString "maint") [e] = none ∧
    find (sGpg ++ Bytes.ofString "origin") [e] = some e := by
  decide +kernel

/-- The loaded control data come from that same control member: `load` succeeds only
    through `plan`. -/
theorem C16_load_uses_plan (bs : Bytes) (schema : Codec.Schema) (ctl : TarAnswer) (d : Bool)
    (l : Loaded) (h : load bs schema ctl d = .ok l) :
    ∃ p, plan bs = .ok p ∧ l.controlExt = p.control.name.drop 8 ∧
      l.dataExt = p.data.name.drop 5 ∧ l.members = p.members.map (·.name) :=
  Lemmas.Deb.load_ok h

/-- Satisfiable: a package loaded with a two-field schema. -/
example :
    let B := Bytes.ofString
    let d1 : Spec.Ar.Member := ⟨B "debian-binary", false, some 1700000000, some 0, some 0, B "100644", B "2.0\n"⟩
    let d2 : Spec.Ar.Member := ⟨B "control.tar.gz", false, some 1700000000, some 0, some 0, B "100644", B "xyz"⟩
    let d3 : Spec.Ar.Member := ⟨B "data.tar.xz", true, some 1700000000, some 0, some 0, B "100644", B "data!"⟩
    let schema : Codec.Schema := [.mk "Package" (B "Package") .str [] [] true false false,
      .mk "Version" (B "Version") (.custom "Version") [] [] false false false]
    let ctl : TarAnswer := .entries [(B "./", some []), (B "./md5sums", some (B "x")),
      (B "./control", some (B "Package: hello\nVersion: 1:2.0-3\n"))] false
    (load (Spec.Ar.build [d1, d2, d3]) schema ctl true).toOption.map
        (fun l => (l.controlExt, l.dataExt, l.members))
      = some (B "tar.gz", B "tar.xz", [B "debian-binary", B "control.tar.gz", B "data.tar.xz"]) := by
  decide +kernel

end GoDebian.Props.C16
