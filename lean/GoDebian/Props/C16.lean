/-
  C16 — property theorems (see DESIGN.md §5 C16).
-/
import GoDebian.Model.Deb
import GoDebian.Spec.Ar

namespace GoDebian.Props.C16
end GoDebian.Props.C16
