/-
  C11 — property theorems (see DESIGN.md §5 C11).
-/
import GoDebian.Model.Clearsign

namespace GoDebian.Props.C11
end GoDebian.Props.C11
