/-
  C11 — clearsigned input to the paragraph reader: with a keyring an armored input is
  accepted only if it decodes and the signature verifies; what is parsed is exactly the
  verified block; no signer is ever reported for unsigned input or with a nil keyring.
  `dec` / `ver` are the answers of the external OpenPGP library (see Model/Clearsign.lean).
  Property theorems only; lemmas live in GoDebian/Lemmas/Clearsign.lean.
-/
import GoDebian.Model.Clearsign
import GoDebian.Lemmas.Clearsign

namespace GoDebian.Props.C11
open GoDebian GoDebian.Clearsign

/-- With a keyring, a clearsigned input is accepted only if it decodes and the signature
    verifies; what is parsed is exactly the verified block and the signer is the verified
    one. -/
theorem C11_sound (inp : Bytes) (dec ver : Option Bytes) (r : Reader)
    (ha : startsWithArmor inp = true) (h : newReader inp true dec ver = .ok r) :
    ∃ blk id, dec = some blk ∧ ver = some id ∧ r.source = blk ∧ r.signer = some id :=
  Lemmas.Clearsign.newReader_sound ha h

/-- Satisfiable: an armored input whose block differs from the text around it (here the
    input carries an extra field before the armor's hash header and after the signature). -/
example :
    let B := Bytes.ofString
    let inp := B ("-----BEGIN PGP SIGNED MESSAGE-----\nHash: SHA256\n\nSource: hello\n" ++
      "-----BEGIN PGP SIGNATURE-----\n\nabcd\n-----END PGP SIGNATURE-----\nEvil: yes\n")
    startsWithArmor inp = true ∧
    newReader inp true (some (B "Source: hello")) (some (B "0123456789ABCDEF"))
      = .ok ⟨B "Source: hello", some (B "0123456789ABCDEF")⟩ := by
  decide +kernel

/-- If decoding fails or the signature does not verify, the reader is not created. -/
theorem C11_reject (inp : Bytes) (dec ver : Option Bytes)
    (ha : startsWithArmor inp = true) (h : dec = none ∨ ver = none) :
    newReader inp true dec ver = .error .err :=
  Lemmas.Clearsign.newReader_reject ha h

/-- Both disjuncts occur (a bare armor line that does not decode; a block that decodes
    but whose signature is not by a key in the keyring). -/
example :
    let B := Bytes.ofString
    startsWithArmor (B "-----BEGIN PGP SIGNED MESSAGE-----\n") = true ∧
    newReader (B "-----BEGIN PGP SIGNED MESSAGE-----\n") true none none = .error .err ∧
    newReader (B "-----BEGIN PGP SIGNED MESSAGE-----\n") true none (some [1]) = .error .err ∧
    newReader (B "-----BEGIN PGP SIGNED MESSAGE-----\n") true (some (B "A: b\n")) none
      = .error .err := by
  decide +kernel

/-- The paragraphs returned are exactly those of the signed text; bytes outside the block
    never reach the caller. -/
theorem C11_paragraphs (inp : Bytes) (dec ver : Option Bytes) (ps : List Deb822.Paragraph)
    (s : Option Bytes) (ha : startsWithArmor inp = true)
    (h : readAll inp true dec ver = .ok (ps, s)) :
    ∃ blk id, dec = some blk ∧ ver = some id ∧ s = some id ∧ Deb822.all blk = .ok ps :=
  Lemmas.Clearsign.readAll_paragraphs ha h

/-- Satisfiable: the input has a paragraph after the signature (`Evil: yes`) and the
    result has exactly the two paragraphs of the signed block. -/
example :
    let B := Bytes.ofString
    let inp := B ("-----BEGIN PGP SIGNED MESSAGE-----\nHash: SHA256\n\nSource: hello\n\nPackage: x\n" ++
      "-----BEGIN PGP SIGNATURE-----\n\nabcd\n-----END PGP SIGNATURE-----\n\nEvil: yes\n")
    startsWithArmor inp = true ∧
    readAll inp true (some (B "Source: hello\n\nPackage: x")) (some (B "KEYID"))
      = .ok ([⟨[B "Source"], [(B "Source", B "hello")]⟩, ⟨[B "Package"], [(B "Package", B "x")]⟩],
             some (B "KEYID")) := by
  decide +kernel

/-- A signer is never reported for unsigned input (whatever the keyring and whatever the
    external library would have answered) … -/
theorem C11_unsigned_no_signer (inp : Bytes) (k : Bool) (dec ver : Option Bytes)
    (ha : startsWithArmor inp = false) : newReader inp k dec ver = .ok ⟨inp, none⟩ :=
  Lemmas.Clearsign.newReader_unsigned inp k dec ver ha

/-- Satisfiable; in particular an armor header that is not at the very start of the input
    (here after a newline) is unsigned input. -/
example :
    startsWithArmor (Bytes.ofString "Source: hello\n") = false ∧
    startsWithArmor (Bytes.ofString "\n-----BEGIN PGP SIGNED MESSAGE-----\n") = false ∧
    startsWithArmor (Bytes.ofString "-----BEGIN PGP") = false ∧
    startsWithArmor [] = false := by
  decide +kernel

/-- … nor with a nil keyring. -/
theorem C11_nil_keyring_no_signer (inp : Bytes) (dec ver : Option Bytes) (r : Reader)
    (h : newReader inp false dec ver = .ok r) : r.signer = none :=
  Lemmas.Clearsign.newReader_nil_keyring h

/-- Satisfiable on armored input, even when the library would have verified a signer. -/
example :
    newReader (Bytes.ofString "-----BEGIN PGP SIGNED MESSAGE-----\n") false
      (some (Bytes.ofString "A: b\n")) (some [1]) = .ok ⟨Bytes.ofString "A: b\n", none⟩ := by
  decide +kernel

/-- The result depends on the input only through the block (for armored input): two
    inputs with the same decode/verify answers read the same. -/
theorem C11_outside_text_irrelevant (i1 i2 : Bytes) (dec ver : Option Bytes)
    (h1 : startsWithArmor i1 = true) (h2 : startsWithArmor i2 = true) :
    readAll i1 true dec ver = readAll i2 true dec ver :=
  Lemmas.Clearsign.readAll_outside_irrelevant i1 i2 dec ver h1 h2

example :
    let B := Bytes.ofString
    B "-----BEGIN PGP SIGNED MESSAGE-----\nA: b\n" ≠ B "-----BEGIN PGP SIGNED MESSAGE-----\nA: b\n\nEvil: yes\n" ∧
    startsWithArmor (B "-----BEGIN PGP SIGNED MESSAGE-----\nA: b\n") = true ∧
    startsWithArmor (B "-----BEGIN PGP SIGNED MESSAGE-----\nA: b\n\nEvil: yes\n") = true := by
  decide +kernel

end GoDebian.Props.C11
