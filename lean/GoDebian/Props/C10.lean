/-
  C10 — property theorems (see DESIGN.md §5 C10).
-/
import GoDebian.Model.Codec

namespace GoDebian.Props.C10
end GoDebian.Props.C10
