/-
  C10 — typed Debian documents decode to exactly the fields written in them: the struct
  schemas regenerated from the Go source convert to the schema interpreter's schemas; a
  field value of any shape, in any of the real Debian layouts, decodes to its view; a whole
  paragraph decodes to the record holding the view of every field of the document's table
  at the struct field the table names.
  Property theorems only; lemmas live in GoDebian/Lemmas/Docs*.lean, the value model in
  GoDebian/Spec/DocsValue.lean, the field tables in GoDebian/Spec/Docs.lean, the kernel-checked
  `schemaOK` facts in GoDebian/Tie/Docs.lean.
-/
import GoDebian.Model.Codec
import GoDebian.Spec.Docs
import GoDebian.Spec.DocsValue
import GoDebian.Tie.Docs
import GoDebian.Lemmas.Res
import GoDebian.Lemmas.DocsValue
import GoDebian.Lemmas.DocsStruct
import GoDebian.Lemmas.CodecRecord
import GoDebian.Lemmas.DocsRead
import GoDebian.Model.Accessors
import GoDebian.Lemmas.Paths
import GoDebian.Lemmas.CodecPara
import GoDebian.Lemmas.DepGrammarTop

namespace GoDebian.Props.C10
open GoDebian GoDebian.Deb822 GoDebian.Codec GoDebian.Extracted.Schemas
open GoDebian.Spec.Docs GoDebian.Spec.DocsValue
open GoDebian.Lemmas.Res

/-! ### Stage 1 — the regenerated schemas convert -/

/-- Every struct schema regenerated from the Go source converts to an interpreter schema
    (`converts`: `(toSchema fs).isSome`, no verdict when the fact is unavailable). -/
theorem C10_converts_DSC : converts schema_control_DSC = true := by decide +kernel
theorem C10_converts_Changes : converts schema_control_Changes = true := by decide +kernel
theorem C10_converts_SourceParagraph : converts schema_control_SourceParagraph = true := by decide +kernel
theorem C10_converts_BinaryParagraph : converts schema_control_BinaryParagraph = true := by decide +kernel
theorem C10_converts_BinaryIndex : converts schema_control_BinaryIndex = true := by decide +kernel
theorem C10_converts_SourceIndex : converts schema_control_SourceIndex = true := by decide +kernel
theorem C10_converts_BestChecksums : converts schema_control_BestChecksums = true := by decide +kernel
theorem C10_converts_DebControl : converts schema_deb_Control = true := by decide +kernel

/-- what a conversion looks like, and a kind string that does not convert -/
example :
    toKind "slice:cust:SHA256FileHash" = some (.slice (.custom "SHA256FileHash")) ∧
    toKind "map[string]string" = none ∧
    (toSchema [⟨"Binaries", "Binary", "slice:str", ",", "\n\r\t ", false, false⟩]).isSome = true ∧
    (toSchema [⟨"M", "M", "map[string]string", "", "", false, false⟩]).isSome = false :=
  ⟨rfl, rfl, by decide +kernel, by decide +kernel⟩

/-- The side conditions of the document theorem hold of every regenerated schema
    (`docFits`): it converts, is shorter than the decoder's fuel, has no "-" key, its required
    fields are in the table, and the strip set of every field of the table consists of
    blank, tab, CR, LF only and has newline and blank where the shape needs them. -/
theorem C10_fits_DSC : docFits dsc schema_control_DSC = true := by decide +kernel
theorem C10_fits_Changes : docFits changes schema_control_Changes = true := by decide +kernel
theorem C10_fits_SourceParagraph : docFits sourceParagraph schema_control_SourceParagraph = true := by decide +kernel
theorem C10_fits_BinaryParagraph : docFits binaryParagraph schema_control_BinaryParagraph = true := by decide +kernel
theorem C10_fits_BinaryIndex : docFits binaryIndex schema_control_BinaryIndex = true := by decide +kernel
theorem C10_fits_SourceIndex : docFits sourceIndex schema_control_SourceIndex = true := by decide +kernel
theorem C10_fits_BestChecksums : docFits bestChecksums schema_control_BestChecksums = true := by decide +kernel
theorem C10_fits_DebControl : docFits debControl schema_deb_Control = true := by decide +kernel

/-! ### Stage 2 — one field value -/

/-- The statement as first written, without a hypothesis on the strip set.  `fieldOK` only
    asks the strip set of a folded list to *contain* blank, tab, CR and LF (`foldStrip`), and
    asks nothing of it for blank separated lists; a strip set with one more character eats
    that character off the ends of the elements. -/
def C10_decode_value_full : Prop :=
  ∀ (r : Req) (f' : Field) (f : FieldDesc) (v : DocValue) (layout : Layout),
    fieldOK r f' = true → toDesc f' = some f → shapeOf v = r.shape → wfValue v →
    decodeValue 16 f.kind f.delim f.strip .zero (valueText v layout) = .ok (view v)

/-- the witness: `Binary` of a .dsc with the strip set "\n\r\t a" and the one binary "ab",
    which decodes to "b" -/
def greedyField : Field := ⟨"Binaries", "Binary", "slice:str", ",", "\n\r\t a", false, false⟩

theorem C10_decode_value_full_false : ¬ C10_decode_value_full := by
  intro H
  have h := H ⟨"Binary", "Binaries", .commaList⟩ greedyField
    (.mk "Binaries" (Bytes.ofString "Binary") (.slice .str) (Bytes.ofString ",")
      (Bytes.ofString "\n\r\t a") false false false)
    (.commaList [[97, 98]]) [] (by decide +kernel) rfl rfl (by decide +kernel)
  have h1 := congrArg Lemmas.Docs.strsOf h
  have h2 : Lemmas.Docs.strsOf (decodeValue 16 (.slice .str) (Bytes.ofString ",")
      (Bytes.ofString "\n\r\t a") .zero (valueText (.commaList [[97, 98]]) [])) = some [[98]] := by
    decide +kernel
  have h3 : Lemmas.Docs.strsOf (.ok (view (.commaList [[97, 98]]))) = some [[97, 98]] := by
    decide +kernel
  simp only [FieldDesc.kind, FieldDesc.delim, FieldDesc.strip] at h1
  rw [h2, h3] at h1
  exact absurd h1 (by decide)

/-- MAIN (one field): a struct field that passes the table's check for a Debian field
    (`fieldOK`), converted to a descriptor, whose strip set is white space only and has the
    newline and the blank where the shape puts them (`stripFits` — true of every regenerated
    schema, `C10_fits_*`), decodes the value text of every well-formed value of the field's
    shape, in every layout, to exactly the value's view: scalars verbatim; numbers; versions,
    architectures and relationship fields as their parsed forms; comma and blank separated
    lists as their elements in order, whether on one line or folded anywhere; checksum and
    file lists as tuples tagged with the algorithm of the field. -/
theorem C10_decode_value (r : Req) (f' : Field) (f : FieldDesc) (v : DocValue) (layout : Layout)
    (hok : fieldOK r f' = true) (hd : toDesc f' = some f)
    (hstrip : stripFits r.shape f.strip = true) (hshape : shapeOf v = r.shape)
    (hwf : wfValue v) :
    decodeValue 16 f.kind f.delim f.strip .zero (valueText v layout) = .ok (view v) :=
  Lemmas.Docs.decode_value r f' f v layout hok hd hstrip hshape hwf

/-- the same with the layout given by one number (its binary digits) -/
theorem C10_decode_value_nat (r : Req) (f' : Field) (f : FieldDesc) (v : DocValue) (layout : Nat)
    (hok : fieldOK r f' = true) (hd : toDesc f' = some f)
    (hstrip : stripFits r.shape f.strip = true) (hshape : shapeOf v = r.shape)
    (hwf : wfValue v) :
    decodeValue 16 f.kind f.delim f.strip .zero (valueText v (layoutOfNat layout)) = .ok (view v) :=
  C10_decode_value r f' f v (layoutOfNat layout) hok hd hstrip hshape hwf

/-- `Binary` of a .dsc: three binaries, on one line, folded after every comma with the
    field's own line empty, folded after the first only. -/
example :
    let B := Bytes.ofString
    let r : Req := ⟨"Binary", "Binaries", .commaList⟩
    let f' : Field := ⟨"Binaries", "Binary", "slice:str", ",", "\n\r\t ", false, false⟩
    let v : DocValue := .commaList [B "libfoo1", B "libfoo-dev", B "foo doc"]
    fieldOK r f' = true ∧ (toDesc f').isSome = true ∧
    stripFits r.shape (B f'.strip) = true ∧ shapeOf v = r.shape ∧ wfValue v ∧
    valueText v [] = B "libfoo1, libfoo-dev, foo doc" ∧
    valueText v [1, 1, 1] = B "libfoo1,\nlibfoo-dev,\nfoo doc\n" ∧
    valueText v [0, 1, 0] = B "libfoo1,\nlibfoo-dev, foo doc\n" ∧
    valueText v (layoutOfNat 5) = B "libfoo1, libfoo-dev,\nfoo doc\n" := by
  decide +kernel

/-- `Binary` of a .changes (blank separated, the blank as explicit delimiter) and
    `Architecture` (no delimiter, elements parsed): one line, or folded. -/
example :
    let B := Bytes.ofString
    let r : Req := ⟨"Binary", "Binaries", .spaceList⟩
    let f' : Field := ⟨"Binaries", "Binary", "slice:str", " ", "", false, false⟩
    let v : DocValue := .spaceList [B "a", B "b", B "c"]
    let r2 : Req := ⟨"Architecture", "Architectures", .archList⟩
    let f2 : Field := ⟨"Architectures", "Architecture", "slice:cust:Arch", "", "", false, false⟩
    let v2 : DocValue := .archList [(B "amd64", ⟨Dep.sGnu, Dep.sLinux, B "amd64"⟩),
      (B "linux-any", ⟨Dep.sAny, Dep.sLinux, Dep.sAny⟩)]
    fieldOK r f' = true ∧ (toDesc f').isSome = true ∧ stripFits r.shape (B f'.strip) = true ∧
    shapeOf v = r.shape ∧ wfValue v ∧
    valueText v [] = B "a b c" ∧ valueText v [0, 0, 1] = B "a b\nc\n" ∧
    fieldOK r2 f2 = true ∧ (toDesc f2).isSome = true ∧ stripFits r2.shape (B f2.strip) = true ∧
    shapeOf v2 = r2.shape ∧ wfValue v2 ∧
    valueText v2 [0, 1] = B "amd64\nlinux-any\n" := by
  decide +kernel

/-- `Checksums-Sha256` (one entry per continuation line, the field's own line empty — or
    the first entry on it, as the encoder writes) and the `Files` field of a .changes. -/
example :
    let B := Bytes.ofString
    let r : Req := ⟨"Checksums-Sha256", "ChecksumsSha256", .hashList "sha256"⟩
    let f' : Field := ⟨"ChecksumsSha256", "Checksums-Sha256", "slice:cust:SHA256FileHash", "\n",
      "\n\r\t ", false, false⟩
    let v : DocValue := .hashList "sha256" [⟨B "ab12", 1204, B "x_1.dsc"⟩, ⟨B "cd34", 3, B "x_1.tar.gz"⟩]
    let r2 : Req := ⟨"Files", "Files", .changesFiles⟩
    let f2 : Field := ⟨"Files", "Files", "slice:cust:FileListChangesFileHash", "\n", "\n\r\t ",
      false, false⟩
    let v2 : DocValue := .changesFiles [⟨B "d41d", 12, B "utils", B "optional", B "x_1_amd64.deb"⟩]
    fieldOK r f' = true ∧ (toDesc f').isSome = true ∧ stripFits r.shape (B f'.strip) = true ∧
    shapeOf v = r.shape ∧ wfValue v ∧
    valueText v [1] = B "ab12 1204 x_1.dsc\ncd34 3 x_1.tar.gz\n" ∧
    valueText v [0] = B "ab12 1204 x_1.dsc\ncd34 3 x_1.tar.gz\n" ∧
    fieldOK r2 f2 = true ∧ (toDesc f2).isSome = true ∧ stripFits r2.shape (B f2.strip) = true ∧
    shapeOf v2 = r2.shape ∧ wfValue v2 ∧
    valueText v2 [1] = B "d41d 12 utils optional x_1_amd64.deb\n" ∧
    valueText v2 [] = B "d41d 12 utils optional x_1_amd64.deb" := by
  decide +kernel

/-- a version, a number, a flag and a relationship field folded after the comma -/
example :
    let B := Bytes.ofString
    let d : Spec.Dependency.SDep :=
      [[⟨false, B "debhelper", none, some (Dep.opGE, B "9"), false, [], []⟩],
       [⟨false, B "libc6-dev", none, none, false, [B "amd64"], []⟩]]
    fieldOK ⟨"Version", "Version", .version⟩ ⟨"Version", "Version", "cust:Version", "", "", false, false⟩ = true ∧
    wfValue (.version (B "1:2.30-10") ⟨1, B "2.30", B "10"⟩) ∧
    wfValue (.int (-5)) ∧ valueText (.int (-5)) [] = B "-5" ∧
    valueText (.bool true) [] = B "yes" ∧
    fieldOK ⟨"Build-Depends", "BuildDepends", .dep⟩
      ⟨"BuildDepends", "Build-Depends", "cust:Dependency", "", "", false, false⟩ = true ∧
    wfValue (.dep d) ∧
    valueText (.dep d) [0, 0, 1, 0, 1, 0, 0, 6, 0, 1, 0, 0, 6] =
      B "debhelper (>= 9),\nlibc6-dev [amd64]\n" := by
  decide +kernel

/-! ### Stage 3 — the whole paragraph -/

/-- MAIN (document): let `spec` be the field table of a document kind, `fs` a struct schema
    that satisfies it (`schemaOK`, `Tie.Docs.schema_*`) and the side conditions `docFits`
    (`C10_fits_*`), `s` its conversion; let `m` give, for the Debian fields that are present, a
    well-formed value of the table's shape and a layout (`wfModel`), every required struct
    field being present; let the paragraph `p` carry the model (`Carries`: for every key a
    struct field claims, `p` has the model's value text when the table lists the key and the
    model has the field, and no value otherwise — in particular no key "Paragraph", the key
    of the embedded `Paragraph`, and no key of a struct field outside the table, such as
    "Filename"; any other key is allowed).  Then decoding succeeds, and the record holds, field
    by field (`fieldVal`): the paragraph itself in the embedded `Paragraph`, the view of the
    model's value in every struct field of the table that is present, the zero value in every
    other one. -/
theorem C10_decode_document (spec : List Req) (fs : List Field) (s : Schema) (m : DocModel)
    (p : Paragraph) (hok : schemaOK spec (some fs) = true) (hfits : docFits spec (some fs) = true)
    (hs : toSchema fs = some s) (hm : wfModel spec m)
    (hreq : ∀ f ∈ fs, f.required = true → (m f.key).isSome = true) (hp : Carries spec fs m p) :
    decodeStruct p s [] = .ok (fs.map (fieldVal spec m p)) :=
  Lemmas.Docs.decode_document hok hfits hs hm hreq hp

/-- … read by the rows of the table: for every Debian field of the table there is a struct
    field with the Go name the table demands, and the record holds there the view of the
    field's value — or the zero value when the document does not have the field. -/
theorem C10_document_fields (spec : List Req) (fs : List Field) (s : Schema) (m : DocModel)
    (p : Paragraph) (hok : schemaOK spec (some fs) = true) (hfits : docFits spec (some fs) = true)
    (hs : toSchema fs = some s) (hm : wfModel spec m)
    (hreq : ∀ f ∈ fs, f.required = true → (m f.key).isSome = true) (hp : Carries spec fs m p) :
    ∃ rec, decodeStruct p s [] = .ok rec ∧ rec.length = fs.length ∧
      ∀ r ∈ spec, ∃ (i : Nat) (g : Field), fs[i]? = some g ∧ g.name = r.go ∧ g.key = r.deb ∧
        rec[i]? = some (match m r.deb with | some (v, _) => view v | none => .zero) :=
  ⟨_, C10_decode_document spec fs s m p hok hfits hs hm hreq hp, by simp,
    fun _ hr => Lemmas.Docs.view_at hok hr⟩

/-- A required struct field (deb.Control: Package, Version, Architecture) that the paragraph
    does not have makes decoding fail (C09's `C09_required_missing` on the converted schema). -/
theorem C10_required_missing (fs : List Field) (s : Schema) (p : Paragraph)
    (hs : toSchema fs = some s) (g : Field) (hg : g ∈ fs) (hr : g.required = true)
    (ha : g.anonymous = false) (hk : Bytes.ofString g.key ≠ [45])
    (hmiss : lookup (Bytes.ofString g.key) p.values = none) :
    ∃ e, decodeStruct p s [] = .error e := by
  obtain ⟨f, hf, hd⟩ := Lemmas.Docs.toSchema_mem hs hg
  obtain ⟨k, _, hfe⟩ := Lemmas.Docs.toDesc_some hd
  exact Lemmas.Codec.decodeFields_required_missing p f (by rw [hfe]; exact hr)
    (by rw [hfe]; exact hk) (by rw [hfe]; exact ha) (by rw [hfe]; exact hmiss) s _ [] hf

/-- A .dsc: `Source`, a folded `Binary`, `Architecture`, `Version`, a `Build-Depends` folded
    after the comma, `Files` one per continuation line; `Format` and the other fields absent;
    a field the struct does not know (`X-Extra`) in the paragraph. -/
def dscModel : DocModel := fun k =>
  let B := Bytes.ofString
  match k with
  | "Source" => some (.scalar (B "hello") [], [])
  | "Binary" => some (.commaList [B "hello", B "hello-dev"], [1, 1])
  | "Architecture" => some (.archList [(B "any", ⟨Dep.sAny, Dep.sAny, Dep.sAny⟩)], [])
  | "Version" => some (.version (B "1:2.10-1") ⟨1, B "2.10", B "1"⟩, [])
  | "Build-Depends" => some (.dep [[⟨false, B "debhelper", none, some (Dep.opGE, B "9"), false, [], []⟩],
      [⟨false, B "gettext", none, none, false, [], []⟩]], [0, 0, 1, 0, 1, 0, 0, 6, 0, 6])
  | "Files" => some (.hashList "md5" [⟨B "d41d8cd9", 1204, B "hello_2.10-1.dsc"⟩,
      ⟨B "900150983c", 725946, B "hello_2.10.orig.tar.gz"⟩], [1])
  | _ => none

def dscParagraph : Paragraph :=
  let B := Bytes.ofString
  ⟨[B "Source", B "Binary", B "Architecture", B "Version", B "Build-Depends", B "X-Extra", B "Files"],
   [(B "Source", B "hello"), (B "Binary", B "hello,\nhello-dev\n"), (B "Architecture", B "any"),
    (B "Version", B "1:2.10-1"), (B "Build-Depends", B "debhelper (>= 9),\ngettext\n"),
    (B "X-Extra", B "kept in the embedded Paragraph"),
    (B "Files", B "d41d8cd9 1204 hello_2.10-1.dsc\n900150983c 725946 hello_2.10.orig.tar.gz\n")]⟩

/-- the model is well-formed, the paragraph carries it, nothing required is missing -/
theorem dsc_sample_ok : Lemmas.Docs.wfModelB dsc dscModel = true ∧
    (schema_control_DSC = none ∨
      (Carries dsc (schema_control_DSC.getD []) dscModel dscParagraph ∧
       ∀ f ∈ schema_control_DSC.getD [], f.required = true → (dscModel f.key).isSome = true)) := by
  decide +kernel

/-- … so the .dsc above decodes, with the Go struct definition as regenerated: -/
example (fs : List Field) (s : Schema) (h : schema_control_DSC = some fs)
    (hs : toSchema fs = some s) :
    decodeStruct dscParagraph s [] = .ok (fs.map (fieldVal dsc dscModel dscParagraph)) := by
  obtain ⟨hm, hc⟩ := dsc_sample_ok
  rw [h] at hc
  rcases hc with hc | ⟨hp, hreq⟩
  · cases hc
  · exact C10_decode_document dsc fs s dscModel dscParagraph (h ▸ Tie.Docs.schema_DSC)
      (h ▸ C10_fits_DSC) hs (Lemmas.Docs.wfModel_of_B hm) hreq hp

/-- a .deb control file without `Version`: decoding fails -/
example :
    let B := Bytes.ofString
    let p : Paragraph := ⟨[B "Package", B "Architecture"], [(B "Package", B "hello"), (B "Architecture", B "amd64")]⟩
    ∀ fs s, schema_deb_Control = some fs → toSchema fs = some s →
      ⟨"Version", "Version", "cust:Version", "", "", true, false⟩ ∈ fs →
      ∃ e, decodeStruct p s [] = .error e :=
  fun fs s _ hs hmem => C10_required_missing fs s _ hs _ hmem rfl rfl (by decide +kernel) (by decide +kernel)

/-! ### Stage 4 — from the text: composition with the reader (C07) -/

/-- `Unmarshal` of the text: a well-formed one-paragraph deb822 document (`Spec.Deb822.wfPara`),
    rendered in any physical layout C07 covers (LF / CRLF, comments, padding after the colon,
    ASCII or Unicode white space at line ends, blank or tab continuation markers, empty lines around, with or without
    the final newline), whose paragraph (`expectedPara`: every field's value as the reader
    returns it) carries the model, unmarshals to the record of the model's views. -/
theorem C10_unmarshal_rendered (spec : List Req) (fs : List Field) (s : Schema) (m : DocModel)
    (para : Spec.Deb822.Para) (cs : Spec.Deb822.Choices)
    (hok : schemaOK spec (some fs) = true) (hfits : docFits spec (some fs) = true)
    (hs : toSchema fs = some s) (hm : wfModel spec m)
    (hreq : ∀ f ∈ fs, f.required = true → (m f.key).isSome = true)
    (hwf : Spec.Deb822.wfPara para = true)
    (hp : Carries spec fs m (Spec.Deb822.expectedPara para)) :
    unmarshal s (Spec.Deb822.render [para] cs) =
      .ok (fs.map (fieldVal spec m (Spec.Deb822.expectedPara para))) := by
  rw [Lemmas.Docs.unmarshal_render s para cs hwf]
  exact C10_decode_document spec fs s m _ hok hfits hs hm hreq hp

/-- The .dsc of Stage 3 as a deb822 document: its fields are the model's values in the
    model's layouts (`fieldOf`; the relationship field, folded after the comma, is given by
    its two lines), plus the field the struct does not know. -/
def dscFields : Spec.Deb822.Para :=
  let B := Bytes.ofString
  let of (k : String) : List Spec.Deb822.Field :=
    match dscModel k with
    | some (v, l) => [fieldOf (B k) v l]
    | none => []
  of "Source" ++ of "Binary" ++ of "Architecture" ++ of "Version" ++
    [⟨B "Build-Depends", B "debhelper (>= 9),", [B "gettext"]⟩,
     ⟨B "X-Extra", B "kept in the embedded Paragraph", []⟩] ++ of "Files"

/-- it is well-formed, denotes the paragraph of Stage 3, and this is its plainest layout -/
theorem dsc_fields_ok :
    Spec.Deb822.wfPara dscFields = true ∧ Spec.Deb822.expectedPara dscFields = dscParagraph ∧
    Spec.Deb822.render [dscFields] [] = Bytes.ofString
      ("Source: hello\nBinary:\n hello,\n hello-dev\nArchitecture: any\nVersion: 1:2.10-1\n" ++
       "Build-Depends: debhelper (>= 9),\n gettext\nX-Extra: kept in the embedded Paragraph\n" ++
       "Files:\n d41d8cd9 1204 hello_2.10-1.dsc\n 900150983c 725946 hello_2.10.orig.tar.gz\n") := by
  decide +kernel

/-- … so that text, and every other layout of it, unmarshals into the DSC struct as
    regenerated from the Go source -/
example (fs : List Field) (s : Schema) (h : schema_control_DSC = some fs)
    (hs : toSchema fs = some s) (cs : Spec.Deb822.Choices) :
    unmarshal s (Spec.Deb822.render [dscFields] cs) =
      .ok (fs.map (fieldVal dsc dscModel dscParagraph)) := by
  obtain ⟨hm, hc⟩ := dsc_sample_ok
  obtain ⟨hwf, hpara, _⟩ := dsc_fields_ok
  rw [h] at hc
  rcases hc with hc | ⟨hp, hreq⟩
  · cases hc
  · rw [← hpara] at hp ⊢
    exact C10_unmarshal_rendered dsc fs s dscModel dscFields cs (h ▸ Tie.Docs.schema_DSC)
      (h ▸ C10_fits_DSC) hs (Lemmas.Docs.wfModel_of_B hm) hreq hwf hp

/-! ### Accessors derived from the decoded fields

`Model/Accessors.lean` is the transliteration of the accessor methods; the `acc-*`
operations of the correspondence stream call the real methods on structs holding the same
field values.  These theorems state what each accessor returns. -/

section accessors
open GoDebian.Acc GoDebian.Lemmas.Paths

/-- `Maintainers()`: the maintainer first, then the uploaders in order -/
theorem C10_acc_maintainers (m : Bytes) (us : List Bytes) :
    (maintainers m us).head? = some m ∧ (maintainers m us).tail = us ∧
    (maintainers m us).length = us.length + 1 := by
  simp [maintainers]

/-- `HasArchAll()` holds exactly when the architecture list contains `all` -/
theorem C10_acc_hasArchAll (archs : List Dep.Arch) :
    hasArchAll archs = true ↔ (⟨Dep.sAll, Dep.sAll, Dep.sAll⟩ : Dep.Arch) ∈ archs := by
  unfold hasArchAll
  rw [List.any_eq_true]
  constructor
  · rintro ⟨a, ha, h⟩
    simp only [Bool.and_eq_true, decide_eq_true_eq] at h
    obtain ⟨⟨h1, h2⟩, h3⟩ := h
    have : a = ⟨Dep.sAll, Dep.sAll, Dep.sAll⟩ := by cases a; simp_all
    exact this ▸ ha
  · intro h
    exact ⟨_, h, by simp⟩

/-- a parsed `Architecture` field that lists the name "all" has an arch:all entry -/
theorem C10_acc_hasArchAll_of_name (names : List Bytes) (archs : List Dep.Arch)
    (hp : names.mapM Dep.parseArch = .ok archs) (h : Dep.sAll ∈ names) : hasArchAll archs = true := by
  rw [C10_acc_hasArchAll]
  induction names generalizing archs with
  | nil => simp at h
  | cons n rest ih =>
    simp only [List.mapM_cons, bind, Except.bind] at hp
    cases hn : Dep.parseArch n with
    | error e => simp [hn] at hp
    | ok a =>
      simp only [hn] at hp
      cases hr : rest.mapM Dep.parseArch with
      | error e => simp [hr] at hp
      | ok as =>
        simp only [hr, pure, Except.pure, Except.ok.injEq] at hp
        subst hp
        rcases List.mem_cons.mp h with e | hm
        · subst e
          have : Dep.parseArch Dep.sAll = .ok ⟨Dep.sAll, Dep.sAll, Dep.sAll⟩ := by decide +kernel
          rw [this] at hn
          injection hn with hn
          simp [hn]
        · exact List.mem_cons_of_mem _ (ih as hr hm)

/-- `SourcePackage()`: without a Source field the package is its own source -/
theorem C10_acc_sourcePackage_default (p : Bytes) : sourcePackage p [] = p := by
  simp [sourcePackage]

/-- a Source field that is just a name -/
theorem C10_acc_sourcePackage_name (p s : Bytes) (hs : s ≠ []) (h : 32 ∉ s) : sourcePackage p s = s := by
  have he : s.isEmpty = false := by cases s with | nil => exact absurd rfl hs | cons a t => rfl
  have hc : Str.contains s [32] = false := by
    unfold Str.contains
    rw [show Str.indexOf [32] s = Str.indexByte 32 s from rfl, Lemmas.Str.indexByte_of_not_mem h]
    rfl
  simp [sourcePackage, he, hc]

/-- a Source field of the form "name (version)": the name -/
theorem C10_acc_sourcePackage_versioned (p name rest : Bytes) (h : 32 ∉ name) :
    sourcePackage p (name ++ 32 :: rest) = name := by
  have he : (name ++ 32 :: rest).isEmpty = false := by simp
  have hc : Str.contains (name ++ 32 :: rest) [32] = true := by
    unfold Str.contains
    rw [show Str.indexOf [32] (name ++ 32 :: rest) = Str.indexByte 32 (name ++ 32 :: rest) from rfl,
      Lemmas.Str.indexByte_append rest h]
    rfl
  have hs : (Str.split [32] (name ++ 32 :: rest)).headD [] = name := by
    unfold Str.split
    have : (name ++ 32 :: rest).length + 2 = ((name ++ 32 :: rest).length + 1) + 1 := rfl
    rw [this]
    simp only [Str.splitNAux]
    rw [if_neg (by simp), Lemmas.Deb822WriteStr.cut_append rest h]
    rfl
  simp only [List.headD_eq_head?_getD] at hs
  simp [sourcePackage, he, hc, hs]

/-- `deb.Control.SourceName()`: the Source field when there is one, else the package name -/
theorem C10_acc_sourceName (p s : Bytes) :
    sourceName p s = if s = [] then p else s := by
  unfold sourceName; cases s <;> simp

/-- `BestChecksums.Checksums()`: the SHA-256 list when it has entries, else the SHA-512 list -/
theorem C10_acc_bestChecksums (a b : List Hash) :
    Acc.bestChecksums a b = if a ≠ [] then a else b := by
  unfold Acc.bestChecksums
  cases a with
  | nil => cases b <;> simp
  | cons x xs => simp

/-- and never an entry of a weaker algorithm -/
theorem C10_acc_bestChecksums_secure (a b : List Hash)
    (ha : ∀ h ∈ a, h.algorithm = Bytes.ofString "sha256") (hb : ∀ h ∈ b, h.algorithm = Bytes.ofString "sha512") :
    ∀ h ∈ Acc.bestChecksums a b, h.algorithm = Bytes.ofString "sha256" ∨ h.algorithm = Bytes.ofString "sha512" := by
  rw [C10_acc_bestChecksums]
  intro h hm
  split at hm
  · exact Or.inl (ha h hm)
  · exact Or.inr (hb h hm)

/-- `ByHashPath`: for an index at `dir/name` the by-hash location is
    `dir/by-hash/<ByHash>/<hash>` -/
theorem C10_acc_byHashPath (dir : List Bytes) (name byHash hash : Bytes)
    (hd : ∀ c ∈ dir, PlainComp c) (hn : PlainComp name) :
    byHashPath (canon (dir ++ [name])) byHash hash
      = canon dir ++ Bytes.ofString "/by-hash/" ++ byHash ++ [47] ++ hash := by
  unfold byHashPath
  rw [dir_canon_snoc hd hn]

/-- the on-demand relationship accessors: a field holding any legal rendering of a
    relationship AST gives the structure the AST denotes (via C04_parse_render) -/
theorem C10_acc_optionalDependency (p : Paragraph) (field : Bytes) (d : Spec.Dependency.SDep)
    (cs : Spec.Deb822.Choices) (h : Spec.Dependency.wfDep d = true) :
    optionalDependency (p.set field (Spec.Dependency.render d cs)) field = Spec.Dependency.denote d := by
  unfold optionalDependency
  rw [Lemmas.Codec.get_set, if_pos rfl, Lemmas.DepGrammarTop.parse_render d cs h]

/-- an absent field gives the empty dependency -/
theorem C10_acc_optionalDependency_absent (p : Paragraph) (field : Bytes)
    (h : lookup field p.values = none) : optionalDependency p field = [] := by
  unfold optionalDependency Paragraph.get
  rw [h]
  have : Dep.parse ([] : Bytes) = .ok [] := by decide +kernel
  simp [this]

/-- `AbsFiles()`: for a handle at the canonical absolute path `dir/f`, every listed plain
    name `n` becomes `dir/n`; lengths and order are kept -/
theorem C10_acc_absFiles (dir : List Bytes) (f : Bytes) (names : List Bytes)
    (hd : ∀ c ∈ dir, PlainComp c) (hf : PlainComp f) (hn : ∀ n ∈ names, PlainComp n) :
    absFiles (canon (dir ++ [f])) names = names.map (fun n => canon (dir ++ [n])) := by
  unfold absFiles
  apply List.map_congr_left
  intro n hm
  unfold absFile
  rw [dir_canon_snoc hd hf, join_canon hd (hn n hm)]

/-- whatever spelling of the path a file entry point is given (relative, with "." / ".."
    / doubled slashes, absolute), the handle's Filename is a canonical absolute path -/
theorem C10_acc_parseFileName_abs (cwd : List Bytes) (hc : ∀ c ∈ cwd, PlainComp c) (path : Bytes) :
    ∃ cs, (∀ c ∈ cs, PlainComp c) ∧ parseFileName (canon cwd) path = canon cs :=
  abs_canon hc path

/-- a plain file name relative to the working directory: `cwd/name` -/
theorem C10_acc_parseFileName_relative (cwd : List Bytes) (hc : ∀ c ∈ cwd, PlainComp c) (name : Bytes)
    (hn : PlainComp name) : parseFileName (canon cwd) name = canon (cwd ++ [name]) := by
  unfold parseFileName abs isAbs
  have : name.head? ≠ some 47 := by
    intro e
    cases name with
    | nil => simp at e
    | cons a t => simp only [List.head?_cons, Option.some.injEq] at e; exact hn.2.2.2 (by simp [e])
  simp only [this, decide_false, Bool.false_eq_true, if_false]
  exact join_canon hc hn

/-- `Changes.GetDSC()` opens `dir/n` for the first listed name `n` ending in ".dsc" -/
theorem C10_acc_getDSC (cwd dir : List Bytes) (f : Bytes) (names : List Bytes) (n : Bytes)
    (hd : ∀ c ∈ dir, PlainComp c) (hf : PlainComp f) (hn : PlainComp n)
    (hfind : names.find? (fun n => Str.hasSuffix n (Bytes.ofString ".dsc")) = some n) :
    getDSCPath (canon cwd) (canon (dir ++ [f])) names = .ok (canon (dir ++ [n])) := by
  unfold getDSCPath
  rw [hfind, dir_canon_snoc hd hf]
  simp only
  have hr : (canon dir ++ [47] ++ n).head? = some 47 := by simp [canon]
  have hj : Path.join (canon dir) n = Path.clean (canon dir ++ [47] ++ n) := by
    unfold Path.join
    have h1 : (canon dir).isEmpty = false := by simp [canon]
    have h2 : n.isEmpty = false := by cases n with | nil => exact absurd rfl hn.1 | cons a t => rfl
    simp [h1, h2]
  unfold abs isAbs
  simp only [hr, decide_true, if_true]
  rw [← hj, join_canon hd hn]

/-- /srv/incoming/foo_1.dsc listing a tarball and a diff; "incoming/x.dsc" seen from /srv -/
example :
    let B := Bytes.ofString
    absFiles (B "/srv/incoming/foo_1.dsc") [B "foo_1.tar.gz", B "foo_1.diff.gz"]
      = [B "/srv/incoming/foo_1.tar.gz", B "/srv/incoming/foo_1.diff.gz"] ∧
    parseFileName (B "/srv") (B "incoming/./x/../x.dsc") = B "/srv/incoming/x.dsc" ∧
    sourcePackage (B "libfoo1") (B "foo (1.0-1)") = B "foo" ∧
    getDSCPath (B "/") (B "/srv/incoming/foo_1_amd64.changes") [B "foo_1.tar.gz", B "foo_1.dsc"]
      = .ok (B "/srv/incoming/foo_1.dsc") := by
  decide +kernel

end accessors

end GoDebian.Props.C10
