/-
  C13 — every well-formed `ar` archive (global magic, 60-byte headers with left-justified
  blank-padded columns, data padded to even length) is read back as exactly its members,
  and the reader of every member keeps delivering that member's data.
  Property theorems only; lemmas live in GoDebian/Lemmas/ArHeader.lean, ArBuild.lean.
-/
import GoDebian.Model.Deb
import GoDebian.Spec.Ar
import GoDebian.Lemmas.ArBuild
import GoDebian.Lemmas.ArSparse

namespace GoDebian.Props.C13
open GoDebian GoDebian.Ar GoDebian.Spec.Ar

/-- Main theorem: iterating `Next` over a well-formed archive ends with `io.EOF` (not an
    error, not a truncated read) and returns one entry per member, in order, with the
    member's name (GNU trailing slash removed), numeric columns (blank = 0), mode, size
    and data. -/
theorem C13_read_build (ms : List Member) (h : ms.all wfMember = true) :
    ∃ es, readAll (build ms) = some (es, .eof) ∧ es.map (entryView (build ms)) = ms.map view :=
  ⟨_, Lemmas.Ar.readAll_build ms h⟩

/-- The hypothesis is satisfiable by an archive exercising the corners of the format:
    a GNU-style name with an odd-sized member (so a pad byte follows) and a blank
    timestamp column; an empty member with blank owner column; a name filling all 16
    bytes of its column, a mode filling all 8, a 12-digit timestamp, 6-digit ids, a name
    with an inner blank and an inner slash. -/
example :
    let B := Bytes.ofString
    let m1 : Member := ⟨B "a.txt", true, none, some 0, some 0, B "100644", B "hey"⟩
    let m2 : Member := ⟨B "control.tar.gz", false, some 1700000000, none, some 1000, B "644", []⟩
    let m3 : Member := ⟨B "sixteen /bytes!!", false, some 999999999999, some 999999, some 999999,
      B "12345678", B "x\n"⟩
    let ms := [m1, m2, m3]
    ms.all wfMember = true ∧
    build ms = B ("!<arch>\n" ++
      "a.txt/                      0     0     100644  3         `\nhey\n" ++
      "control.tar.gz  1700000000        1000  644     0         `\n" ++
      "sixteen /bytes!!999999999999999999999999123456782         `\nx\n") ∧
    readAll (build ms) = some (
      [⟨B "a.txt", 0, 0, 0, B "100644", 3, 8, 68⟩,
       ⟨B "control.tar.gz", 1700000000, 0, 1000, B "644", 0, 72, 132⟩,
       ⟨B "sixteen /bytes!!", 999999999999, 999999, 999999, B "12345678", 2, 132, 192⟩], .eof) ∧
    ms.map view =
      [⟨B "a.txt", 0, 0, 0, B "100644", 3, B "hey"⟩,
       ⟨B "control.tar.gz", 1700000000, 0, 1000, B "644", 0, []⟩,
       ⟨B "sixteen /bytes!!", 999999999999, 999999, 999999, B "12345678", 2, B "x\n"⟩] := by
  decide +kernel

/-- The empty archive (just the global magic) is well-formed and has no members. -/
example : ([] : List Member).all wfMember = true ∧ readAll (build []) = some ([], .eof) := by
  decide +kernel

/-- `wfMember` is not vacuous the other way: members outside it are not read back — a
    name ending in a slash loses it, a name with a leading blank loses that, a 17-byte
    name shifts the columns. -/
example :
    let B := Bytes.ofString
    let bad1 : Member := ⟨B "dir/", false, none, none, none, B "644", []⟩
    let bad2 : Member := ⟨B " x", false, none, none, none, B "644", []⟩
    let bad3 : Member := ⟨B "seventeen-bytes!!", false, none, none, none, B "644", []⟩
    wfMember bad1 = false ∧ wfMember bad2 = false ∧ wfMember bad3 = false ∧
    (readAll (build [bad1])).map (fun r => r.1.map (·.name)) = some [B "dir"] ∧
    (readAll (build [bad2])).map (fun r => r.1.map (·.name)) = some [B "x"] ∧
    (readAll (build [bad3])).map (fun r => r.2) = some .bad := by
  decide +kernel

/-- Readers of earlier members stay valid: what member `i`'s reader delivers is a function
    of the archive bytes and the entry alone (an offset and a length into immutable
    bytes: `Ar.data bs e = readAt bs e.dataOff e.size.toNat`), so it equals the member's
    data whatever has been read since — here, after iteration has run to the end. -/
theorem C13_member_bytes (ms : List Member) (h : ms.all wfMember = true) (i : Nat)
    (hi : i < ms.length) :
    ∃ es, readAll (build ms) = some (es, .eof) ∧
      ∃ e, es[i]? = some e ∧ Ar.data (build ms) e = (ms[i]).data :=
  ⟨_, (Lemmas.Ar.readAll_build ms h).1, Lemmas.Ar.build_member_bytes ms h i hi⟩

/-- The first member's reader, used after the whole archive has been iterated, still
    delivers "hey" (and not the pad byte that follows it). -/
example :
    let B := Bytes.ofString
    let m1 : Member := ⟨B "a.txt", true, none, some 0, some 0, B "100644", B "hey"⟩
    let m2 : Member := ⟨B "b", false, some 1, none, none, B "644", B "second"⟩
    let ms := [m1, m2]
    ms.all wfMember = true ∧
    (readAll (build ms)).map (fun r => (r.1.map (Ar.data (build ms)), r.2))
      = some ([B "hey", B "second"], .eof) := by
  decide +kernel

/-- The iterator does not depend on how the source is stored: over a list of runs (literal
    bytes, runs of zero bytes) it returns what it returns over the bytes they stand for. -/
theorem C13_source_independent (segs : List Seg) : readAllS segs = readAll (flatten segs) :=
  Lemmas.ArSparse.readAllS_eq segs

/-- Members of any size the ten-digit column can hold: an archive given as runs, whose
    members carry `k` further zero bytes each, reads back as its (materialised) members.
    `wfMember` allows sizes up to 9999999999. -/
theorem C13_read_build_large (mks : List (Member × Nat))
    (h : (mks.map materialise).all wfMember = true) :
    ∃ es, readAllS (buildSegs mks) = some (es, .eof) ∧
      es.map (entryView (build (mks.map materialise))) = (mks.map materialise).map view := by
  rw [C13_source_independent, Lemmas.ArSparse.flatten_buildSegs]
  exact C13_read_build _ h

/-- a member of 10^9 + 1 bytes (ten digits, odd: a pad byte follows) and one of
    9999999999 bytes, each followed by a small member: sizes and offsets as computed by
    the kernel on the runs, without materialising anything -/
example :
    let B := Bytes.ofString
    let big1 : Member × Nat := (⟨B "data.tar", false, some 1, none, none, B "644", B "x"⟩, 1000000000)
    let big2 : Member × Nat := (⟨B "huge", true, none, none, none, B "644", []⟩, 9999999999)
    let small : Member × Nat := (⟨B "next", false, some 2, none, none, B "644", B "ab"⟩, 0)
    (Str.fmtNat 9999999999).length ≤ 10 ∧
    (readAllS (buildSegs [big1, small, big2, small])).map
        (fun r => (r.1.map (fun e => (e.name, e.size, e.hdrOff)), r.2))
      = some ([(B "data.tar", 1000000001, 8), (B "next", 2, 1000000070),
               (B "huge", 9999999999, 1000000132), (B "next", 2, 11000000192)], .eof) := by
  decide +kernel

end GoDebian.Props.C13
