/-
  C13 — property theorems (see DESIGN.md §5 C13).
-/
import GoDebian.Model.Deb
import GoDebian.Spec.Ar

namespace GoDebian.Props.C13
end GoDebian.Props.C13
