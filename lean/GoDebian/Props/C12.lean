/-
  C12 — property theorems (see DESIGN.md §5 C12).
-/
import GoDebian.Model.Hashio

namespace GoDebian.Props.C12
end GoDebian.Props.C12
