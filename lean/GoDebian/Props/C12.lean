/-
  C12 — checksums: the hashing writers/readers pass the bytes through unchanged and every
  hasher sees exactly the stream, whatever the chunking, subset and order of algorithms;
  an unknown algorithm is an error; the verifier of a file hash accepts exactly the streams
  whose digest under the entry's own algorithm is the recorded one.
  `H : Digest` is the external digest function (see Model/Hashio.lean).
  Property theorems only; lemmas live in GoDebian/Lemmas/Hashio.lean.
-/
import GoDebian.Model.Hashio
import GoDebian.Lemmas.Hashio

namespace GoDebian.Props.C12
open GoDebian GoDebian.Hashio

/-- a toy digest for the satisfiability examples: (length of the algorithm name, sum of the
    message bytes mod 256, message length mod 256) -/
private def toyH : Digest := fun n m => [n.length, m.foldl (· + ·) 0 % 256, m.length % 256]

/-- Bytes pass through unchanged; every hasher has seen exactly the stream, whatever the
    chunking, subset and order of algorithms. -/
theorem C12_passthrough (names chunks : List Bytes) (p : Pipe) (h : run names chunks = .ok p) :
    p.target = chunks.flatten ∧ p.hashers.map (·.name) = names ∧
      ∀ x ∈ p.hashers, x.fed = chunks.flatten ∧ x.size = chunks.flatten.length :=
  Lemmas.Hashio.run_passthrough h

/-- Satisfiable: sha512 before md5, md5 twice, sha1 and sha256 absent; an empty chunk in the
    middle. -/
example :
    let B := Bytes.ofString
    run [B "sha512", B "md5", B "md5"] [B "he", [], B "llo\n"]
      = .ok ⟨[⟨B "sha512", B "hello\n", 6⟩, ⟨B "md5", B "hello\n", 6⟩, ⟨B "md5", B "hello\n", 6⟩],
             B "hello\n"⟩ := by
  decide +kernel

/-- The sums reported are the digests of the whole stream, one per requested name, in the
    requested order. -/
theorem C12_sums (H : Digest) (names chunks : List Bytes) (p : Pipe)
    (h : run names chunks = .ok p) :
    p.hashers.map (·.sum H) = names.map (fun n => H n chunks.flatten) :=
  Lemmas.Hashio.run_sums H h

example :
    let B := Bytes.ofString
    (run [B "sha256", B "sha1"] [B "ab", B "c"]).toOption.map (fun p => p.hashers.map (·.sum toyH))
      = some [[6, 38, 3], [4, 38, 3]] := by
  decide +kernel

/-- Two chunkings of the same stream leave the pipe in the same state. -/
theorem C12_chunking_irrelevant (names c1 c2 : List Bytes) (p1 p2 : Pipe)
    (hf : c1.flatten = c2.flatten) (h1 : run names c1 = .ok p1) (h2 : run names c2 = .ok p2) :
    p1 = p2 :=
  Lemmas.Hashio.run_chunking hf h1 h2

example :
    let B := Bytes.ofString
    [B "he", [], B "llo\n"] ≠ [B "hello", B "\n"] ∧
    [B "he", [], B "llo\n"].flatten = [B "hello", B "\n"].flatten ∧
    (run [B "sha1", B "md5"] [B "he", [], B "llo\n"]).toOption.isSome = true ∧
    (run [B "sha1", B "md5"] [B "hello", B "\n"]).toOption.isSome = true := by
  decide +kernel

/-- An unknown algorithm name anywhere in the list is an error, and nothing else is. -/
theorem C12_unknown_algorithm (names chunks : List Bytes) :
    (∃ n ∈ names, supported n = false) ↔ run names chunks = .error .err :=
  Lemmas.Hashio.run_error_iff names chunks

/-- Both sides occur; names are case-sensitive and "sha224" is not offered. -/
example :
    let B := Bytes.ofString
    supported (B "SHA256") = false ∧ supported (B "sha224") = false ∧ supported [] = false ∧
    supported (B "md5") = true ∧ supported (B "sha1") = true ∧ supported (B "sha256") = true ∧
    supported (B "sha512") = true ∧
    run [B "sha256", B "SHA256"] [B "x"] = .error .err ∧
    run [] [B "x"] = .ok ⟨[], B "x"⟩ := by
  decide +kernel

/-- The verifier accepts iff the stream's digest under the entry's own algorithm equals the
    recorded hash. -/
theorem C12_verifier (H : Digest) (alg hash data : Bytes) (hs : supported alg = true) :
    verify H alg hash data = .accept ↔ hexDecode hash = some (H alg data) :=
  Lemmas.Hashio.verify_accept_iff H alg hash data hs

/-- All verdicts occur: the right hash (in either case of the hex digits), a wrong hash, the
    right hash under another algorithm's name, an odd-length and a non-hex hash. -/
example :
    let B := Bytes.ofString
    toyH (B "sha1") (B "abc") = [4, 38, 3] ∧
    verify toyH (B "sha1") (B "042603") (B "abc") = .accept ∧
    verify toyH (B "sha1") (B "0a2603") (B "abc") = .reject ∧
    verify toyH (B "sha256") (B "042603") (B "abc") = .reject ∧
    verify toyH (B "sha1") (B "04260") (B "abc") = .badHex ∧
    verify toyH (B "sha1") (B "04260g") (B "abc") = .badHex ∧
    verify (fun _ _ => [171]) (B "md5") (B "aB") [] = .accept := by
  decide +kernel

/-- An entry with an algorithm the library does not offer is never accepted. -/
theorem C12_verifier_unsupported (H : Digest) (alg hash data : Bytes)
    (hs : supported alg = false) : verify H alg hash data = .unsupported :=
  Lemmas.Hashio.verify_unsupported H alg hash data hs

example :
    supported (Bytes.ofString "crc32") = false ∧
    verify toyH (Bytes.ofString "crc32") (Bytes.ofString "052603") (Bytes.ofString "abc")
      = .unsupported := by
  decide +kernel

/-- An entry built from a hasher verifies exactly the streams with the hasher's digest
    (digests are byte strings: all entries below 256). -/
theorem C12_from_hasher (H : Digest) (path : Bytes) (h : Hasher) (data : Bytes)
    (hs : supported h.name = true) (hb : ∀ b ∈ H h.name h.fed, b < 256) :
    verify H h.name (fileHashFromHasher H path h).hash data = .accept ↔
      H h.name data = H h.name h.fed :=
  Lemmas.Hashio.verify_from_hasher H path h data hs hb

/-- Satisfiable, and the entry carries the hasher's algorithm, lower-case hex digest, byte
    count and the given path. -/
example :
    let B := Bytes.ofString
    let h : Hasher := ⟨B "sha256", B "hello\n", 6⟩
    supported h.name = true ∧ (∀ b ∈ toyH h.name h.fed, b < 256) ∧
    toyH h.name h.fed = [6, 30, 6] ∧
    fileHashFromHasher toyH (B "a/b.deb") h = ⟨B "sha256", B "061e06", 6, B "a/b.deb", [], [], []⟩ ∧
    verify toyH h.name (fileHashFromHasher toyH (B "a/b.deb") h).hash (B "\nolleh") = .accept ∧
    verify toyH h.name (fileHashFromHasher toyH (B "a/b.deb") h).hash (B "hello") = .reject := by
  decide +kernel

/-- The byte-range hypothesis cannot be dropped from the model-level statement: `%x` of a
    value ≥ 256 is not two hex digits (real digests are bytes, so this is about the
    parameter `H` only). -/
example :
    let H : Digest := fun _ _ => [256]
    let h : Hasher := ⟨Bytes.ofString "md5", [], 0⟩
    ¬ (verify H h.name (fileHashFromHasher H [] h).hash [] = .accept ↔
        H h.name [] = H h.name h.fed) := by
  decide +kernel

/-- `BestChecksums.Checksums()`: the SHA-256 list if it is non-empty, else the SHA-512 list. -/
theorem C12_best (a b : List Codec.FileHash) : bestChecksums a b = if a.isEmpty then b else a :=
  Lemmas.Hashio.bestChecksums_eq a b

example :
    let x : Codec.FileHash := ⟨Bytes.ofString "sha256", [48, 48], 1, [97], [], [], []⟩
    let y : Codec.FileHash := ⟨Bytes.ofString "sha512", [49, 49], 1, [97], [], [], []⟩
    bestChecksums [x] [y] = [x] ∧ bestChecksums [] [y] = [y] ∧
    bestChecksums ([] : List Codec.FileHash) [] = [] := by
  decide +kernel

end GoDebian.Props.C12
