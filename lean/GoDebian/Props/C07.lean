/-
  C07 — the control-file reader returns, for every well-formed document in every layout,
  exactly the paragraphs of the document; what every returned paragraph satisfies on
  arbitrary input; `All` is the iteration of `Next` and always terminates.
  Property theorems only; lemmas live in GoDebian/Lemmas/Deb822Read*.lean.
-/
import GoDebian.Model.Deb822
import GoDebian.Spec.Deb822
import GoDebian.Lemmas.Deb822Read
import GoDebian.Lemmas.Deb822ReadNext

namespace GoDebian.Props.C07
open GoDebian GoDebian.Deb822 GoDebian.Spec.Deb822

/-! ### arbitrary input -/

/-- Whatever the input bytes, every paragraph `All` returns has a non-empty `Order`
    without duplicates whose elements are exactly the keys of `Values`. -/
theorem C07_invariant (bs : Bytes) (ps : List Paragraph) (h : all bs = .ok ps) :
    ∀ p ∈ ps, p.order ≠ [] ∧ p.order.Nodup ∧ ∀ k, k ∈ p.order ↔ (lookup k p.values).isSome :=
  Lemmas.Deb822Read.all_invariant bs ps h

/-- The hypothesis is satisfiable on input outside the image of `render`: a repeated
    field (the later value wins, the key is listed once), no white space after the colon,
    a value containing a colon, a comment between paragraphs. -/
example :
    all (Bytes.ofString "A: 1\nB:2:3\nA: 4\n#c\n\n\nC:\n x\n") =
      .ok [⟨[[65], [66]], [([65], [52]), ([66], Bytes.ofString "2:3")]⟩,
           ⟨[[67]], [([67], Bytes.ofString "x\n")]⟩] := by
  decide +kernel

/-! ### `All` and `Next` -/

/-- `All` is by definition the iteration of `Next`: both entry points see the same
    sequence of paragraphs. -/
theorem C07_all_is_iterated_next (fuel : Nat) (lines : List Bytes) (acc : List Paragraph) :
    allAux (fuel+1) lines acc = match next lines with
      | .eof => .ok acc
      | .bad => .error .err
      | .para p rest => allAux fuel rest (acc ++ [p]) :=
  Lemmas.Deb822Read.allAux_succ fuel lines acc

/-- `Next` returns strictly fewer lines than it was given … -/
theorem C07_next_consumes (lines : List Bytes) (p : Paragraph) (rest : List Bytes)
    (h : next lines = .para p rest) : rest.length < lines.length :=
  (Lemmas.Deb822Read.next_para h).2.2

/-- … so the fuel of `All` always suffices, and no step can panic: the only outcomes are
    a list of paragraphs or an error value. -/
theorem C07_all_total (bs : Bytes) : all bs ≠ .error .fuel ∧ all bs ≠ .error .panic :=
  Lemmas.Deb822Read.all_total bs

/-- Both remaining outcomes occur: a line without a colon and a continuation line with no
    field before it are errors. -/
example :
    all (Bytes.ofString "A: 1\n\nnocolon\n") = .error .err ∧
    all (Bytes.ofString " x\n") = .error .err ∧
    all (Bytes.ofString "\n\r\n# only a comment\n") = .ok [] := by
  decide +kernel

/-! ### well-formed documents -/

/-- Main theorem: every well-formed document, rendered in any layout the format allows
    (LF or CRLF per line, empty lines before, after and between paragraphs, comment
    lines, any of the four paddings after the colon, white space at the end of a line —
    blanks, tab, VT, FF and the Unicode white-space runes U+0085, U+00A0, U+2003, U+2028,
    U+3000 —, blank or tab as continuation marker, with or without the final line
    terminator), is read back as exactly its paragraphs, in order, with exactly the
    expected values. -/
theorem C07_read_render (d : Doc) (cs : Choices) (h : wfDoc d = true) :
    all (render d cs) = .ok (d.map expectedPara) :=
  Lemmas.Deb822ReadNext.all_read_render d cs h

/-- A well-formed two-paragraph document and a layout exercising every choice: leading
    CRLF empty line, comments before a field and before a continuation line, double-space
    and tab padding, trailing blank and tab, tab marker, an empty logical line (" ."), a
    continuation line whose text starts with a blank, two separating empty lines, an
    empty value, a value that is only continuation lines, no final line terminator. -/
example :
    let B := Bytes.ofString
    let d : Doc :=
      [[⟨B "Package", B "hello", []⟩,
        ⟨B "Description", B "short text", [B "long line", [], B " indented"]⟩],
       [⟨B "Empty", [], []⟩, ⟨B "Multi", [], [B "a"]⟩]]
    let cs : Choices := [1, 1, 1, 0, 2, 1, 0, 0, 3, 0, 1, 0, 1, 2, 0, 1, 1, 0, 0, 1, 0, 0, 0, 0,
      1, 1, 0, 0, 1, 1, 0, 0, 0, 0, 0, 0, 0, 0, 1, 0, 1]
    wfDoc d = true ∧
    render d cs = B ("\r\n# note\nPackage:  hello \nDescription:\tshort text\r\n\tlong line\t\n" ++
      "# note\r\n .\r\n  indented\n\r\n\nEmpty: \nMulti:\n a") ∧
    d.map expectedPara =
      [⟨[B "Package", B "Description"],
        [(B "Package", B "hello"), (B "Description", B "short text\nlong line\n\n indented\n")]⟩,
       ⟨[B "Empty", B "Multi"], [(B "Empty", []), (B "Multi", B "a\n")]⟩] := by
  decide +kernel

/-- Unicode white space at the end of a line is removed like a blank: the field's own line
    ends in U+2003 (EM SPACE), the continuation line "more" ends in U+00A0 (NO-BREAK SPACE)
    in front of CR LF, and the " ." line is followed by U+3000 (IDEOGRAPHIC SPACE); the
    document reads back as the expected paragraph, the empty logical line included.
    Choices: 7, 5 and 9 select those alternatives of `trailing`. -/
example :
    let B := Bytes.ofString
    let d : Doc := [[⟨B "F", B "v", [B "more", []]⟩]]
    let cs : Choices := [0, 0, 0, 7, 0, 0, 0, 5, 1, 0, 0, 9, 0, 0, 0]
    wfDoc d = true ∧
    render d cs = B "F: v" ++ [226, 128, 131] ++ B "\n more" ++ [194, 160] ++ B "\r\n ." ++
      [227, 128, 128] ++ B "\n" ∧
    d.map expectedPara = [⟨[B "F"], [(B "F", B "v\nmore\n\n")]⟩] ∧
    all (render d cs) = .ok [⟨[B "F"], [(B "F", B "v\nmore\n\n")]⟩] := by
  decide +kernel

/-- Inside the hypothesis as well (classes the independently written changes of round 7 went
    for): continuation text that begins with `#` (a comment exists in the first column only),
    text whose last character ends in the byte 0xA0 or 0x85 ("à" = C3 A0, "Å" = C3 85: white space
    as Latin-1 bytes, letters as UTF-8), bytes that are no UTF-8 at all (a Latin-1 "ö" = F6), an
    armor header line inside a value, and a continuation line of blanks only (which is an empty
    logical line written with trailing white space, not a paragraph separator). -/
example :
    let B := Bytes.ofString
    let d : Doc := [[⟨B "Changes", [], [B "  * closes:", B "#805210).", B " # not a comment", B "citt" ++ [195, 160],
        [195, 133], B "J" ++ [246] ++ B "rg", B "-----BEGIN PGP SIGNED MESSAGE-----", []]⟩, ⟨B "After", B "x", []⟩]]
    wfDoc d = true ∧
    all (B "Changes:\n   * closes:\n #805210).\n  # not a comment\n citt" ++ [195, 160] ++ B "\n " ++ [195, 133] ++
        B "\n J" ++ [246] ++ B "rg\n -----BEGIN PGP SIGNED MESSAGE-----\n .  \nAfter: x\n")
      = .ok (d.map expectedPara) ∧
    (d.map expectedPara).map (fun p => p.values.map (·.2.length)) = [[90, 1]] := by
  decide +kernel

/-- The empty document is well-formed; its renderings are runs of empty lines (here LF,
    CRLF with the final terminator dropped). -/
example : wfDoc [] = true ∧ render [] [2, 0, 1, 0, 1] = [10] ∧ render [] [] = [] := by
  decide +kernel

end GoDebian.Props.C07
