/-
  C07 — property theorems (see DESIGN.md §5 C07).
-/
import GoDebian.Model.Deb822
import GoDebian.Spec.Deb822

namespace GoDebian.Props.C07
end GoDebian.Props.C07
