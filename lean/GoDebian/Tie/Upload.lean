/-
  C20 tie: the order of events in the bodies of DSC / Changes Copy, Move and Remove, re-read
  from control/dsc.go and control/changes.go on every run: the names are checked before anything
  happens, the loop over the listed files comes before the one call on the control file itself,
  the handle is re-pointed only after that call, and nothing else touches the file system.
  A body of another shape is `none` (unavailable: the correspondence stream is escalated).
-/
import GoDebian.Extracted.Upload

namespace GoDebian.Tie.Upload
open GoDebian.Extracted.Upload

def isFiles (e : String) : Bool := e.startsWith "files:"
def isControl (e : String) : Bool := e.startsWith "control:"
def isOther (e : String) : Bool := e.startsWith "other:"

/-- position of the first event satisfying `p` -/
def pos (p : String → Bool) (ev : List String) : Option Nat := ev.findIdx? p

/-- check first; files loop, then the control file, then (for Copy / Move) the handle;
    both with the same primitive; no other file-system call -/
def orderOK (needsHandle : Bool) : Option (List String) → Bool
  | none => true
  | some ev =>
    ev.head? == some "check" && !ev.any isOther &&
    (match pos isFiles ev, pos isControl ev with
     | some i, some j =>
        decide (i < j) && ((ev.getD i "").drop 6 == (ev.getD j "").drop 8) &&
        (if needsHandle then (match pos (· == "handle") ev with | some k => decide (j < k) | none => false)
         else !ev.contains "handle")
     | _, _ => false)

theorem dscCopy_order : orderOK true dscCopy = true := by decide +kernel
theorem dscMove_order : orderOK true dscMove = true := by decide +kernel
theorem dscRemove_order : orderOK false dscRemove = true := by decide +kernel
theorem changesCopy_order : orderOK true changesCopy = true := by decide +kernel
theorem changesMove_order : orderOK true changesMove = true := by decide +kernel
theorem changesRemove_order : orderOK false changesRemove = true := by decide +kernel

/-- `internal.Copy`: the source is opened before the destination is created; the destination is
    created by a truncating call (`os.Create`, or `os.OpenFile` with `O_TRUNC` among its flags), so
    nothing of an older file of the same name survives; the data is copied after that; and a
    failed copy removes the destination (`os.Remove` after `io.Copy`) -/
def containsS (needle : List Char) : List Char → Bool
  | [] => needle.isEmpty
  | c :: rest => (needle.isPrefixOf (c :: rest)) || containsS needle rest

def copyOK : Option (List String) → Bool
  | none => true
  | some cs =>
    let truncating := fun (c : String) =>
      c == "os.Create" || (c.startsWith "os.OpenFile:" && containsS "O_TRUNC".toList c.toList && containsS "O_CREATE".toList c.toList)
    let creating := fun (c : String) => c == "os.Create" || c.startsWith "os.OpenFile:"
    match cs.findIdx? (· == "os.Open"), cs.findIdx? creating, cs.findIdx? (· == "io.Copy"), cs.findIdx? (· == "os.Remove") with
    | some o, some c, some d, some r => decide (o < c) && decide (c < d) && decide (d < r) && truncating (cs.getD c "") &&
        ((cs.filter creating).length == 1)
    | _, _, _, _ => false

theorem internalCopy_calls : copyOK internalCopy = true := by decide +kernel

end GoDebian.Tie.Upload
