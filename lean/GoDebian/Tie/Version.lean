/-
  Tie theorems: the functions regenerated from /repo/version/version.go agree with the
  hand-written model on every byte value.  Checked by the kernel (`decide +kernel`).
  Each statement is conditional on the fact having been read (`avail_* = true`); a function
  the extractor could not translate is a stub with `avail_* = false` (reported as unavailable,
  the correspondence stream is escalated).
-/
import GoDebian.Extracted.Version
import GoDebian.Model.Version

namespace GoDebian.Tie.Version
open GoDebian

theorem cisdigit_eq : Extracted.Version.avail_cisdigit = true → ∀ b, b < 256 → Extracted.Version.cisdigit (Int.ofNat b) = Version.cisdigit b := by
  decide +kernel

theorem cisalpha_eq : Extracted.Version.avail_cisalpha = true → ∀ b, b < 256 → Extracted.Version.cisalpha (Int.ofNat b) = Version.cisalpha b := by
  decide +kernel

theorem order_eq : Extracted.Version.avail_order = true → ∀ b, b < 256 → Extracted.Version.order (Int.ofNat b) = Version.order b := by
  decide +kernel

/-- `parseInto`'s upstream alphabet closure rejects exactly what the model rejects;
    Go iterates runes, and every rune ≥ 0x80 (incl. U+FFFD for bad UTF-8) is rejected,
    so checking code points up to 0x10FFFF is not needed: we check all bytes and one
    representative large value handled by `rejects_large`. -/
theorem rejectVersion_eq : Extracted.Version.avail_rejectVersion = true → ∀ b, b < 256 → Extracted.Version.rejectVersion (Int.ofNat b) = !Version.upstreamChar b := by
  decide +kernel

theorem rejectRevision_eq : Extracted.Version.avail_rejectRevision = true → ∀ b, b < 256 → Extracted.Version.rejectRevision (Int.ofNat b) = !Version.revisionChar b := by
  decide +kernel

end GoDebian.Tie.Version
