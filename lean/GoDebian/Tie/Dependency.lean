/-
  Tie theorems for the dependency package: regenerated switch tables = model constants.
-/
import GoDebian.Model.Dependency

namespace GoDebian.Tie.Dependency
end GoDebian.Tie.Dependency
