/-
  Tie theorems for dependency/parser.go and dependency.go: the `switch peek` case sets
  regenerated from the source agree, on every byte value, with the stop / dispatch
  predicates the model uses.  A table the extractor could not read is `none` (the fact
  is then reported as unavailable and the correspondence stream is escalated).
-/
import GoDebian.Extracted.Dependency
import GoDebian.Model.Dependency

namespace GoDebian.Tie.Dependency
open GoDebian GoDebian.Dep
open GoDebian.Extracted.Dependency

/-- `p` holds exactly on the bytes listed in rows `rows` of table `t`. -/
def Agrees (t : Option (List (List Nat))) (rows : List Nat) (p : Nat → Bool) : Prop :=
  match t with
  | none => True
  | some tbl => ∀ b, b < 256 → p b = ((rows.map (fun i => tbl.getD i [])).flatten.contains b)

instance (t rows p) : Decidable (Agrees t rows p) := by
  unfold Agrees; cases t <;> exact inferInstance

/-- number of case clauses -/
def Rows (t : Option (List (List Nat))) (n : Nat) : Prop :=
  match t with | none => True | some tbl => tbl.length = n

instance (t n) : Decidable (Rows t n) := by unfold Rows; cases t <;> exact inferInstance

theorem eatWhitespace_set : Agrees eatWhitespace_cases [0] isWs ∧ Rows eatWhitespace_cases 1 := by decide +kernel

theorem parseDependency_dispatch :
    Agrees parseDependency_cases [0] (· = 0) ∧ Agrees parseDependency_cases [1] (· = 44) ∧ Rows parseDependency_cases 2 := by
  decide +kernel

theorem parseRelation_dispatch :
    Agrees parseRelation_cases [0] (fun c => c = 0 || c = 44) ∧ Agrees parseRelation_cases [1] (· = 124)
    ∧ Rows parseRelation_cases 2 := by decide +kernel

theorem parsePossibility_dispatch :
    Agrees parsePossibility_cases [0, 1, 2] nameStop ∧ Agrees parsePossibility_cases [0] (· = 58)
    ∧ Agrees parsePossibility_cases [2] (fun c => c = 44 || c = 124 || c = 0) ∧ Rows parsePossibility_cases 3 := by
  decide +kernel

theorem parseSubstvar_stop :
    Agrees parseSubstvar_cases [0, 1] (fun c => c = 0 || c = 125) ∧ Agrees parseSubstvar_cases [1] (· = 125)
    ∧ Rows parseSubstvar_cases 2 := by decide +kernel

theorem parseMultiarch_stop : Agrees parseMultiarch_cases [0] multiarchStop ∧ Rows parseMultiarch_cases 2 := by
  decide +kernel

theorem parseControllers_dispatch :
    Agrees parsePossibilityControllers_cases [0] (fun c => c = 44 || c = 124 || c = 0)
    ∧ Agrees parsePossibilityControllers_cases [1] (· = 40) ∧ Agrees parsePossibilityControllers_cases [2] (· = 91)
    ∧ Agrees parsePossibilityControllers_cases [3] (· = 60) ∧ Rows parsePossibilityControllers_cases 4 := by
  decide +kernel

theorem parseNumber_stop :
    Agrees parsePossibilityNumber_cases [0, 1] (fun c => c = 0 || c = 41) ∧ Agrees parsePossibilityNumber_cases [1] (· = 41)
    ∧ Rows parsePossibilityNumber_cases 2 := by decide +kernel

theorem parseArchs_dispatch :
    Agrees parsePossibilityArchs_cases [0] (· = 0) ∧ Agrees parsePossibilityArchs_cases [1] (· = 93)
    ∧ Rows parsePossibilityArchs_cases 2 := by decide +kernel

theorem parseArch_stop :
    Agrees parsePossibilityArch_cases [0, 1, 2] (fun c => c = 0 || c = 33 || c = 93 || isWs c)
    ∧ Agrees parsePossibilityArch_cases [0, 1] (fun c => c = 0 || c = 33) ∧ Rows parsePossibilityArch_cases 3 := by
  decide +kernel

theorem parseStageSet_dispatch :
    Agrees parsePossibilityStageSet_cases [0] (· = 0) ∧ Agrees parsePossibilityStageSet_cases [1] (· = 62)
    ∧ Rows parsePossibilityStageSet_cases 2 := by decide +kernel

theorem parseStage_stop :
    Agrees parsePossibilityStage_cases [0, 1, 2] (fun c => c = 0 || c = 33 || c = 62 || isWs c)
    ∧ Agrees parsePossibilityStage_cases [0, 1] (fun c => c = 0 || c = 33) ∧ Rows parsePossibilityStage_cases 3 := by
  decide +kernel

/-- the operator whitelist of `parsePossibilityOperator` -/
theorem operator_whitelist :
    parsePossibilityOperator_cases = none ∨ parsePossibilityOperator_cases = some [["s:>=", "s:<=", "s:<<", "s:>>"]] := by
  decide +kernel

/-- `SatisfiedBy`: operator ↦ comparison, as the model's if-chain has it -/
theorem satisfiedBy_table :
    (satisfiedBy_cases = none ∨ satisfiedBy_returns = none) ∨
    (satisfiedBy_cases.getD [] |>.map (·.headD "")).zip (satisfiedBy_returns.getD [])
      = [("s:>=", "q>=0"), ("s:<=", "q<=0"), ("s:>>", "q>0"), ("s:<<", "q<0"), ("s:=", "q==0")] := by
  decide +kernel

/-- names are accumulated byte by byte, never re-encoded through `string(byte)` -/
theorem names_keep_bytes : nameAccumulation.1 = 0 := by decide +kernel

end GoDebian.Tie.Dependency
