/-
  C18: no package-level mutable state in the parser packages — the regenerated inventory
  shows no assignment to a package-level variable outside its declaration.
-/
import GoDebian.Extracted.Globals

namespace GoDebian.Tie.Globals

theorem no_global_writes : GoDebian.Extracted.Globals.writes = [] := by decide +kernel

end GoDebian.Tie.Globals
