/-
  Tie theorems for hashio.GetHash, FileHash.Verifier and FileHash.unmarshalControl:
  the algorithm tables regenerated from the source cover exactly md5, sha1, sha256, sha512
  (the model's `supported`), every name is wired to the constructor of the same algorithm
  (a verifier wired to another algorithm is the classic mistake here), and ByHash is set
  for sha256 / sha512 as the model has it.
-/
import GoDebian.Extracted.Hashio
import GoDebian.Model.Hashio

namespace GoDebian.Tie.Hashio
open GoDebian
open GoDebian.Extracted.Hashio

def isPrefixC : List Char → List Char → Bool
  | [], _ => true
  | _ :: _, [] => false
  | a :: as, b :: bs => a == b && isPrefixC as bs

def containsC (needle : List Char) : List Char → Bool
  | [] => needle.isEmpty
  | c :: rest => isPrefixC needle (c :: rest) || containsC needle rest

/-- the table has exactly the four algorithm names, the clause for `name` calls `name.New()`,
    and a default clause - where the switch has one; the fall-back may also follow the switch -
    returns no hasher -/
def WiredOK (t : Option (List (String × String))) : Prop :=
  match t with
  | none => True
  | some rows =>
    (rows.map (·.1)).filter (· ≠ "default") = ["md5", "sha1", "sha256", "sha512"] ∧
    rows.all (fun (n, body) =>
      if n = "default" then containsC "returnnil".toList body.toList
      else containsC (n ++ ".New()").toList body.toList) = true

instance (t) : Decidable (WiredOK t) := by unfold WiredOK; cases t <;> exact inferInstance

theorem getHash_wired : WiredOK getHash := by decide +kernel
theorem verifier_wired : WiredOK verifier := by decide +kernel

/-- the model's `supported` is exactly the set of names in both tables -/
theorem supported_names :
    ∀ n ∈ ["md5", "sha1", "sha256", "sha512"], Hashio.supported (Bytes.ofString n) = true := by decide +kernel

theorem byHash_table :
    byHash = none ∨ byHash = some [("sha256", "c.ByHash=\"SHA256\""), ("sha512", "c.ByHash=\"SHA512\"")] := by
  decide +kernel

end GoDebian.Tie.Hashio
