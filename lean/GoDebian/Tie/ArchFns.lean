/-
  C06 tie: `Arch.IsWildcard` and `Arch.Is`, re-translated from dependency/arch.go on every
  run, agree with the model on every pair of architectures over the component alphabet
  {any, all, a, b, c} — which is exhaustive up to renaming for functions that only compare
  components with each other and with the constants "any" / "all" (15 625 pairs, kernel).
-/
import GoDebian.Extracted.ArchFns
import GoDebian.Model.Dependency

namespace GoDebian.Tie.ArchFns
open GoDebian GoDebian.Extracted.ArchFns

def comps : List (List Nat) := [Dep.sAny, Dep.sAll, [97], [98], [99]]

def archs : List Dep.Arch := comps.flatMap (fun x => comps.flatMap (fun y => comps.map (fun z => ⟨x, y, z⟩)))

def conv (a : Dep.Arch) : A := ⟨a.abi, a.os, a.cpu⟩

theorem isWildcard_agrees : translated = false ∨ archs.all (fun a => isWildcard (conv a) == a.isWildcard) = true := by
  decide +kernel

theorem is_agrees :
    translated = false ∨ archs.all (fun a => archs.all (fun o => is (conv a) (conv o) == a.is o)) = true := by
  decide +kernel

end GoDebian.Tie.ArchFns
