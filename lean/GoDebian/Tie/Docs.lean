/-
  C10 tie: the struct definitions of the typed documents, regenerated from the Go source on
  every run, satisfy the Debian field tables (every field lands in the expected struct
  field with a kind, delimiter and strip set that decodes its real layout; checksum fields
  use the hash type of their own algorithm).  Checked by the kernel.
-/
import GoDebian.Spec.Docs

namespace GoDebian.Tie.Docs
open GoDebian.Spec.Docs GoDebian.Extracted.Schemas

theorem schema_DSC : schemaOK dsc schema_control_DSC = true := by decide +kernel
theorem schema_Changes : schemaOK changes schema_control_Changes = true := by decide +kernel
theorem schema_SourceParagraph : schemaOK sourceParagraph schema_control_SourceParagraph = true := by decide +kernel
theorem schema_BinaryParagraph : schemaOK binaryParagraph schema_control_BinaryParagraph = true := by decide +kernel
theorem schema_BinaryIndex : schemaOK binaryIndex schema_control_BinaryIndex = true := by decide +kernel
theorem schema_SourceIndex : schemaOK sourceIndex schema_control_SourceIndex = true := by decide +kernel
theorem schema_BestChecksums : schemaOK bestChecksums schema_control_BestChecksums = true := by decide +kernel
theorem schema_DebControl : schemaOK debControl schema_deb_Control = true := by decide +kernel

/-- the .deb control schema marks exactly Package, Version, Architecture as required -/
theorem debControl_required :
    schema_deb_Control = none ∨
    ((schema_deb_Control.getD []).filter (·.required)).map (·.key) = debControlRequired := by decide +kernel

end GoDebian.Tie.Docs
