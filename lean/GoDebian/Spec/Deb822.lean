/-
  Specification side of C07/C08: a deb822 document model, its renderings in every
  layout the format allows, and the paragraphs a reader must return for it.
  The layout is a stream of choices (one natural number per decision, consumed in
  order; exhausted = 0), so that generators can drive every layout decision and the
  theorem quantifies over all of them.
-/
import GoDebian.Model.Deb822

namespace GoDebian.Spec.Deb822
open GoDebian GoDebian.Deb822

structure Field where
  name  : Bytes
  first : Bytes            -- text on the field's own line
  conts : List Bytes       -- logical continuation lines; [] = an empty line, written " ."
  deriving DecidableEq, Repr

abbrev Para := List Field
abbrev Doc := List Para

/-- value the reader must return: the first line alone, or all logical lines each
    terminated by a newline (the first one only when it is not empty) -/
def expectedValue (f : Field) : Bytes :=
  if f.conts.isEmpty then f.first
  else (if f.first.isEmpty then [] else f.first ++ [10]) ++ (f.conts.map (· ++ [10])).flatten

def expectedPara (p : Para) : Paragraph :=
  ⟨p.map (·.name), p.foldl (fun acc f => insert f.name (expectedValue f) acc) []⟩

/-! ### Choice streams -/

abbrev Choices := List Nat

def pick (k : Nat) : Choices → Nat × Choices
  | [] => (0, [])
  | c :: rest => (c % k, rest)

def eol (cs : Choices) : Bytes × Choices :=
  let (c, cs) := pick 2 cs
  (if c = 0 then [10] else [13, 10], cs)

def blankLines : Nat → Choices → Bytes × Choices
  | 0, cs => ([], cs)
  | n+1, cs =>
    let (e, cs) := eol cs
    let (r, cs) := blankLines n cs
    (e ++ r, cs)

def commentLine (cs : Choices) : Bytes × Choices :=
  let (c, cs) := pick 4 cs
  if c = 1 then
    let (e, cs) := eol cs
    ([35, 32, 110, 111, 116, 101] ++ e, cs)        -- "# note"
  else ([], cs)

def padAfterColon (cs : Choices) : Bytes × Choices :=
  let (c, cs) := pick 4 cs
  (match c with | 0 => [32] | 1 => [] | 2 => [32, 32] | _ => [9], cs)

/-- white space at the end of a line, in front of the line terminator: nothing, ASCII
    blanks, or one of the Unicode `White_Space` runes (UTF-8): U+00A0, U+0085, U+2003,
    U+2028, U+3000, and the ASCII controls VT and FF.  All of them are runes for which Go's
    `unicode.IsSpace` holds, so `TrimSpace` / `TrimRightFunc(…, unicode.IsSpace)` must
    remove them. -/
def trailing (cs : Choices) : Bytes × Choices :=
  let (c, cs) := pick 12 cs
  (match c with
    | 1 => [32]
    | 2 => [9]
    | 4 => [32, 32]
    | 5 => [194, 160]            -- U+00A0 no-break space
    | 6 => [194, 133]            -- U+0085 next line
    | 7 => [226, 128, 131]       -- U+2003 em space
    | 8 => [226, 128, 168]       -- U+2028 line separator
    | 9 => [227, 128, 128]       -- U+3000 ideographic space
    | 10 => [11]                 -- VT
    | 11 => [12]                 -- FF
    | _ => [], cs)

def renderConts : List Bytes → Choices → Bytes × Choices
  | [], cs => ([], cs)
  | c :: rest, cs =>
    let (cm, cs) := commentLine cs
    let (m, cs) := pick 2 cs
    let marker : Bytes := if m = 0 then [32] else [9]
    let (t, cs) := trailing cs
    let (e, cs) := eol cs
    let (r, cs) := renderConts rest cs
    (cm ++ marker ++ (if c.isEmpty then [46] else c) ++ t ++ e ++ r, cs)

def renderField (f : Field) (cs : Choices) : Bytes × Choices :=
  let (cm, cs) := commentLine cs
  let (pad, cs) := padAfterColon cs
  let (t, cs) := trailing cs
  let (e, cs) := eol cs
  let (r, cs) := renderConts f.conts cs
  (cm ++ f.name ++ [58] ++ (if f.first.isEmpty then [] else pad) ++ f.first ++ t ++ e ++ r, cs)

def renderPara : Para → Choices → Bytes × Choices
  | [], cs => ([], cs)
  | f :: rest, cs =>
    let (a, cs) := renderField f cs
    let (b, cs) := renderPara rest cs
    (a ++ b, cs)

def renderParas : Doc → Choices → Bytes × Choices
  | [], cs => ([], cs)
  | [p], cs => renderPara p cs
  | p :: rest, cs =>
    let (a, cs) := renderPara p cs
    let (n, cs) := pick 3 cs
    let (bl, cs) := blankLines (n + 1) cs
    let (b, cs) := renderParas rest cs
    (a ++ bl ++ b, cs)

/-- drop the final line terminator (LF or CRLF): "with or without a final newline" -/
def dropFinalEol (b : Bytes) : Bytes :=
  match b.reverse with
  | 10 :: 13 :: r => r.reverse
  | 10 :: r => r.reverse
  | _ => b

def render (d : Doc) (cs : Choices) : Bytes :=
  let (n0, cs) := pick 3 cs
  let (lead, cs) := blankLines n0 cs
  let (body, cs) := renderParas d cs
  let (n1, cs) := pick 3 cs
  let (tail, cs) := blankLines n1 cs
  let (nofinal, _) := pick 4 cs
  let text := lead ++ body ++ tail
  if nofinal = 1 ∧ n1 = 0 then dropFinalEol text else text

/-! ### Well-formedness -/

def noSpaceRune (b : Bytes) : Bool := !Str.hasSpaceRune b
def trimmed (b : Bytes) : Bool := Str.trimSpace b = b

def wfName (n : Bytes) : Bool :=
  !n.isEmpty && noSpaceRune n && !n.contains 58 && n.head? != some 35 && !n.contains 10 && !n.contains 13

def wfFirst (v : Bytes) : Bool := trimmed v && !v.contains 10 && !v.contains 13
def wfCont (c : Bytes) : Bool :=
  Str.trimRightSpace c = c && !c.contains 10 && !c.contains 13 && c != [46]

def wfField (f : Field) : Bool := wfName f.name && wfFirst f.first && f.conts.all wfCont

def nodupNames : List Bytes → Bool
  | [] => true
  | n :: rest => !rest.contains n && nodupNames rest

def wfPara (p : Para) : Bool := !p.isEmpty && p.all wfField && nodupNames (p.map (·.name))
def wfDoc (d : Doc) : Bool := d.all wfPara

end GoDebian.Spec.Deb822
