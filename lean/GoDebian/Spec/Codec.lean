/-
  Specification side of C09: which schemas and records the round-trip theorems speak
  about, and when two records are "the same".
-/
import GoDebian.Model.Codec
import GoDebian.Spec.Deb822
import GoDebian.Spec.Deb822Write

namespace GoDebian.Spec.Codec
open GoDebian GoDebian.Deb822 GoDebian.Codec

/-! ### nesting depth -/

/-- nesting depth of slice kinds (`[][]string` = 2) -/
def kindDepth : Kind → Nat
  | .slice e => kindDepth e + 1
  | _ => 0

/-- every field's kind is nested at most 15 deep (the walkers' fuel is 16) -/
def depthOK (s : Schema) : Bool := s.all (fun f => decide (kindDepth f.kind ≤ 15))

/-! ### known field names -/

/-- the field names a schema claims: those of its non-anonymous, non-skipped fields -/
def knownKeys (s : Schema) : List Bytes :=
  (s.filter (fun f => !f.anonymous && f.key != [45])).map FieldDesc.key

end GoDebian.Spec.Codec
