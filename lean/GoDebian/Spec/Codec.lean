/-
  Specification side of C09: which schemas and records the round-trip theorems speak
  about, and when two records are "the same".
-/
import GoDebian.Model.Codec
import GoDebian.Spec.Deb822
import GoDebian.Spec.Deb822Write

namespace GoDebian.Spec.Codec
open GoDebian GoDebian.Deb822 GoDebian.Codec

/-! ### nesting depth -/

/-- nesting depth of slice kinds (`[][]string` = 2) -/
def kindDepth : Kind → Nat
  | .slice e => kindDepth e + 1
  | _ => 0

/-- every field's kind is nested at most 15 deep (the walkers' fuel is 16) -/
def depthOK (s : Schema) : Bool := s.all (fun f => decide (kindDepth f.kind ≤ 15))

/-! ### known field names -/

/-- the field names a schema claims: those of its non-anonymous, non-skipped fields -/
def knownKeys (s : Schema) : List Bytes :=
  (s.filter (fun f => !f.anonymous && f.key != [45])).map FieldDesc.key

/-! ### flat schemas -/

/-- kinds of single values -/
def scalarKind : Kind → Bool
  | .str | .int | .uint | .bool | .custom _ => true
  | _ => false

/-- a single value, or a list of single values -/
def flatKind : Kind → Bool
  | .slice e => scalarKind e
  | k => scalarKind k

def isSlice : Kind → Bool
  | .slice _ => true
  | _ => false

/-- a named field of flat kind; `multiline` only on lists whose strip set has the newline
    (a multi-line scalar is stored with its leading newline and decodes with it) -/
def flatField (f : FieldDesc) : Bool :=
  !f.anonymous && f.key != [45] && flatKind f.kind &&
    (!f.multiline || (isSlice f.kind && f.strip.contains 10))

/-- no anonymous fields, no "-" keys, distinct keys, flat kinds, fewer fields than the
    decoder's fuel -/
def flatSchema (s : Schema) : Bool :=
  s.all flatField && Spec.Deb822.nodupNames (s.map FieldDesc.key) && decide (s.length < 100000)

/-! ### well-formed records -/

/-- the delimiter in effect (default: the blank, which means "split at white space") -/
def delimOf (delim : Bytes) : Bytes := if delim.isEmpty then [32] else delim

/-- a rendered list element that survives joining, trimming and splitting: not empty;
    free of white space when elements are split at white space, otherwise such that the
    first occurrence of the delimiter in `d ++ delimiter` is the one at the end (for a
    one-byte delimiter: the byte does not occur in `d`); no strip character at either end -/
def elemOK (delim strip d : Bytes) : Bool :=
  !d.isEmpty &&
  (if delimOf delim = [32] then !Str.hasSpaceRune d
   else Str.indexOf (delimOf delim) (d ++ delimOf delim) == some d.length) &&
  d.head?.all (fun c => !strip.contains c) && d.getLast?.all (fun c => !strip.contains c)

/-- a custom value renders, renders empty only when it is the zero value, and its
    rendering decodes back to it (whenever it is going to be decoded: non-empty, or
    written regardless) -/
def wfCustom (mustDecode : Bool) (typ : String) (c : Custom) : Prop :=
  ∃ d, encodeCustom typ c = .ok d ∧ (d = [] → customZero typ = some c) ∧
    ((d ≠ [] ∨ mustDecode = true) → decodeCustom typ d = .ok c)

/-- a single value matching its kind: any string, an int64, a uint64, a bool, a lawful
    custom value — or the untouched zero value -/
def wfScalar (mustDecode : Bool) : Kind → Val → Prop
  | .custom typ, .custom c => wfCustom mustDecode typ c
  | .custom typ, .zero => ∃ c, customZero typ = some c ∧ wfCustom mustDecode typ c
  | .str, .str _ => True
  | .int, .int i => -(2^63 : Int) ≤ i ∧ i < 2^63
  | .uint, .uint n => n < 2^64
  | .bool, .bool _ => True
  | .str, .zero | .int, .zero | .uint, .zero | .bool, .zero => True
  | _, _ => False

/-- a field value matching its field: a scalar as above (a custom value of a required field
    must decode even when it renders empty), or nil, or a list of scalars each of which
    renders to an `elemOK` element -/
def wfVal (f : FieldDesc) (v : Val) : Prop :=
  match f.kind, v with
  | .slice _, .zero => True
  | .slice e, .list vs =>
    ∀ x ∈ vs, wfScalar true e x ∧
      ∃ d, marshalValue 15 e f.delim x = .ok d ∧ elemOK f.delim f.strip d = true
  | .slice _, _ => False
  | k, v => wfScalar f.required k v

def wfRec : Schema → List Val → Prop
  | [], [] => True
  | f :: s, v :: r => wfVal f v ∧ wfRec s r
  | _, _ => False

/-! ### the same record -/

/-- a scalar with the Go zero value made explicit -/
def canonScalar : Kind → Val → Val
  | .str, .str b => .str b
  | .str, _ => .str []
  | .int, .int i => .int i
  | .int, _ => .int 0
  | .uint, .uint n => .uint n
  | .uint, _ => .uint 0
  | .bool, .bool b => .bool b
  | .bool, _ => .bool false
  | .custom _, .custom c => .custom c
  | .custom typ, _ =>
    (match customZero typ with
     | some c => .custom c
     | none => .zero)
  | _, v => v

/-- a field value with the Go zero value made explicit (nil = empty list) -/
def canon : Kind → Val → Val
  | .slice e, .list vs => .list (vs.map (canonScalar e))
  | .slice _, _ => .list []
  | k, v => canonScalar k v

/-- equal field by field, the Go zero value identified with `.zero` -/
def SameRec : Schema → List Val → List Val → Prop
  | [], [], [] => True
  | f :: s, v :: r, v' :: r' => canon f.kind v = canon f.kind v' ∧ SameRec s r r'
  | _, _, _ => False

/-! ### records that are text -/

/-- one trimmed line: written on the field's own line and read back byte for byte -/
def textLine (d : Bytes) : Bool := Str.trimSpace d = d && !d.contains 10

/-- what a field may render to: one trimmed line; or, for a list whose strip set has the
    newline (so that the newline the reader appends is trimmed away again), any sequence of
    text lines in the sense of C08 (`textValue`) -/
def textField (f : FieldDesc) (d : Bytes) : Bool :=
  textLine d || (isSlice f.kind && f.strip.contains 10 && Spec.Deb822Write.textValue d)

/-- every field has a well-formed name, is not `multiline`, and renders as text -/
def textRec (s : Schema) (r : List Val) : Bool :=
  (s.zip r).all (fun fv => Spec.Deb822.wfName fv.1.key && !fv.1.multiline &&
    match marshalValue 16 fv.1.kind fv.1.delim fv.2 with
    | .ok d => textField fv.1 d
    | .error _ => true)

/-- some named field is written: it is required or its rendering is not empty -/
def someWritten (s : Schema) (r : List Val) : Bool :=
  (s.zip r).any (fun fv => !fv.1.anonymous && fv.1.key != [45] &&
    match marshalValue 16 fv.1.kind fv.1.delim fv.2 with
    | .ok d => fv.1.required || !d.isEmpty
    | .error _ => false)

end GoDebian.Spec.Codec
