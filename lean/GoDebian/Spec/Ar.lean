/-
  Specification side of C13: the ar archive format (global magic, 60-byte member headers
  with left-justified space-padded columns, data padded to even length) as a builder
  from a member-list model, and the view of a member the reader must return.
-/
import GoDebian.Model.Ar

namespace GoDebian.Spec.Ar
open GoDebian

structure Member where
  name      : Bytes
  gnuSlash  : Bool          -- name written as "name/" (GNU ar)
  timestamp : Option Nat    -- none = blank column
  ownerID   : Option Nat
  groupID   : Option Nat
  mode      : Bytes
  data      : Bytes
  deriving DecidableEq, Repr

def padTo (n : Nat) (b : Bytes) : Bytes := b ++ List.replicate (n - b.length) 32

def numCol (n : Nat) : Option Nat → Bytes
  | none => padTo n []
  | some v => padTo n (Str.fmtNat v)

def header (m : Member) : Bytes :=
  padTo 16 (m.name ++ (if m.gnuSlash then [47] else [])) ++ numCol 12 m.timestamp ++ numCol 6 m.ownerID
    ++ numCol 6 m.groupID ++ padTo 8 m.mode ++ padTo 10 (Str.fmtNat m.data.length) ++ [96, 10]

def memberBytes (m : Member) : Bytes :=
  header m ++ m.data ++ (if m.data.length % 2 = 1 then [10] else [])

def build (ms : List Member) : Bytes := Ar.magic ++ (ms.map memberBytes).flatten

/-! ### members too large to write down

A member together with a number `k` of further zero bytes after its data: the archive is
given as runs (`Ar.Seg`), so members of 10^9 bytes and more (a ten-digit size column) are
specified without being materialised.  `Lemmas/ArSparse.lean`: the runs flatten to `build`
of the materialised members. -/

def materialise (mk : Member × Nat) : Member := { mk.1 with data := mk.1.data ++ List.replicate mk.2 0 }

def headerLen (m : Member) (len : Nat) : Bytes :=
  padTo 16 (m.name ++ (if m.gnuSlash then [47] else [])) ++ numCol 12 m.timestamp ++ numCol 6 m.ownerID
    ++ numCol 6 m.groupID ++ padTo 8 m.mode ++ padTo 10 (Str.fmtNat len) ++ [96, 10]

def memberSegs (mk : Member × Nat) : List Ar.Seg :=
  let len := mk.1.data.length + mk.2
  [.lit (headerLen mk.1 len ++ mk.1.data), .zeros mk.2, .lit (if len % 2 = 1 then [10] else [])]

def buildSegs (mks : List (Member × Nat)) : List Ar.Seg := .lit Ar.magic :: (mks.map memberSegs).flatten

/-- columns wide enough, name not ambiguous under trimming (a name that itself ends in '/'
    needs the GNU terminator: the reader removes exactly one trailing '/') -/
def wfMember (m : Member) : Bool :=
  !m.name.isEmpty && (m.name ++ (if m.gnuSlash then [47] else [])).length ≤ 16
  && Str.trimSpace m.name = m.name && (m.gnuSlash || m.name.getLast? != some 47)
  && (Str.fmtNat (m.timestamp.getD 0)).length ≤ 12 && (Str.fmtNat (m.ownerID.getD 0)).length ≤ 6
  && (Str.fmtNat (m.groupID.getD 0)).length ≤ 6 && m.mode.length ≤ 8 && Str.trimSpace m.mode = m.mode
  && (Str.fmtNat m.data.length).length ≤ 10

/-- what iteration must return for member `m` -/
structure View where
  name : Bytes
  timestamp : Int
  ownerID : Int
  groupID : Int
  mode : Bytes
  size : Int
  data : Bytes
  deriving DecidableEq, Repr

def view (m : Member) : View :=
  ⟨m.name, (m.timestamp.getD 0 : Nat), (m.ownerID.getD 0 : Nat), (m.groupID.getD 0 : Nat), m.mode, m.data.length, m.data⟩

def entryView (bs : Bytes) (e : Ar.Entry) : View :=
  ⟨e.name, e.timestamp, e.ownerID, e.groupID, e.fileMode, e.size, Ar.data bs e⟩

end GoDebian.Spec.Ar
