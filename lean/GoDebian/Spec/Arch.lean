/-
  Debian semantics of architecture names and restrictions, as C06 states them.
-/
import GoDebian.Model.Dependency

namespace GoDebian.Spec.Arch
open GoDebian GoDebian.Dep

/-- the atomic architecture `all` -/
def All : Arch := ⟨sAll, sAll, sAll⟩

/-- Architectures denoted by Debian names: the atomic `all`, or a triple none of whose
    components is "all". -/
def Dom (a : Arch) : Prop := a = All ∨ (a.abi ≠ sAll ∧ a.os ≠ sAll ∧ a.cpu ≠ sAll)

/-- A concrete architecture: no component is "all" or "any". -/
def Concrete (a : Arch) : Prop :=
  a.abi ≠ sAll ∧ a.os ≠ sAll ∧ a.cpu ≠ sAll ∧ a.abi ≠ sAny ∧ a.os ≠ sAny ∧ a.cpu ≠ sAny

instance (a : Arch) : Decidable (Dom a) := by unfold Dom; exact inferInstance
instance (a : Arch) : Decidable (Concrete a) := by unfold Concrete; exact inferInstance

/-- a wildcard component is "any" or equals the concrete one -/
def compMatches (pat conc : Bytes) : Bool := pat = sAny || pat = conc

/-- pattern `p` admits the concrete architecture `c` -/
def wildMatches (c p : Arch) : Bool :=
  compMatches p.abi c.abi && compMatches p.os c.os && compMatches p.cpu c.cpu

/-- a bracketed list admits `a` iff (some entry matches) differs from (the list is
    negated); an empty list admits everything -/
def listAdmits (is : Arch → Arch → Bool) (s : ArchSet) (a : Arch) : Bool :=
  s.archs.isEmpty || (s.archs.any (fun el => is el a) != s.neg)

end GoDebian.Spec.Arch
