/-
  What C03 demands of the version parser, read off the property text:
  "[epoch:]upstream[-revision]" — epoch = the digits before the first colon, revision =
  the text after the last hyphen, surrounding white space ignored; a non-numeric,
  negative or oversized epoch, embedded white space, nothing after the colon, a
  non-digit first character and characters outside the Policy alphabets are rejected.
  `verdict s = none` where the text leaves the outcome open (a '+'-signed epoch).
-/
import GoDebian.Model.Version
import GoDebian.Spec.Version

namespace GoDebian.Spec.VersionParse
open GoDebian GoDebian.Version

def isDigit (c : Nat) : Bool := 48 ≤ c && c ≤ 57
def isAlnum (c : Nat) : Bool := isDigit c || (65 ≤ c && c ≤ 90) || (97 ≤ c && c ≤ 122)
/-- Policy 5.6.12: upstream may contain alphanumerics and `. + - ~` (and `:` when an
    epoch is given); the revision alphanumerics and `+ . ~`. -/
def upstreamOK (c : Nat) : Bool := isAlnum c || c = 46 || c = 43 || c = 45 || c = 126 || c = 58
def revisionOK (c : Nat) : Bool := isAlnum c || c = 46 || c = 43 || c = 126

def splitFirst (b : Nat) : Bytes → Option (Bytes × Bytes)
  | [] => none
  | c :: rest => if c = b then some ([], rest) else
      (splitFirst b rest).map (fun (x, y) => (c :: x, y))

def splitLast (b : Nat) (s : Bytes) : Option (Bytes × Bytes) :=
  (splitFirst b s.reverse).map (fun (x, y) => (y.reverse, x.reverse))

inductive Verdict where
  | accept (v : Version)
  | reject
  deriving DecidableEq, Repr

def verdict (s : Bytes) : Option Verdict :=
  let t := Str.trimSpace s
  if t.isEmpty then some .reject else
  if Str.hasSpaceRune t then some .reject else
  let (epochText, body) := match splitFirst 58 t with
    | none => (none, t)
    | some (e, b) => (some e, b)
  let epoch : Option (Option Nat) := match epochText with   -- none = open, some none = reject
    | none => some (some 0)
    | some e =>
      if e.isEmpty then some none
      else if e.all isDigit then
        (if GoDebian.Spec.Version.natVal e < 2^63 then some (some (GoDebian.Spec.Version.natVal e)) else some none)
      else match e with
        | 43 :: _ => none                                     -- "+5:": not covered by the text
        | 45 :: d =>                                          -- "-0:" is not negative (dpkg's strtol accepts it): open
          if !d.isEmpty && d.all (· == 48) then none else some none
        | _ => some none                                      -- non-numeric
  match epoch with
  | none => none
  | some none => some .reject
  | some (some ep) =>
    if body.isEmpty then some .reject else
    let (up, rev) := match splitLast 45 body with
      | none => (body, [])
      | some (u, r) => (u, r)
    match up with
    | [] => some .reject
    | c :: _ =>
      if !isDigit c then some .reject
      else if !(up.all upstreamOK) then some .reject
      else if !(rev.all revisionOK) then some .reject
      else some (.accept ⟨ep, up, rev⟩)

end GoDebian.Spec.VersionParse
