/-
  Specification side of C17: dpkg-format changelog entries as a model, their rendering
  (blank-line runs between entries and a final newline that may be missing are layout
  choices), and the view of an entry that parsing must return.
-/
import GoDebian.Model.Changelog
import GoDebian.Spec.Deb822

namespace GoDebian.Spec.Changelog
open GoDebian GoDebian.Changelog

structure SEntry where
  source   : Bytes
  version  : Version.Version      -- rendered with Version.toString
  dists    : List Bytes           -- one or more distributions, blank separated
  opts     : List (Bytes × Bytes) -- key=value options, ", " separated
  body     : List Bytes           -- change lines (without newline): empty or starting with a blank
  who      : Bytes                -- "Name <mail>"
  date     : Bytes                -- RFC 1123Z text
  deriving Repr

def sp : Bytes := [32]

def renderEntry (e : SEntry) : List Bytes :=
  let header := e.source ++ [32, 40] ++ Version.toString e.version ++ [41, 32] ++ Str.joinWith sp e.dists
      ++ [59, 32] ++ Str.joinWith [44, 32] (e.opts.map (fun (k, v) => k ++ [61] ++ v)) ++ [10]
  let trailer := [32, 45, 45, 32] ++ e.who ++ [32, 32] ++ e.date ++ [10]
  [header, [10]] ++ e.body.map (· ++ [10]) ++ [[10], trailer]

/-- entries separated by 1–3 blank lines (choice stream), optional trailing blank lines,
    final newline present or not -/
def renderAll : List SEntry → Spec.Deb822.Choices → List Bytes
  | [], cs => List.replicate ((Spec.Deb822.pick 3 cs).1) [10]
  | [e], cs => renderEntry e ++ List.replicate ((Spec.Deb822.pick 3 cs).1) [10]
  | e :: rest, cs =>
    let (n, cs) := Spec.Deb822.pick 3 cs
    renderEntry e ++ List.replicate (n + 1) [10] ++ renderAll rest cs

def render (es : List SEntry) (cs : Spec.Deb822.Choices) (finalNewline : Bool) : Bytes :=
  let t := (renderAll es cs).flatten
  if finalNewline then t else t.dropLast

/-- what parsing must return for an entry -/
def view (e : SEntry) : Entry :=
  { source := e.source, version := e.version, target := Str.joinWith sp e.dists,
    arguments := e.opts.foldl (fun m (k, v) => mapInsert k v m) [],
    changelog := ([10] :: e.body.map (· ++ [10]) ++ [[10]]).flatten,
    changedBy := e.who, whenText := e.date }

def plainToken (b : Bytes) (extra : List Nat) : Bool :=
  !b.isEmpty && b.all (fun c => 33 ≤ c && c ≤ 126 && !extra.contains c)

def wfEntry (e : SEntry) : Bool :=
  plainToken e.source [40, 41, 59] &&
  (match Version.parse (Version.toString e.version) with | .ok v => v == e.version | .error _ => false) &&
  !e.dists.isEmpty && e.dists.all (plainToken · [40, 41, 59]) &&
  !e.opts.isEmpty && e.opts.all (fun (k, v) => plainToken k [44, 61] && plainToken v [44, 61]) &&
  e.body.all (fun l => l.isEmpty || (l.head? = some 32 && !Str.hasPrefix l [32, 45, 45, 32] && !l.contains 10
      && Str.trimRightSpace l = l)) &&
  plainToken (e.who.filter (· ≠ 32)) [] && !Str.contains e.who [32, 32] && trim e.who = e.who && !e.who.contains 10 &&
  trim e.date = e.date && !e.date.isEmpty && !e.date.contains 10

end GoDebian.Spec.Changelog
