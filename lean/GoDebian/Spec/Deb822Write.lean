/-
  Specification side of C08: which paragraphs are "sequences of text lines", and what
  "same logical lines" means.
-/
import GoDebian.Model.Deb822
import GoDebian.Spec.Deb822

namespace GoDebian.Spec.Deb822Write
open GoDebian GoDebian.Deb822

/-- logical lines of a value: one trailing newline does not start another line -/
def valueLines (v : Bytes) : List Bytes := Str.split [10] (Str.trimSuffix v [10])

/-- a text line: no trailing white space (so not white-space-only), not the lone dot
    that the format reserves for the empty line -/
def wfLine (l : Bytes) : Bool := Str.trimRightSpace l = l && l != [46]

/-- an empty first line only when it is the whole value (see the recorded finding
    `leading-empty-line` for the excluded case) -/
def noLeadingEmptyLine (v : Bytes) : Bool :=
  match valueLines v with
  | [] => true
  | first :: rest => !first.isEmpty || rest.isEmpty

def textValue (v : Bytes) : Bool :=
  (valueLines v).all wfLine && noLeadingEmptyLine v

/-- a paragraph of text-line values under well-formed, distinct field names, with a
    value for exactly the listed fields -/
def textPara (p : Paragraph) : Bool :=
  Spec.Deb822.nodupNames p.order && p.order.all Spec.Deb822.wfName &&
  p.order.all (fun k => (lookup k p.values).isSome) &&
  p.values.all (fun kv => p.order.contains kv.1) &&
  p.order.all (fun k => textValue (p.get k))

/-- a physical line (terminator included) that is empty or white space only -/
def blankLine (l : Bytes) : Bool := (Str.trimSpace l).isEmpty

/-- paragraphs equal up to one trailing newline per value -/
def sameUpToNewline (p q : Paragraph) : Bool :=
  p.order = q.order && p.order.all (fun k => Str.trimSuffix (p.get k) [10] = Str.trimSuffix (q.get k) [10])

end GoDebian.Spec.Deb822Write
