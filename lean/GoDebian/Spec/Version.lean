/-
  Independent specification of the dpkg / Debian Policy 5.6.12 version order.
  Written from the Policy text, not from the Go loop:

    "First the initial part of each string consisting entirely of non-digit characters
     is determined. These two parts are compared lexically … modified so that all the
     letters sort earlier than all the non-letters and so that a tilde sorts before
     anything, even the end of a part. … Then the initial part of the remainder of each
     string which consists entirely of digit characters is determined. The numerical
     values of these two parts are compared … an empty string counts as zero. These two
     steps are repeated until a difference is found or both strings are exhausted."
-/
import GoDebian.Model.Version

namespace GoDebian.Spec.Version
open GoDebian

def isDigit (c : Nat) : Bool := 48 ≤ c && c ≤ 57
def isLetter (c : Nat) : Bool := (65 ≤ c && c ≤ 90) || (97 ≤ c && c ≤ 122)

/-- Weight of a non-digit character in the modified alphabet; the end of a part
    weighs 0, `~` less than that, letters their ASCII value, everything else more than
    any letter. -/
def weight (c : Nat) : Int :=
  if c = 126 then -1 else if isLetter c then (c : Int) else (c : Int) + 256

def weightAt : List Nat → Int
  | [] => 0
  | c :: _ => weight c

/-- Lexical comparison of two non-digit parts, the shorter padded with "end". -/
def lexCmp : Nat → List Nat → List Nat → Ordering
  | 0, _, _ => .eq
  | n+1, a, b =>
    if a.isEmpty && b.isEmpty then .eq else
    match Ord.compare (weightAt a) (weightAt b) with
    | .eq => lexCmp n a.tail b.tail
    | o => o

/-- Numerical value of a digit string, unbounded; the empty string counts as zero. -/
def natVal (ds : List Nat) : Nat := ds.foldl (fun acc d => acc * 10 + (d - 48)) 0

/-- The order on version components (upstream / revision). -/
def cmpN : Nat → List Nat → List Nat → Ordering
  | 0, _, _ => .eq
  | n+1, a, b =>
    if a.isEmpty && b.isEmpty then .eq else
    let na := a.takeWhile (fun c => !isDigit c)
    let ra := a.dropWhile (fun c => !isDigit c)
    let nb := b.takeWhile (fun c => !isDigit c)
    let rb := b.dropWhile (fun c => !isDigit c)
    match lexCmp (na.length + nb.length + 1) na nb with
    | .eq =>
      let da := ra.takeWhile isDigit
      let db := rb.takeWhile isDigit
      match Ord.compare (natVal da) (natVal db) with
      | .eq => cmpN n (ra.dropWhile isDigit) (rb.dropWhile isDigit)
      | o => o
    | o => o

def cmp (a b : List Nat) : Ordering := cmpN (a.length + b.length + 1) a b

def ordInt : Ordering → Int
  | .lt => -1
  | .eq => 0
  | .gt => 1

/-- Whole versions: epochs numerically, then upstream, then revision. -/
def compare (a b : GoDebian.Version.Version) : Ordering :=
  match Ord.compare a.epoch b.epoch with
  | .eq => match cmp a.upstream b.upstream with
    | .eq => cmp a.revision b.revision
    | o => o
  | o => o

def nulFree (l : List Nat) : Bool := !l.contains 0

end GoDebian.Spec.Version
