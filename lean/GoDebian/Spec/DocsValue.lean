/-
  Specification side of C10, part 2: the bridge from the struct schemas regenerated from
  the Go source (string-typed, `Extracted/Schemas.lean`) to the schema interpreter's
  `Codec.Schema`; the value model of a Debian field (`DocValue`, one constructor per
  `Spec.Docs.Shape`), the text the control-file reader hands to the decoder for it in the
  real Debian layouts (`valueText`, built from the `(first line, continuation lines)` of
  `Spec.Deb822` so that C07 composes), and what the struct field must hold (`view`).
-/
import GoDebian.Model.Codec
import GoDebian.Spec.Docs
import GoDebian.Spec.Deb822
import GoDebian.Spec.Dependency

namespace GoDebian.Spec.DocsValue
open GoDebian GoDebian.Deb822 GoDebian.Codec GoDebian.Extracted.Schemas GoDebian.Spec.Docs
open GoDebian.Spec.Deb822 (expectedValue)

/-! ### Stage 1 — extracted schema → interpreter schema -/

/-- kind strings written by the extractor: "str" "int" "uint" "bool" "para" "cust:<T>"
    "slice:<k>" -/
def toKindL : List Char → Option Kind
  | ['s', 't', 'r'] => some .str
  | ['i', 'n', 't'] => some .int
  | ['u', 'i', 'n', 't'] => some .uint
  | ['b', 'o', 'o', 'l'] => some .bool
  | ['p', 'a', 'r', 'a'] => some .para
  | 'c' :: 'u' :: 's' :: 't' :: ':' :: t => some (.custom (String.ofList t))
  | 's' :: 'l' :: 'i' :: 'c' :: 'e' :: ':' :: k => (toKindL k).map .slice
  | _ => none

def toKind (s : String) : Option Kind := toKindL s.toList

/-- key, delimiter and strip set as UTF-8 bytes; the extractor does not record `multiline`
    (it matters to the encoder only) -/
def toDesc (f : Field) : Option FieldDesc :=
  (toKind f.kind).map fun k =>
    .mk f.name (Bytes.ofString f.key) k (Bytes.ofString f.delim) (Bytes.ofString f.strip)
      f.required false f.anonymous

def toSchema : List Field → Option Schema
  | [] => some []
  | f :: fs =>
    match toDesc f, toSchema fs with
    | some d, some ds => some (d :: ds)
    | _, _ => none

/-- the extracted schema converts (no verdict when the fact is unavailable, as in
    `schemaOK`) -/
def converts (schema : Option (List Field)) : Bool :=
  match schema with
  | none => true
  | some fs => (toSchema fs).isSome

/-! ### Stage 2 — the value model -/

/-- a layout is a stream of choices, as in `Spec.Deb822` (exhausted = 0) -/
abbrev Layout := Spec.Deb822.Choices

/-- a layout given by one number: its binary digits, least significant first -/
def layoutOfNat (n : Nat) : Layout := (List.range (Nat.log2 n + 1)).map (fun i => n / 2 ^ i % 2)

/-- is the next choice odd? -/
def odd (l : Layout) : Bool := l.headD 0 % 2 == 1

/-- an entry of `Files` / `Checksums-*` -/
structure HashEntry where
  hash : Bytes
  size : Int
  name : Bytes
  deriving DecidableEq, Repr

/-- an entry of the `Files` field of a .changes file -/
structure ChangesEntry where
  hash : Bytes
  size : Int
  component : Bytes
  priority : Bytes
  name : Bytes
  deriving DecidableEq, Repr

/-- The model of one field, one constructor per `Shape`.  Versions and architectures are
    given by their source text together with the parse result the view must show; a
    relationship field is given by its grammar tree (`Spec.Dependency.SDep`, the view is
    what it denotes). -/
inductive DocValue where
  | scalar (first : Bytes) (conts : List Bytes)    -- verbatim, any number of lines
  | int (i : Int)
  | bool (b : Bool)
  | version (text : Bytes) (v : Version.Version)
  | arch (text : Bytes) (a : Dep.Arch)
  | archList (items : List (Bytes × Dep.Arch))
  | dep (d : Spec.Dependency.SDep)
  | commaList (items : List Bytes)
  | spaceList (items : List Bytes)
  | hashList (alg : String) (entries : List HashEntry)
  | changesFiles (entries : List ChangesEntry)

def shapeOf : DocValue → Shape
  | .scalar _ _ => .scalar
  | .int _ => .int
  | .bool _ => .bool
  | .version _ _ => .version
  | .arch _ _ => .arch
  | .archList _ => .archList
  | .dep _ => .dep
  | .commaList _ => .commaList
  | .spaceList _ => .spaceList
  | .hashList alg _ => .hashList alg
  | .changesFiles _ => .changesFiles

/-! #### layouts of lists -/

/-- the logical lines of a list whose current line is `cur`: before every further item the
    layout decides (odd choice) to end the line — `eol` is what a line that is continued
    ends with ("," in a comma list) — or to stay on it (`same` between the items) -/
def linesAux (same eol : Bytes) (cur : Bytes) : List Bytes → Layout → List Bytes
  | [], _ => [cur]
  | y :: rest, l =>
    if odd l then (cur ++ eol) :: linesAux same eol y rest l.tail
    else linesAux same eol (cur ++ same ++ y) rest l.tail

def groupLines (same eol : Bytes) : List Bytes → Layout → List Bytes
  | [], _ => []
  | x :: rest, l => linesAux same eol x rest l

/-- the logical lines become the field's own line and its continuation lines: either the
    field's own line is empty and every logical line is a continuation line, or the first
    logical line is on the field's own line -/
def partsOfLines (firstEmpty : Bool) (lines : List Bytes) : Bytes × List Bytes :=
  if firstEmpty then ([], lines) else (lines.headD [], lines.tail)

/-- "hash size name" -/
def hashLine (e : HashEntry) : Bytes := Str.joinWith [32] [e.hash, Str.fmtInt e.size, e.name]

/-- "md5 size section priority name" -/
def changesLine (e : ChangesEntry) : Bytes :=
  Str.joinWith [32] [e.hash, Str.fmtInt e.size, e.component, e.priority, e.name]

def sYes : Bytes := [121, 101, 115]
def sNo : Bytes := [110, 111]

/-- The field's own line and its logical continuation lines (`Spec.Deb822.Field.first` /
    `.conts`).  Lists: the first choice of the layout decides whether the field's own line
    stays empty, each further choice whether the line ends after the next item (all even =
    everything on one line, all odd = one item per line); hash lists have one entry per
    line.  A relationship field is rendered by `Spec.Dependency.render`, which covers every
    legal spacing — among them every folded form as the reader returns it (lines joined
    and terminated by "\n") — and is kept as one text. -/
def partsOf : DocValue → Layout → Bytes × List Bytes
  | .scalar f cs, _ => (f, cs)
  | .int i, _ => (Str.fmtInt i, [])
  | .bool b, _ => (if b then sYes else sNo, [])
  | .version t _, _ => (t, [])
  | .arch t _, _ => (t, [])
  | .dep d, l => (Spec.Dependency.render d l, [])
  | .archList items, l => partsOfLines (odd l) (groupLines [32] [] (items.map (·.1)) l.tail)
  | .spaceList items, l => partsOfLines (odd l) (groupLines [32] [] items l.tail)
  | .commaList items, l => partsOfLines (odd l) (groupLines [44, 32] [44] items l.tail)
  | .hashList _ es, l => partsOfLines (odd l) (es.map hashLine)
  | .changesFiles es, l => partsOfLines (odd l) (es.map changesLine)

/-- the field as `Spec.Deb822` renders it in every physical layout -/
def fieldOf (name : Bytes) (v : DocValue) (l : Layout) : Spec.Deb822.Field :=
  ⟨name, (partsOf v l).1, (partsOf v l).2⟩

/-- the value the reader returns for the field (C07: `expectedValue`) -/
def valueText (v : DocValue) (l : Layout) : Bytes := expectedValue (fieldOf [] v l)

/-! #### the view -/

/-- a nil slice stays nil -/
def listVal : List Val → Val
  | [] => .zero
  | vs => .list vs

def byHashOf (alg : String) : Bytes :=
  if alg = "sha256" then [83, 72, 65, 50, 53, 54]
  else if alg = "sha512" then [83, 72, 65, 53, 49, 50] else []

def hashView (alg : String) (e : HashEntry) : Val :=
  .custom (.hash { alg := Bytes.ofString alg, hash := e.hash, size := e.size, filename := e.name,
                   byHash := byHashOf alg })

def changesView (e : ChangesEntry) : Val :=
  .custom (.hash { alg := sMd5, hash := e.hash, size := e.size, filename := e.name, byHash := [],
                   component := e.component, priority := e.priority })

/-- what the struct field must hold -/
def view : DocValue → Val
  | .scalar f cs => .str (expectedValue ⟨[], f, cs⟩)
  | .int i => .int i
  | .bool b => .bool b
  | .version _ v => .custom (.version v)
  | .arch _ a => .custom (.arch a)
  | .archList items => listVal (items.map (fun x => .custom (.arch x.2)))
  | .dep d => .custom (.dep (Spec.Dependency.denote d))
  | .commaList items => listVal (items.map .str)
  | .spaceList items => listVal (items.map .str)
  | .hashList alg es => listVal (es.map (hashView alg))
  | .changesFiles es => listVal (es.map changesView)

/-! #### well-formed values -/

/-- a white-space separated token: not empty, no white-space rune -/
def wfWord (b : Bytes) : Bool := !b.isEmpty && !Str.hasSpaceRune b

/-- an element of a comma separated list: not empty, trimmed, free of the comma and of
    line terminators (blanks inside are fine: "A B <a@b>") -/
def wfItem (b : Bytes) : Bool :=
  !b.isEmpty && Spec.Deb822.trimmed b && !b.contains 44 && !b.contains 10 && !b.contains 13

def int64 (i : Int) : Prop := -(2^63 : Int) ≤ i ∧ i < 2^63

def knownAlg (alg : String) : Prop := alg = "md5" ∨ alg = "sha1" ∨ alg = "sha256" ∨ alg = "sha512"

/-- Scalars are arbitrary; integers are in the int64 range; a version / architecture text
    parses to the given value; list items are well-formed tokens; a relationship field is
    a well-formed grammar tree (C04's `wfDep`); hash entries have non-blank hash and name
    tokens and an int64 size, the algorithm is one of the four of `hashio`. -/
def wfValue : DocValue → Prop
  | .scalar _ _ => True
  | .int i => int64 i
  | .bool _ => True
  | .version t v => Version.parse t = .ok v
  | .arch t a => Dep.parseArch t = .ok a
  | .archList items => ∀ x ∈ items, wfWord x.1 = true ∧ Dep.parseArch x.1 = .ok x.2
  | .dep d => Spec.Dependency.wfDep d = true
  | .commaList items => ∀ x ∈ items, wfItem x = true
  | .spaceList items => ∀ x ∈ items, wfWord x = true
  | .hashList alg es => knownAlg alg ∧
      ∀ e ∈ es, wfWord e.hash = true ∧ wfWord e.name = true ∧ int64 e.size
  | .changesFiles es =>
      ∀ e ∈ es, wfWord e.hash = true ∧ wfWord e.name = true ∧ wfWord e.component = true ∧
        wfWord e.priority = true ∧ int64 e.size

/-! #### what the theorem needs of the strip set -/

def isWs (c : Nat) : Bool := c == 9 || c == 10 || c == 13 || c == 32

/-- The strip set (as bytes) consists of blank, tab, CR, LF only — list elements lose
    nothing but white space — and has the newline and the blank where the layout puts
    them around elements (after the comma, at the end of a folded value). -/
def stripFits (sh : Shape) (strip : Bytes) : Bool :=
  strip.all isWs &&
  match sh with
  | .commaList | .hashList _ | .changesFiles => strip.contains 10 && strip.contains 32
  | _ => true

/-! ### Stage 3 — documents -/

/-- the model of a document: for a Debian field name, its value and layout, or absent -/
abbrev DocModel := String → Option (DocValue × Layout)

/-- present fields have the shape the table demands and are well-formed -/
def wfModel (spec : List Req) (m : DocModel) : Prop :=
  ∀ r ∈ spec, ∀ v l, m r.deb = some (v, l) → shapeOf v = r.shape ∧ wfValue v

def inTable (spec : List Req) (key : String) : Bool := spec.any (·.deb == key)

/-- The paragraph carries the model: for every key a struct field claims, the paragraph
    has the model's text when the table lists the key and the model has the field, and
    nothing otherwise (so: no "Paragraph" key for the embedded Paragraph, no "Filename").
    Keys no struct field claims are unconstrained. -/
def Carries (spec : List Req) (fs : List Field) (m : DocModel) (p : Paragraph) : Prop :=
  ∀ f ∈ fs, lookup (Bytes.ofString f.key) p.values =
    if inTable spec f.key then (m f.key).map (fun vl => valueText vl.1 vl.2) else none

/-- what a struct field holds after decoding: the embedded Paragraph is the paragraph
    itself, a field of the table its view (the zero value when absent), anything else
    is untouched -/
def fieldVal (spec : List Req) (m : DocModel) (p : Paragraph) (f : Field) : Val :=
  if f.anonymous then
    (match toKind f.kind with
     | some .para => .para p
     | _ => .zero)
  else if inTable spec f.key then
    (match m f.key with
     | some (v, _) => view v
     | none => .zero)
  else .zero

/-- side conditions on a struct schema, decidable and checked on the regenerated schemas:
    it converts, is shorter than the decoder's fuel, has no skipped ("-") key, its
    required fields are in the table, and every field of the table has a strip set that
    fits its shape -/
def docFits (spec : List Req) (schema : Option (List Field)) : Bool :=
  match schema with
  | none => true
  | some fs =>
    (toSchema fs).isSome && decide (fs.length < 100000) &&
    fs.all (fun f => Bytes.ofString f.key != [45] && (!f.required || inTable spec f.key)) &&
    spec.all (fun r => fs.all (fun f => !fieldOK r f || stripFits r.shape (Bytes.ofString f.strip)))

end GoDebian.Spec.DocsValue
