/-
  Specification side of C10: which field of each Debian document kind must land in which
  struct field, with which shape (written from Policy 5, dsc(5), deb-changes(5),
  deb-src-control(5) and the apt index formats — independently of the struct tags), and
  the decidable relation `schemaOK` between such a table and a struct schema regenerated
  from the Go source.
-/
import GoDebian.Extracted.Schemas

namespace GoDebian.Spec.Docs
open GoDebian.Extracted.Schemas

inductive Shape where
  | scalar | int | bool | version | arch
  | archList                 -- blank separated, may be folded
  | dep
  | commaList                -- comma separated, elements trimmed, may be folded
  | spaceList                -- blank separated, may be folded
  | hashList (alg : String)  -- one "hash size name" entry per continuation line
  | changesFiles             -- "md5 size section priority name" per line
  deriving DecidableEq, Repr

structure Req where
  deb   : String     -- field name in the file
  go    : String     -- struct field that must hold it
  shape : Shape
  deriving DecidableEq, Repr

def hashType (alg : String) : String :=
  match alg with
  | "md5" => "MD5FileHash" | "sha1" => "SHA1FileHash" | "sha256" => "SHA256FileHash" | "sha512" => "SHA512FileHash" | _ => "?"

def foldStrip (s : String) : Bool :=
  let l := s.toList
  l.contains '\n' && l.contains ' ' && l.contains '\t' && l.contains '\r'

/-- does struct field `f` decode Debian field `r` the way its shape demands? -/
def fieldOK (r : Req) (f : Field) : Bool :=
  f.name == r.go && f.key == r.deb && !f.anonymous &&
  match r.shape with
  | .scalar => f.kind == "str"
  | .int => f.kind == "int"
  | .bool => f.kind == "bool"
  | .version => f.kind == "cust:Version"
  | .arch => f.kind == "cust:Arch"
  | .dep => f.kind == "cust:Dependency"
  | .archList => f.kind == "slice:cust:Arch" && (f.delim == "" || f.delim == " ")        -- blank ⇒ any white space separates
  | .spaceList => f.kind == "slice:str" && (f.delim == "" || f.delim == " ")
  | .commaList => f.kind == "slice:str" && f.delim == "," && foldStrip f.strip
  | .hashList alg => f.kind == "slice:cust:" ++ hashType alg && f.delim == "\n" && foldStrip f.strip
  | .changesFiles => f.kind == "slice:cust:FileListChangesFileHash" && f.delim == "\n" && foldStrip f.strip

/-- every Debian field of the table has exactly one struct field with its key, and that
    field decodes it with the right shape -/
def schemaOK (spec : List Req) (schema : Option (List Field)) : Bool :=
  match schema with
  | none => true            -- fact unavailable: reported, stream escalated, no verdict here
  | some fs => spec.all (fun r => (fs.filter (fun f => f.key == r.deb)).length == 1 && fs.any (fieldOK r))

def dsc : List Req := [
  ⟨"Format", "Format", .scalar⟩,
  ⟨"Source", "Source", .scalar⟩,
  ⟨"Binary", "Binaries", .commaList⟩,
  ⟨"Architecture", "Architectures", .archList⟩,
  ⟨"Version", "Version", .version⟩,
  ⟨"Origin", "Origin", .scalar⟩,
  ⟨"Maintainer", "Maintainer", .scalar⟩,
  ⟨"Uploaders", "Uploaders", .commaList⟩,
  ⟨"Homepage", "Homepage", .scalar⟩,
  ⟨"Standards-Version", "StandardsVersion", .scalar⟩,
  ⟨"Build-Depends", "BuildDepends", .dep⟩,
  ⟨"Build-Depends-Arch", "BuildDependsArch", .dep⟩,
  ⟨"Build-Depends-Indep", "BuildDependsIndep", .dep⟩,
  ⟨"Checksums-Sha1", "ChecksumsSha1", (.hashList "sha1")⟩,
  ⟨"Checksums-Sha256", "ChecksumsSha256", (.hashList "sha256")⟩,
  ⟨"Files", "Files", (.hashList "md5")⟩]

def changes : List Req := [
  ⟨"Format", "Format", .scalar⟩,
  ⟨"Source", "Source", .scalar⟩,
  ⟨"Binary", "Binaries", .spaceList⟩,
  ⟨"Architecture", "Architectures", .archList⟩,
  ⟨"Version", "Version", .version⟩,
  ⟨"Origin", "Origin", .scalar⟩,
  ⟨"Distribution", "Distribution", .scalar⟩,
  ⟨"Urgency", "Urgency", .scalar⟩,
  ⟨"Maintainer", "Maintainer", .scalar⟩,
  ⟨"Changed-By", "ChangedBy", .scalar⟩,
  ⟨"Closes", "Closes", .spaceList⟩,
  ⟨"Changes", "Changes", .scalar⟩,
  ⟨"Checksums-Sha1", "ChecksumsSha1", (.hashList "sha1")⟩,
  ⟨"Checksums-Sha256", "ChecksumsSha256", (.hashList "sha256")⟩,
  ⟨"Files", "Files", .changesFiles⟩]

def sourceParagraph : List Req := [
  ⟨"Source", "Source", .scalar⟩,
  ⟨"Maintainer", "Maintainer", .scalar⟩,
  ⟨"Uploaders", "Uploaders", .commaList⟩,
  ⟨"Priority", "Priority", .scalar⟩,
  ⟨"Section", "Section", .scalar⟩,
  ⟨"Build-Depends", "BuildDepends", .dep⟩,
  ⟨"Build-Depends-Indep", "BuildDependsIndep", .dep⟩,
  ⟨"Build-Conflicts", "BuildConflicts", .dep⟩,
  ⟨"Build-Conflicts-Indep", "BuildConflictsIndep", .dep⟩]

def binaryParagraph : List Req := [
  ⟨"Package", "Package", .scalar⟩,
  ⟨"Architecture", "Architectures", .archList⟩,
  ⟨"Priority", "Priority", .scalar⟩,
  ⟨"Section", "Section", .scalar⟩,
  ⟨"Essential", "Essential", .bool⟩,
  ⟨"Description", "Description", .scalar⟩,
  ⟨"Depends", "Depends", .dep⟩,
  ⟨"Recommends", "Recommends", .dep⟩,
  ⟨"Suggests", "Suggests", .dep⟩,
  ⟨"Enhances", "Enhances", .dep⟩,
  ⟨"Pre-Depends", "PreDepends", .dep⟩,
  ⟨"Breaks", "Breaks", .dep⟩,
  ⟨"Conflicts", "Conflicts", .dep⟩,
  ⟨"Replaces", "Replaces", .dep⟩,
  ⟨"Built-Using", "BuiltUsing", .dep⟩]

def binaryIndex : List Req := [
  ⟨"Package", "Package", .scalar⟩,
  ⟨"Source", "Source", .scalar⟩,
  ⟨"Version", "Version", .version⟩,
  ⟨"Installed-Size", "InstalledSize", .int⟩,
  ⟨"Maintainer", "Maintainer", .scalar⟩,
  ⟨"Architecture", "Architecture", .arch⟩,
  ⟨"Multi-Arch", "MultiArch", .scalar⟩,
  ⟨"Description", "Description", .scalar⟩,
  ⟨"Homepage", "Homepage", .scalar⟩,
  ⟨"Description-md5", "DescriptionMD5", .scalar⟩,
  ⟨"Tag", "Tags", .commaList⟩,
  ⟨"Section", "Section", .scalar⟩,
  ⟨"Priority", "Priority", .scalar⟩,
  ⟨"Filename", "Filename", .scalar⟩,
  ⟨"Size", "Size", .int⟩,
  ⟨"MD5sum", "MD5sum", .scalar⟩,
  ⟨"SHA1", "SHA1", .scalar⟩,
  ⟨"SHA256", "SHA256", .scalar⟩,
  ⟨"Build-Ids", "DebugBuildIds", .spaceList⟩]

def sourceIndex : List Req := [
  ⟨"Package", "Package", .scalar⟩,
  ⟨"Binary", "Binaries", .commaList⟩,
  ⟨"Version", "Version", .version⟩,
  ⟨"Maintainer", "Maintainer", .scalar⟩,
  ⟨"Uploaders", "Uploaders", .scalar⟩,
  ⟨"Architecture", "Architecture", .archList⟩,
  ⟨"Standards-Version", "StandardsVersion", .scalar⟩,
  ⟨"Format", "Format", .scalar⟩,
  ⟨"Files", "Files", (.hashList "md5")⟩,
  ⟨"Vcs-Browser", "VcsBrowser", .scalar⟩,
  ⟨"Vcs-Git", "VcsGit", .scalar⟩,
  ⟨"Checksums-Sha1", "ChecksumsSha1", (.hashList "sha1")⟩,
  ⟨"Checksums-Sha256", "ChecksumsSha256", (.hashList "sha256")⟩,
  ⟨"Homepage", "Homepage", .scalar⟩,
  ⟨"Directory", "Directory", .scalar⟩,
  ⟨"Priority", "Priority", .scalar⟩,
  ⟨"Section", "Section", .scalar⟩]

def bestChecksums : List Req := [
  ⟨"Checksums-Sha256", "ChecksumsSha256", (.hashList "sha256")⟩,
  ⟨"Checksums-Sha512", "ChecksumsSha512", (.hashList "sha512")⟩]

def debControl : List Req := [
  ⟨"Package", "Package", .scalar⟩,
  ⟨"Source", "Source", .scalar⟩,
  ⟨"Version", "Version", .version⟩,
  ⟨"Architecture", "Architecture", .arch⟩,
  ⟨"Maintainer", "Maintainer", .scalar⟩,
  ⟨"Installed-Size", "InstalledSize", .int⟩,
  ⟨"Multi-Arch", "MultiArch", .scalar⟩,
  ⟨"Depends", "Depends", .dep⟩,
  ⟨"Recommends", "Recommends", .dep⟩,
  ⟨"Suggests", "Suggests", .dep⟩,
  ⟨"Breaks", "Breaks", .dep⟩,
  ⟨"Replaces", "Replaces", .dep⟩,
  ⟨"Built-Using", "BuiltUsing", .dep⟩,
  ⟨"Section", "Section", .scalar⟩,
  ⟨"Priority", "Priority", .scalar⟩,
  ⟨"Homepage", "Homepage", .scalar⟩,
  ⟨"Description", "Description", .scalar⟩]

/-- required fields of the .deb control file -/
def debControlRequired : List String := ["Package", "Version", "Architecture"]

end GoDebian.Spec.Docs
