/-
  Specification side of C04: the Policy grammar of relationship fields as an AST, its
  renderings under every legal spacing and clause order (driven by a choice stream, as
  in Spec/Deb822.lean), and the structure each field denotes.
-/
import GoDebian.Model.Dependency
import GoDebian.Spec.Deb822

namespace GoDebian.Spec.Dependency
open GoDebian GoDebian.Dep
open GoDebian.Spec.Deb822 (Choices pick)

structure SPoss where
  substvar : Bool
  name     : Bytes
  qual     : Option Bytes                   -- ":arch" qualifier (architecture name)
  version  : Option (Bytes × Bytes)         -- (operator, version text)
  neg      : Bool
  archs    : List Bytes                     -- architecture names of the [...] list
  stages   : List (List (Bool × Bytes))     -- <...> groups: (negated, profile name)
  deriving DecidableEq, Repr

abbrev SRel := List SPoss
abbrev SDep := List SRel

/-! ### what a field denotes -/

def denoteArch (n : Bytes) : Arch :=
  match parseArch n with | .ok a => a | .error _ => ⟨[], [], []⟩

def denotePoss (p : SPoss) : Possibility :=
  if p.substvar then ⟨p.name, none, none, [], none, true⟩ else
  { name := p.name, arch := p.qual.map denoteArch,
    archs := some ⟨if p.archs.isEmpty then false else p.neg, p.archs.map denoteArch⟩,
    stageSets := p.stages.map (·.map (fun (n, s) => ⟨n, s⟩)),
    version := p.version.map (fun (op, num) => ⟨num, op⟩), substvar := false }

def denote (d : SDep) : Dependency := d.map (·.map denotePoss)

/-! ### rendering -/

/-- legal white space: blanks, tabs, CR, LF (folded fields) -/
def ws (atLeastOne : Bool) (cs : Choices) : Bytes × Choices :=
  let (c, cs) := pick 7 cs
  let w : Bytes := match c with
    | 0 => [] | 1 => [32] | 2 => [9] | 3 => [10, 32] | 4 => [32, 32] | 5 => [13, 10, 9] | _ => [10]
  (if atLeastOne && w.isEmpty then [32] else w, cs)

def renderList (items : List Bytes) (cs : Choices) : Bytes × Choices :=
  items.foldl (fun (acc : Bytes × Choices × Bool) it =>
    let (out, cs, first) := acc
    if first then (out ++ it, cs, false) else
      let (w, cs) := ws true cs
      (out ++ w ++ it, cs, false)) ([], cs, true) |> fun (o, cs, _) => (o, cs)

def renderVersion (op num : Bytes) (cs : Choices) : Bytes × Choices :=
  let (w1, cs) := ws false cs
  let (w2, cs) := ws false cs
  let (w3, cs) := ws false cs
  ([40] ++ w1 ++ op ++ w2 ++ num ++ w3 ++ [41], cs)

def renderArchs (neg : Bool) (archs : List Bytes) (cs : Choices) : Bytes × Choices :=
  let (w1, cs) := ws false cs
  let (body, cs) := renderList (archs.map (fun a => (if neg then [33] else []) ++ a)) cs
  let (w2, cs) := ws false cs
  ([91] ++ w1 ++ body ++ w2 ++ [93], cs)

def renderStages (g : List (Bool × Bytes)) (cs : Choices) : Bytes × Choices :=
  let (w1, cs) := ws false cs
  let (body, cs) := renderList (g.map (fun (n, s) => (if n then [33] else []) ++ s)) cs
  let (w2, cs) := ws false cs
  ([60] ++ w1 ++ body ++ w2 ++ [62], cs)

inductive Clause where
  | version (op num : Bytes)
  | archs (neg : Bool) (as : List Bytes)
  | stages (g : List (Bool × Bytes))

/-- interleave the version / architecture clauses (either order) with the profile
    groups (which keep their relative order) -/
def interleave : Nat → List Clause → List Clause → Choices → List Clause × Choices
  | 0, a, b, cs => (a ++ b, cs)
  | _, [], b, cs => (b, cs)
  | _, a, [], cs => (a, cs)
  | n+1, x :: a, y :: b, cs =>
    let (c, cs) := pick 2 cs
    if c = 0 then
      let (r, cs) := interleave n a (y :: b) cs
      (x :: r, cs)
    else
      let (r, cs) := interleave n (x :: a) b cs
      (y :: r, cs)

def renderClause (c : Clause) (cs : Choices) : Bytes × Choices :=
  match c with
  | .version op num =>
    let (w, cs) := ws false cs           -- "(" may abut the name
    let (t, cs) := renderVersion op num cs
    (w ++ t, cs)
  | .archs neg as =>
    let (w, cs) := ws true cs            -- "[" and "<" need white space before them
    let (t, cs) := renderArchs neg as cs
    (w ++ t, cs)
  | .stages g =>
    let (w, cs) := ws true cs
    let (t, cs) := renderStages g cs
    (w ++ t, cs)

def renderPoss (p : SPoss) (cs : Choices) : Bytes × Choices :=
  if p.substvar then ([36, 123] ++ p.name ++ [125], cs) else
  let head := p.name ++ (match p.qual with | some q => [58] ++ q | none => [])
  let va : List Clause := (match p.version with | some (op, num) => [Clause.version op num] | none => [])
  let ar : List Clause := (if p.archs.isEmpty then [] else [Clause.archs p.neg p.archs])
  let (swap, cs) := pick 2 cs
  let fixed := if swap = 0 then va ++ ar else ar ++ va
  let (clauses, cs) := interleave (fixed.length + p.stages.length) fixed (p.stages.map Clause.stages) cs
  clauses.foldl (fun (acc : Bytes × Choices) c =>
    let (t, cs) := renderClause c acc.2
    (acc.1 ++ t, cs)) (head, cs)

def renderSep (sep : Nat) (cs : Choices) : Bytes × Choices :=
  let (w1, cs) := ws false cs
  let (w2, cs) := ws false cs
  (w1 ++ [sep] ++ w2, cs)

def renderRel (r : SRel) (cs : Choices) : Bytes × Choices :=
  r.foldl (fun (acc : Bytes × Choices × Bool) p =>
    let (out, cs, first) := acc
    if first then
      let (t, cs) := renderPoss p cs
      (out ++ t, cs, false)
    else
      let (s, cs) := renderSep 124 cs
      let (t, cs) := renderPoss p cs
      (out ++ s ++ t, cs, false)) ([], cs, true) |> fun (o, cs, _) => (o, cs)

def render (d : SDep) (cs : Choices) : Bytes :=
  let (lead, cs) := ws false cs
  let (body, cs, _) := d.foldl (fun (acc : Bytes × Choices × Bool) r =>
    let (out, cs, first) := acc
    if first then
      let (t, cs) := renderRel r cs
      (out ++ t, cs, false)
    else
      let (s, cs) := renderSep 44 cs
      let (t, cs) := renderRel r cs
      (out ++ s ++ t, cs, false)) ([], cs, true)
  let (trail, _) := ws false cs
  lead ++ body ++ trail

/-! ### well-formedness -/

/-- printable, non-blank bytes other than the ones the grammar reserves -/
def token (extra : List Nat) (b : Bytes) : Bool :=
  !b.isEmpty && b.all (fun c => 33 ≤ c && c ≤ 126 && !extra.contains c)

def reserved : List Nat := [40, 41, 44, 124, 58, 91, 93, 60, 62, 33, 36, 123, 125, 61]   -- ( ) , | : [ ] < > ! $ { } =

def wfPoss (p : SPoss) : Bool :=
  if p.substvar then token [125] p.name && p.qual.isNone && p.version.isNone && p.archs.isEmpty && p.stages.isEmpty else
  token reserved p.name &&
  (match p.qual with | some q => token reserved q | none => true) &&
  (match p.version with
   | some (op, num) => (op = opGE || op = opLE || op = opGT || op = opLT || op = opEQ) && token [41] num
   | none => true) &&
  p.archs.all (token reserved) &&
  p.stages.all (fun g => !g.isEmpty && g.all (fun (_, s) => token reserved s))

def wfDep (d : SDep) : Bool := d.all (fun r => !r.isEmpty && r.all wfPoss)

end GoDebian.Spec.Dependency
