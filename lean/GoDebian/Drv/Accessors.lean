import GoDebian.Drv.Util
import GoDebian.Drv.Base
import GoDebian.Drv.Dependency
import GoDebian.Model.Accessors

namespace GoDebian.Drv
open GoDebian GoDebian.Acc

/-- `n` hex-encoded strings, then the rest -/
def readHexList : Nat → List String → Option (List Bytes × List String)
  | 0, ts => some ([], ts)
  | n+1, t :: ts => do
      let b ← hx t
      let (rest, ts) ← readHexList n ts
      pure (b :: rest, ts)
  | _, [] => none

def readHashes (alg : Bytes) : Nat → List String → Option (List Hash × List String)
  | 0, ts => some ([], ts)
  | n+1, h :: sz :: nm :: ts => do
      let h ← hx h
      let sz ← sz.toInt?
      let nm ← hx nm
      let (rest, ts) ← readHashes alg n ts
      pure (⟨alg, h, sz, nm⟩ :: rest, ts)
  | _, _ => none

def dumpHash (h : Hash) : String := s!"{out h.algorithm}:{out h.hash}:{h.size}:{out h.filename}"

def accessorsHandler : Handler
  | "acc-maint", m :: n :: ts => do
      let m ← hx m
      let (us, _) ← readHexList (← n.toNat?) ts
      pure (dumpList (maintainers m us))
  | "acc-archall", n :: ts => do
      let (names, _) ← readHexList (← n.toNat?) ts
      pure (match names.mapM Dep.parseArch with
        | .ok archs => bool01 (hasArchAll archs)
        | .error _ => "err")
  | "acc-debsrc", n :: ts => do
      let (files, _) ← readHexList (← n.toNat?) ts
      pure (showRes out (debianSource files))
  | "acc-srcname", [p, s] => do pure (out (sourceName (← hx p) (← hx s)))
  | "acc-srcpkg", [p, s] => do pure (out (sourcePackage (← hx p) (← hx s)))
  | "acc-best", n :: ts => do
      let (a, ts) ← readHashes (Bytes.ofString "sha256") (← n.toNat?) ts
      match ts with
      | m :: ts =>
        let (b, _) ← readHashes (Bytes.ofString "sha512") (← m.toNat?) ts
        pure (if a.isEmpty && b.isEmpty then "nil"
              else "[" ++ String.intercalate "," ((bestChecksums a b).map dumpHash) ++ "]")
      | [] => none
  | "acc-optdep", [present, field, text] => do
      let field ← hx field
      let text ← hx text
      let p : Deb822.Paragraph := if present == "1" then Deb822.empty.set field text else Deb822.empty
      pure (dumpDep (optionalDependency p field))
  | "acc-absfiles", filename :: n :: ts => do
      let filename ← hx filename
      let (names, _) ← readHexList (← n.toNat?) ts
      pure (dumpList (absFiles filename names))
  | "acc-byhash", [path, bh, h] => do pure (out (byHashPath (← hx path) (← hx bh) (← hx h)))
  | "acc-abs", [cwd, p] => do pure (out (abs (← hx cwd) (← hx p)))
  | "acc-getdsc", cwd :: filename :: n :: ts => do
      let cwd ← hx cwd
      let filename ← hx filename
      let (names, _) ← readHexList (← n.toNat?) ts
      pure (showRes out (getDSCPath cwd filename names))
  | _, _ => none

end GoDebian.Drv
