import GoDebian.Drv.Util
import GoDebian.Drv.Deb822
import GoDebian.Model.Clearsign

namespace GoDebian.Drv
open GoDebian

def readOptBytes : String → Option (Option Bytes)
  | "N" => some none
  | s => if s.startsWith "D" then (hx (s.drop 1).toString).map some else none

def clearsignHandler : Handler
  -- clearsig <input> <krmode nil|kr> <keyring (ignored)> <decoded N|D<hex>> <verified N|D<hex id>>
  | "clearsig", [input, krmode, _kr, dec, ver] => do
      let input ← hx input
      let dec ← readOptBytes dec
      let ver ← readOptBytes ver
      pure (showRes (fun (ps, s) => dumpParas ps ++ " signer=" ++ (match s with | some i => out i | none => "none"))
        (Clearsign.readAll input (krmode == "kr") dec ver))
  | _, _ => none

end GoDebian.Drv
