import GoDebian.Drv.Util
import GoDebian.Base.Str
import GoDebian.Base.Path

namespace GoDebian.Drv
open GoDebian

def dumpList (l : List Bytes) : String := "[" ++ String.intercalate "," (l.map out) ++ "]"

/-- direct ties of the Go string / strconv / path primitives re-implemented in Base/ -/
def baseHandler : Handler
  | "base-trimspace", [s] => do pure (out (Str.trimSpace (← hx s)))
  | "base-trimright", [s] => do pure (out (Str.trimRightSpace (← hx s)))
  | "base-trimleft", [s] => do pure (out (Str.trimLeftSpace (← hx s)))
  | "base-hasspace", [s] => do pure (bool01 (Str.hasSpaceRune (← hx s)))
  | "base-fields", [s] => do pure (dumpList (Str.fields (← hx s)))
  | "base-split", [sep, s] => do pure (dumpList (Str.split (← hx sep) (← hx s)))
  | "base-splitn", [sep, n, s] => do pure (dumpList (Str.splitN (← hx sep) (← n.toNat?) (← hx s)))
  | "base-trim", [cut, s] => do pure (out (Str.trimSet (← hx cut) (← hx s)))
  | "base-trimsuffix", [suf, s] => do pure (out (Str.trimSuffix (← hx s) (← hx suf)))
  | "base-index", [sub, s] => do
      pure (match Str.indexOf (← hx sub) (← hx s) with | some k => toString k | none => "-1")
  | "base-lastindex", [b, s] => do
      let b ← hx b
      let s ← hx s
      pure (match b with
        | [c] => (match Str.lastIndexByte c s with | some k => toString k | none => "-1")
        | _ => "bad-op")
  | "base-replace", [old, new, s] => do pure (out (Str.replaceAll (← hx old) (← hx new) (← hx s)))
  | "base-parseint", [s] => do
      pure (match Str.parseInt64 (← hx s) with | some i => toString i | none => "err")
  | "base-itoa", [n] => do pure (out (Str.fmtInt (← n.toInt?)))
  | "base-clean", [s] => do pure (out (Path.clean (← hx s)))
  | "base-join", [a, b] => do pure (out (Path.join (← hx a) (← hx b)))
  | "base-pathbase", [s] => do pure (out (Path.base (← hx s)))
  | "base-dir", [s] => do pure (out (Path.dir (← hx s)))
  | "base-ext", [s] => do pure (out (Path.ext (← hx s)))
  | _, _ => none

end GoDebian.Drv
