import GoDebian.Drv.Util
import GoDebian.Drv.Version
import GoDebian.Model.Dependency

namespace GoDebian.Drv
open GoDebian GoDebian.Dep

def sepBy (sep : String) (xs : List String) : String := String.intercalate sep xs

def dumpArch (a : Arch) : String := s!"{out a.abi}.{out a.os}.{out a.cpu}"
def dumpArchOpt : Option Arch → String
  | none => "~"
  | some a => dumpArch a
def dumpArchSet : Option ArchSet → String
  | none => "~"
  | some s => (if s.neg then "!" else "") ++ "[" ++ sepBy "+" (s.archs.map dumpArch) ++ "]"
def dumpStage (s : Stage) : String := (if s.neg then "!" else "") ++ out s.name
def dumpStageSets (ss : List (List Stage)) : String :=
  "<" ++ sepBy "/" (ss.map (fun s => sepBy "+" (s.map dumpStage))) ++ ">"
def dumpVersionRel : Option VersionRelation → String
  | none => "~"
  | some v => s!"{out v.op}.{out v.number}"
def dumpPoss (p : Possibility) : String :=
  sepBy ":" [out p.name, dumpArchOpt p.arch, dumpArchSet p.archs, dumpStageSets p.stageSets,
             dumpVersionRel p.version, bool01 p.substvar]
def dumpRel (r : Relation) : String := "(" ++ sepBy "|" (r.map dumpPoss) ++ ")"
def dumpDep (d : Dependency) : String := "{" ++ sepBy "," (d.map dumpRel) ++ "}"

def readArch (a o c : String) : Option Arch := do
  pure ⟨← hx a, ← hx o, ← hx c⟩

def readArchs : Nat → List String → Option (List Arch × List String)
  | 0, rest => some ([], rest)
  | n+1, a :: o :: c :: rest => do
      let x ← readArch a o c
      let (xs, rest') ← readArchs n rest
      pure (x :: xs, rest')
  | _, _ => none

def dependencyHandler : Handler
  | "depparse", [s] => do
      let s ← hx s
      pure (showRes dumpDep (Dep.parse s))
  | "deprt", [s] => do
      let s ← hx s
      pure (match Dep.parse s with
        | .ok d => "ok " ++ out (Dep.render d) ++ " " ++ showRes dumpDep (Dep.parse (Dep.render d))
        | .error e => showRes dumpDep (.error e))
  | "archparse", [s] => do
      let s ← hx s
      pure (showRes dumpArch (Dep.parseArch s))
  | "archrt", [s] => do
      let s ← hx s
      pure (match Dep.parseArch s with
        | .ok a => "ok " ++ dumpArch a ++ " " ++ out a.render ++ " " ++ showRes dumpArch (Dep.parseArch a.render)
        | .error e => showRes dumpArch (.error e))
  | "archstr", [a, o, c] => do
      let x ← readArch a o c
      pure (out x.render)
  | "archlist", [s] => do
      let s ← hx s
      pure (showRes (fun l => "[" ++ sepBy "+" (l.map dumpArch) ++ "]") (Dep.parseArchitectures s))
  | "archis", [a1, a2, a3, b1, b2, b3] => do
      let x ← readArch a1 a2 a3
      let y ← readArch b1 b2 b3
      pure (bool01 (x.is y))
  | "archmatch", neg :: n :: rest => do
      let n ← n.toNat?
      let (archs, rest) ← readArchs n rest
      match rest with
      | [a, o, c] =>
        let x ← readArch a o c
        pure (bool01 ((⟨neg == "1", archs⟩ : ArchSet).matches x))
      | _ => none
  | "possis", [d, a] => do
      let d ← hx d
      let a ← hx a
      pure (match Dep.parse d, Dep.parseArch a with
        | .ok d, .ok a => showRes dumpRel (Dep.getPossibilities d a) ++ " all=" ++ dumpRel (Dep.getAllPossibilities d)
            ++ " sv=" ++ dumpRel (Dep.getSubstvars d)
        | _, _ => "err")
  | "satisfied", [op, num, e, u, r] => do
      let op ← hx op
      let num ← hx num
      let v ← readVersion e u r
      pure (bool01 (Dep.satisfiedBy ⟨num, op⟩ v))
  | _, _ => none

end GoDebian.Drv
