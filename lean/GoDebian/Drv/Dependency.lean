import GoDebian.Drv.Util
import GoDebian.Drv.Version
import GoDebian.Model.Dependency
import GoDebian.Spec.Dependency
import GoDebian.Spec.Arch
import GoDebian.Spec.Version

namespace GoDebian.Drv
open GoDebian GoDebian.Dep

def sepBy (sep : String) (xs : List String) : String := String.intercalate sep xs

def dumpArch (a : Arch) : String := s!"{out a.abi}.{out a.os}.{out a.cpu}"
def dumpArchOpt : Option Arch → String
  | none => "~"
  | some a => dumpArch a
def dumpArchSet : Option ArchSet → String
  | none => "~"
  | some s => (if s.neg then "!" else "") ++ "[" ++ sepBy "+" (s.archs.map dumpArch) ++ "]"
def dumpStage (s : Stage) : String := (if s.neg then "!" else "") ++ out s.name
def dumpStageSets (ss : List (List Stage)) : String :=
  "<" ++ sepBy "/" (ss.map (fun s => "(" ++ sepBy "+" (s.map dumpStage) ++ ")")) ++ ">"
def dumpVersionRel : Option VersionRelation → String
  | none => "~"
  | some v => s!"{out v.op}.{out v.number}"
def dumpPoss (p : Possibility) : String :=
  sepBy ":" [out p.name, dumpArchOpt p.arch, dumpArchSet p.archs, dumpStageSets p.stageSets,
             dumpVersionRel p.version, bool01 p.substvar]
def dumpRel (r : Relation) : String := "(" ++ sepBy "|" (r.map dumpPoss) ++ ")"
def dumpDep (d : Dependency) : String := "{" ++ sepBy "," (d.map dumpRel) ++ "}"

def readArch (a o c : String) : Option Arch := do
  pure ⟨← hx a, ← hx o, ← hx c⟩

def readArchs : Nat → List String → Option (List Arch × List String)
  | 0, rest => some ([], rest)
  | n+1, a :: o :: c :: rest => do
      let x ← readArch a o c
      let (xs, rest') ← readArchs n rest
      pure (x :: xs, rest')
  | _, _ => none

def dependencyHandler : Handler
  | "depparse", [s] => do
      let s ← hx s
      pure (showRes dumpDep (Dep.parse s))
  | "deprt", [s] => do
      let s ← hx s
      pure (match Dep.parse s with
        | .ok d => "ok " ++ out (Dep.render d) ++ " " ++ showRes dumpDep (Dep.parse (Dep.render d))
        | .error e => showRes dumpDep (.error e))
  | "archparse", [s] => do
      let s ← hx s
      pure (showRes dumpArch (Dep.parseArch s))
  | "archrt", [s] => do
      let s ← hx s
      pure (match Dep.parseArch s with
        | .ok a => "ok " ++ dumpArch a ++ " " ++ out a.render ++ " " ++ showRes dumpArch (Dep.parseArch a.render)
        | .error e => showRes dumpArch (.error e))
  | "archstr", [a, o, c] => do
      let x ← readArch a o c
      pure (out x.render)
  | "archlist", [s] => do
      let s ← hx s
      pure (showRes (fun l => "[" ++ sepBy "+" (l.map dumpArch) ++ "]") (Dep.parseArchitectures s))
  | "archis", [a1, a2, a3, b1, b2, b3] => do
      let x ← readArch a1 a2 a3
      let y ← readArch b1 b2 b3
      -- specification on Debian-denotable operands (C06_is_wild / _is_all / _is_concrete)
      let spec := if decide (Spec.Arch.Concrete x) && decide (Spec.Arch.Dom y) then
          bool01 (decide (y ≠ Spec.Arch.All) && Spec.Arch.wildMatches x y)
        else if decide (Spec.Arch.Concrete y) && decide (Spec.Arch.Dom x) then
          bool01 (decide (x ≠ Spec.Arch.All) && Spec.Arch.wildMatches y x)
        else if x = Spec.Arch.All && decide (Spec.Arch.Dom y) then bool01 (decide (y = Spec.Arch.All))
        else if y = Spec.Arch.All && decide (Spec.Arch.Dom x) then bool01 (decide (x = Spec.Arch.All))
        else "any"
      pure (bool01 (x.is y) ++ " ; spec=" ++ spec)
  | "archmatch", neg :: n :: rest => do
      let n ← n.toNat?
      let (archs, rest) ← readArchs n rest
      match rest with
      | [a, o, c] =>
        let x ← readArch a o c
        -- specification: (some entry matches) differs from (the list is negated); empty admits all
        let set : ArchSet := ⟨neg == "1", archs⟩
        pure (bool01 (set.matches x) ++ " ; spec=" ++ bool01 (Spec.Arch.listAdmits Arch.is set x))
      | _ => none
  | "possis", [d, a] => do
      let d ← hx d
      let a ← hx a
      pure (match Dep.parse d, Dep.parseArch a with
        | .ok d, .ok a => showRes dumpRel (Dep.getPossibilities d a) ++ " all=" ++ dumpRel (Dep.getAllPossibilities d)
            ++ " sv=" ++ dumpRel (Dep.getSubstvars d)
        | _, _ => "err")
  | "satisfied", [op, num, e, u, r] => do
      let op ← hx op
      let num ← hx num
      let v ← readVersion e u r
      -- specification: V compared with N (Policy order) is <0, <=0, =0, >=0, >0 for <<, <=, =, >=, >>
      let spec := match Version.parse num with
        | .error _ => "0"
        | .ok n =>
          if Spec.Version.nulFree v.upstream && Spec.Version.nulFree v.revision then
            let q := Spec.Version.ordInt (Spec.Version.compare v n)
            bool01 (if op = Dep.opLT then q < 0 else if op = Dep.opLE then q ≤ 0 else if op = Dep.opEQ then q = 0
              else if op = Dep.opGE then q ≥ 0 else if op = Dep.opGT then q > 0 else false)
          else "any"
      pure (bool01 (Dep.satisfiedBy ⟨num, op⟩ v) ++ " ; spec=" ++ spec)
  | _, _ => none

end GoDebian.Drv

namespace GoDebian.Drv
open GoDebian GoDebian.Spec.Dependency

def rdN {α} (item : List String → Option (α × List String)) : Nat → List String → Option (List α × List String)
  | 0, ts => some ([], ts)
  | n+1, ts => do
      let (x, ts) ← item ts
      let (xs, ts) ← rdN item n ts
      pure (x :: xs, ts)

def rdCounted {α} (item : List String → Option (α × List String)) : List String → Option (List α × List String)
  | n :: ts => do rdN item (← n.toNat?) ts
  | [] => none

def rdBytes : List String → Option (Bytes × List String)
  | t :: ts => do pure (← hx t, ts)
  | [] => none

def rdStage : List String → Option ((Bool × Bytes) × List String)
  | n :: s :: ts => do pure ((n == "1", ← hx s), ts)
  | _ => none

def rdPoss : List String → Option (SPoss × List String)
  | sv :: name :: ts => do
      let name ← hx name
      let (qual, ts) ← match ts with
        | "N" :: ts => some (none, ts)
        | "Q" :: q :: ts => do pure (some (← hx q), ts)
        | _ => none
      let (ver, ts) ← match ts with
        | "N" :: ts => some (none, ts)
        | "V" :: op :: num :: ts => do pure (some (← hx op, ← hx num), ts)
        | _ => none
      match ts with
      | neg :: ts =>
        let (archs, ts) ← rdCounted rdBytes ts
        let (stages, ts) ← rdCounted (rdCounted rdStage) ts
        pure (⟨sv == "1", name, qual, ver, neg == "1", archs, stages⟩, ts)
      | [] => none
  | _ => none

def rdNat : List String → Option (Nat × List String)
  | t :: ts => do pure (← t.toNat?, ts)
  | [] => none

def depSpecHandler : Handler
  | "depgen", ts => do
      let (d, ts) ← rdCounted (rdCounted rdPoss) ts
      let (cs, _) ← rdCounted rdNat ts
      pure (out (render d cs) ++ " " ++ dumpDep (denote d) ++ " " ++ bool01 (wfDep d))
  | "depspec", [s, expected] => do
      let s ← hx s
      pure (showRes dumpDep (Dep.parse s) ++ " ; spec=ok " ++ expected)
  | _, _ => none

end GoDebian.Drv
