import GoDebian.Drv.Util
import GoDebian.Drv.Codec
import GoDebian.Model.Deb
import GoDebian.Spec.Ar

namespace GoDebian.Drv
open GoDebian GoDebian.Ar

/-- cheap content fingerprint shared with the harness: length and a rolling sum -/
def fingerprint (b : Bytes) : String :=
  s!"{b.length}/{b.foldl (fun h x => (h * 31 + x + 7) % 4294967296) 0}"

def dumpEntry (bs : Bytes) (e : Entry) : String :=
  s!"{out e.name}:{e.timestamp}:{e.ownerID}:{e.groupID}:{out e.fileMode}:{e.size}:{fingerprint (Ar.data bs e)}"

def dumpEnd : End → String
  | .eof => "eof" | .bad => "bad" | .fuel => "hang"

def dumpAr (bs : Bytes) : String :=
  match Ar.readAll bs with
  | none => "err-magic"
  | some (es, e) => "[" ++ String.intercalate ";" (es.map (dumpEntry bs)) ++ "] end=" ++ dumpEnd e ++ s!" steps={es.length}"

def dumpView (v : Spec.Ar.View) : String :=
  s!"{out v.name}:{v.timestamp}:{v.ownerID}:{v.groupID}:{out v.mode}:{v.size}:{fingerprint v.data}"

/-! sources given as runs: "L<hex>" literal bytes, "Z<n>" n zero bytes, comma-separated -/

def readSegs (s : String) : Option (List Seg) :=
  (s.splitOn ",").mapM (fun t =>
    if t.startsWith "L" then (hx (t.drop 1).toString).map Seg.lit
    else if t.startsWith "Z" then (t.drop 1).toString.toNat?.map Seg.zeros
    else none)

def showSegs (segs : List Seg) : String :=
  String.intercalate "," (segs.map (fun | .lit b => "L" ++ out b | .zeros n => s!"Z{n}"))

/-- first 16 bytes and last byte instead of a fingerprint of the whole content -/
def edges (size : Nat) (rd : Nat → Nat → Bytes) (dataOff : Nat) : String :=
  out (rd dataOff (min size 16)) ++ "/" ++ (if size = 0 then "" else out (rd (dataOff + size - 1) 1))

def dumpEntryS (segs : List Seg) (e : Entry) : String :=
  s!"{out e.name}:{e.timestamp}:{e.ownerID}:{e.groupID}:{out e.fileMode}:{e.size}:{edges e.size.toNat (readAtS segs) e.dataOff}"

def dumpArS (segs : List Seg) : String :=
  match Ar.readAllS segs with
  | none => "err-magic"
  | some (es, e) => "[" ++ String.intercalate ";" (es.map (dumpEntryS segs)) ++ "] end=" ++ dumpEnd e ++ s!" steps={es.length}"

def dumpViewS (mk : Spec.Ar.Member × Nat) : String :=
  let m := mk.1
  let size := m.data.length + mk.2
  let rd (off n : Nat) : Bytes := readAtS [.lit m.data, .zeros mk.2] off n
  s!"{out m.name}:{m.timestamp.getD 0}:{m.ownerID.getD 0}:{m.groupID.getD 0}:{out m.mode}:{size}:{edges size rd 0}"

def readOptNat : List String → Option (Option Nat × List String)
  | "-" :: ts => some (none, ts)
  | t :: ts => do pure (some (← t.toNat?), ts)
  | [] => none

def readMember (ts : List String) : Option (Spec.Ar.Member × List String) := do
  let (name, ts) ← readBytes ts
  match ts with
  | slash :: ts =>
    let (t, ts) ← readOptNat ts
    let (u, ts) ← readOptNat ts
    let (g, ts) ← readOptNat ts
    let (mode, ts) ← readBytes ts
    let (data, ts) ← readBytes ts
    pure (⟨name, slash == "1", t, u, g, mode, data⟩, ts)
  | [] => none

def readTarEntry : List String → Option ((Bytes × Option Bytes) × List String)
  | n :: "!" :: ts => do pure ((← hx n, none), ts)
  | n :: c :: ts => do pure ((← hx n, some (← hx c)), ts)
  | _ => none

def readTarAnswer : List String → Option (Deb.TarAnswer × List String)
  | "E" :: ts => some (.openError, ts)
  | "T" :: ts => do
      let (es, ts) ← readCounted readTarEntry ts
      match ts with
      | c :: ts => pure (.entries es (c == "C1"), ts)
      | [] => none
  | _ => none

def dumpLoaded (s : Codec.Schema) (l : Deb.Loaded) : String :=
  dumpRec s l.control ++ " " ++ out l.controlExt ++ " " ++ out l.dataExt ++ " [" ++
    String.intercalate "," (sortStrings (l.members.map out)) ++ "]"

def debHandler : Handler
  | "ar", [s] => do
      let s ← hx s
      pure (dumpAr s)
  | "argen", ts => do
      let (ms, _) ← readCounted readMember ts
      let bs := Spec.Ar.build ms
      pure (out bs ++ " [" ++ String.intercalate ";" (ms.map (fun m => dumpView (Spec.Ar.view m))) ++ "] "
        ++ bool01 (ms.all Spec.Ar.wfMember))
  | "arsgen", ts => do
      let (mks, _) ← readCounted (fun ts => do
        let (m, ts) ← readMember ts
        match ts with
        | k :: ts => pure ((m, ← k.toNat?), ts)
        | [] => none) ts
      -- well-formedness of the materialised member, evaluated without materialising it
      let wf := mks.all (fun (m, k) => Spec.Ar.wfMember { m with data := [] } &&
        decide ((Str.fmtNat (m.data.length + k)).length ≤ 10))
      pure (showSegs (Spec.Ar.buildSegs mks) ++ " [" ++ String.intercalate ";" (mks.map dumpViewS) ++ "] " ++ bool01 wf)
  | "arsparse", [s] => do
      let segs ← readSegs s
      pure (dumpArS segs)
  | "arsspec", [s, expected, n] => do
      let segs ← readSegs s
      pure (dumpArS segs ++ " ; spec=" ++ expected ++ " end=eof steps=" ++ n)
  | "arspec", [s, expected, n] => do
      let s ← hx s
      pure (dumpAr s ++ " ; spec=" ++ expected ++ " end=eof steps=" ++ n)
  | "debplan", [s] => do
      let s ← hx s
      pure (match Deb.plan s with
        | .error .fuel => "hang"
        | .error _ => "err"
        | .ok p => s!"need {p.control.dataOff} {p.control.size} {out p.control.name} {p.data.dataOff} {p.data.size} {out p.data.name}")
  | "deb", ts => do
      let (schema, ts) ← readSchema ts
      match ts with
      | s :: ts =>
        let s ← hx s
        let (ctl, ts) ← readTarAnswer ts
        match ts with
        | [dataOpens] => pure (showRes (dumpLoaded schema) (Deb.load s schema ctl (dataOpens == "1")))
        | _ => none
      | [] => none
  | "debsigplan", [s, role] => do
      let s ← hx s
      let role ← hx role
      pure (match Deb.plan s with
        | .error _ => "err"
        | .ok p => match Deb.debsigPlan p role with
          | none => "err"
          | some (sig, b, c, d) =>
            s!"need {sig.dataOff} {sig.size} {b.dataOff} {b.size} {c.dataOff} {c.size} {d.dataOff} {d.size}")
  | "debsig", [s, role, _keyring, answer] => do
      let s ← hx s
      let role ← hx role
      pure (match Deb.plan s with
        | .error _ => "err"
        | .ok p => match Deb.debsigPlan p role with
          | none => "err"
          | some _ => answer)
  | _, _ => none

end GoDebian.Drv
