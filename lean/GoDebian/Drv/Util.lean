/-
  Line-protocol helpers for the driver: hex arguments, canonical output atoms.
-/
import GoDebian.Base.Bytes

namespace GoDebian.Drv
open GoDebian

def hx (s : String) : Option Bytes := Bytes.ofHex s
def out (b : Bytes) : String := Bytes.toHex b

def showRes {α} (f : α → String) : Res α → String
  | .ok a => "ok " ++ f a
  | .error .err => "err"
  | .error .panic => "panic"
  | .error .fuel => "hang"

def bool01 (b : Bool) : String := if b then "1" else "0"

/-- A handler consumes an op name and its arguments; `none` = not mine / malformed. -/
abbrev Handler := String → List String → Option String

end GoDebian.Drv
