import GoDebian.Drv.Util
import GoDebian.Drv.Codec
import GoDebian.Model.BuildOrder

namespace GoDebian.Drv
open GoDebian GoDebian.Codec

def fieldIndex (s : Schema) (name : String) : Option Nat := s.findIdx? (·.name == name)

def srcOfRecord (s : Schema) (r : List Val) : Option BuildOrder.Src := do
  let iS ← fieldIndex s "Source"
  let iB ← fieldIndex s "Binaries"
  let iD ← fieldIndex s "BuildDepends"
  let iA ← fieldIndex s "BuildDependsArch"
  let iI ← fieldIndex s "BuildDependsIndep"
  let str := fun (v : Val) => match v with | .str b => b | _ => []
  let strs := fun (v : Val) => match v with | .list vs => vs.map str | _ => []
  let dep := fun (v : Val) => match v with | .custom (.dep d) => d | _ => []
  pure ⟨str (r.getD iS .zero), strs (r.getD iB .zero), [dep (r.getD iD .zero), dep (r.getD iA .zero), dep (r.getD iI .zero)]⟩

def buildOrderHandler : Handler
  -- order <arch> <DSC schema> n <dsc text>ⁿ
  | "order", arch :: ts => do
      let arch ← hx arch
      let (s, ts) ← readSchema ts
      let (texts, _) ← readCounted readBytes ts
      pure (match Dep.parseArch arch with
        | .error _ => "err-arch"
        | .ok a =>
          match texts.foldlM (fun acc t => match Codec.unmarshal s t with
              | .ok r => (srcOfRecord s r).map (fun x => acc ++ [x])
              | .error _ => none) [] with
          | none => "err-parse"
          | some srcs => showRes (fun ns => String.intercalate " " (ns.map out)) (BuildOrder.order srcs a))
  | _, _ => none

end GoDebian.Drv
