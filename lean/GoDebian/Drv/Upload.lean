import GoDebian.Drv.Util
import GoDebian.Drv.Deb822
import GoDebian.Model.Upload

namespace GoDebian.Drv
open GoDebian GoDebian.Upload

def readNode : String → Option (Option Node)
  | "M" | "A" => some none
  | "D0" => some (some (.dir false))
  | "D1" => some (some (.dir true))
  | s => if s.startsWith "F" then (s.drop 1).toString.toNat?.map (fun n => some (.file n)) else none

def dumpNode : Node → String
  | .file c => s!"F{c}"
  | .dir false => "D0"
  | .dir true => "D1"

def dumpDir (d : Dir) : String :=
  "[" ++ String.intercalate "," (sortStrings (d.map (fun (n, x) => out n ++ "=" ++ dumpNode x))) ++ "]"

def readEntries : Nat → List String → Option (List (Bytes × Option Node × Option Node) × List String)
  | 0, ts => some ([], ts)
  | n+1, name :: st :: dst :: ts => do
      let name ← hx name
      let st ← readNode st
      let dst ← readNode dst
      let (rest, ts) ← readEntries n ts
      pure ((name, st, dst) :: rest, ts)
  | _, _ => none

def uploadHandler : Handler
  -- upload <op> <kind> <ctl> <ctlstate> <ctldest> <destkind> n (name state deststate)ⁿ
  | "upload", op :: _kind :: ctl :: ctlState :: ctlDest :: destKind :: n :: ts => do
      let op ← match op with | "copy" => some Op.copy | "move" => some Op.move | "remove" => some Op.remove | _ => none
      let ctl ← hx ctl
      let ctlState ← readNode ctlState
      let ctlDest ← readNode ctlDest
      let dk ← match destKind with | "dir" => some DestKind.dir | "missing" => some DestKind.missing | "file" => some DestKind.file | _ => none
      let n ← n.toNat?
      let (entries, _) ← readEntries n ts
      -- initial file system: later entries for the same name override earlier ones, the
      -- control file's own state last (as the harness creates them)
      let src0 : Dir := entries.foldl (fun d (nm, st, _) => if Upload.plain nm then
          (match st with | some x => put d nm x | none => del d nm) else d) []
      let src : Dir := match ctlState with | some x => put src0 ctl x | none => del src0 ctl
      let dest0 : Dir := entries.foldl (fun d (nm, _, dst) => if Upload.plain nm then
          (match dst with | some x => put d nm x | none => del d nm) else d) []
      let dest : Dir := match ctlDest with | some x => put dest0 ctl x | none => del dest0 ctl
      let o := Upload.exec op ⟨src, dk, if dk = .dir then dest else [], false⟩ ctl (entries.map (·.1))
      pure ((if o.ok then "ok" else "err") ++ " src" ++ dumpDir o.state.src ++ " dst" ++ dumpDir o.state.dest
        ++ " handle=" ++ (if o.handleDest then "dest" else "src") ++ " outside=" ++ (if o.state.outside then "touched" else "intact"))
  | _, _ => none

end GoDebian.Drv
