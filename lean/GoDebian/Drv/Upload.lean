import GoDebian.Drv.Util
import GoDebian.Drv.Deb822
import GoDebian.Model.Upload

namespace GoDebian.Drv
open GoDebian GoDebian.Upload

def readNode : String → Option (Option Node)
  | "M" | "A" => some none
  | "D0" => some (some (.dir false))
  | "D1" => some (some (.dir true))
  | s => if s.startsWith "F" then (s.drop 1).toString.toNat?.map (fun n => some (.file n)) else none

def dumpNode : Node → String
  | .file c => s!"F{c}"
  | .dir false => "D0"
  | .dir true => "D1"

def dumpDir (d : Dir) : String :=
  "[" ++ String.intercalate "," (sortStrings (d.map (fun (n, x) => out n ++ "=" ++ dumpNode x))) ++ "]"

def readEntries : Nat → List String → Option (List (Bytes × Option Node × Option Node) × List String)
  | 0, ts => some ([], ts)
  | n+1, name :: st :: dst :: ts => do
      let name ← hx name
      let st ← readNode st
      let dst ← readNode dst
      let (rest, ts) ← readEntries n ts
      pure ((name, st, dst) :: rest, ts)
  | _, _ => none

def uploadHandler : Handler
  -- upload <op> <kind> <ctl> <ctlstate> <ctldest> <destkind> n (name state deststate)ⁿ
  | "upload", op :: _kind :: ctl :: ctlState :: ctlDest :: destKind :: n :: ts => do
      let op ← match op with | "copy" => some Op.copy | "move" => some Op.move | "remove" => some Op.remove | _ => none
      let ctl ← hx ctl
      let ctlState ← readNode ctlState
      let ctlDest ← readNode ctlDest
      let dk ← match destKind with | "dir" => some DestKind.dir | "missing" => some DestKind.missing | "file" => some DestKind.file | _ => none
      let n ← n.toNat?
      let (entries, _) ← readEntries n ts
      -- initial file system: later entries for the same name override earlier ones, the
      -- control file's own state last (as the harness creates them)
      let src0 : Dir := entries.foldl (fun d (nm, st, _) => if Upload.plain nm then
          (match st with | some x => put d nm x | none => del d nm) else d) []
      let src : Dir := match ctlState with | some x => put src0 ctl x | none => del src0 ctl
      let dest0 : Dir := entries.foldl (fun d (nm, _, dst) => if Upload.plain nm then
          (match dst with | some x => put d nm x | none => del d nm) else d) []
      let dest : Dir := match ctlDest with | some x => put dest0 ctl x | none => del dest0 ctl
      let o := Upload.exec op ⟨src, dk, if dk = .dir then dest else [], false⟩ ctl (entries.map (·.1))
      pure ((if o.ok then "ok" else "err") ++ " src" ++ dumpDir o.state.src ++ " dst" ++ dumpDir o.state.dest
        ++ " handle=" ++ (if o.handleDest then "dest" else "src") ++ " outside=" ++ (if o.state.outside then "touched" else "intact"))
  -- uploadseq <ctl> n (name state)ⁿ k (op target)ᵏ : three directories, the handle starts in 0
  | "uploadseq", _kind :: ctl :: n :: ts => do
      let ctl ← hx ctl
      let n ← n.toNat?
      let rec readFiles : Nat → List String → Option (List (Bytes × Option Node) × List String)
        | 0, ts => some ([], ts)
        | k+1, name :: st :: ts => do
            let name ← hx name
            let st ← readNode st
            let (rest, ts) ← readFiles k ts
            pure ((name, st) :: rest, ts)
        | _, _ => none
      let (files, ts) ← readFiles n ts
      let rec readOps : List String → Option (List (Op × Nat))
        | [] => some []
        | op :: t :: ts => do
            let op ← match op with | "copy" => some Op.copy | "move" => some Op.move | "remove" => some Op.remove | _ => none
            let t ← t.toNat?
            let rest ← readOps ts
            pure ((op, t) :: rest)
        | _ => none
      let ops ← match ts with | _k :: ts => readOps ts | [] => none
      let src0 : Dir := files.foldl (fun d (nm, st) => if Upload.plain nm then
          (match st with | some x => put d nm x | none => del d nm) else d) []
      let src : Dir := put src0 ctl (.file 999)
      match Upload.runW ctl (files.map (·.1)) ⟨[src, [], []], 0⟩ ops with
      | none => pure "unmodelled"
      | some (w, oks) =>
      pure (String.intercalate "," (oks.map (fun b => if b then "ok" else "err")) ++ " here=" ++ toString w.here
        ++ " " ++ String.intercalate " " (w.dirs.map dumpDir))
  | _, _ => none

end GoDebian.Drv
