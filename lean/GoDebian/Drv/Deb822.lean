import GoDebian.Drv.Util
import GoDebian.Model.Deb822
import GoDebian.Spec.Deb822

namespace GoDebian.Drv
open GoDebian GoDebian.Deb822

def insertSorted (x : String) : List String → List String
  | [] => [x]
  | y :: ys => if x ≤ y then x :: y :: ys else y :: insertSorted x ys

def sortStrings (xs : List String) : List String := xs.foldr insertSorted []

def dumpPara (p : Paragraph) : String :=
  "(" ++ String.intercalate "," (p.order.map out) ++ "|" ++
    String.intercalate "," (sortStrings (p.values.map (fun (k, v) => out k ++ "=" ++ out v))) ++ ")"

def dumpParas (ps : List Paragraph) : String := "[" ++ String.intercalate ";" (ps.map dumpPara) ++ "]"

/-- token readers: `n item₁ … itemₙ` -/
def readN {α} (item : List String → Option (α × List String)) : Nat → List String → Option (List α × List String)
  | 0, ts => some ([], ts)
  | n+1, ts => do
      let (x, ts) ← item ts
      let (xs, ts) ← readN item n ts
      pure (x :: xs, ts)

def readCounted {α} (item : List String → Option (α × List String)) : List String → Option (List α × List String)
  | n :: ts => do
      let n ← n.toNat?
      readN item n ts
  | [] => none

def readBytes : List String → Option (Bytes × List String)
  | t :: ts => do pure (← hx t, ts)
  | [] => none

def readNat : List String → Option (Nat × List String)
  | t :: ts => do pure (← t.toNat?, ts)
  | [] => none

def readField (ts : List String) : Option (Spec.Deb822.Field × List String) := do
  let (name, ts) ← readBytes ts
  let (first, ts) ← readBytes ts
  let (conts, ts) ← readCounted readBytes ts
  pure (⟨name, first, conts⟩, ts)

def readDoc (ts : List String) : Option (Spec.Deb822.Doc × List String) :=
  readCounted (readCounted readField) ts

def readKV (ts : List String) : Option ((Bytes × Bytes) × List String) := do
  let (k, ts) ← readBytes ts
  let (v, ts) ← readBytes ts
  pure ((k, v), ts)

def paraOfKVs (kvs : List (Bytes × Bytes)) : Paragraph :=
  kvs.foldl (fun p (k, v) => p.set k v) Deb822.empty

def deb822Handler : Handler
  | "d822", [s] => do
      let s ← hx s
      pure (showRes dumpParas (Deb822.all s))
  | "d822gen", ts => do
      let (doc, ts) ← readDoc ts
      let (cs, _) ← readCounted readNat ts
      let text := Spec.Deb822.render doc cs
      pure (out text ++ " " ++ dumpParas (doc.map Spec.Deb822.expectedPara) ++ " " ++ bool01 (Spec.Deb822.wfDoc doc))
  | "d822spec", [s, expected] => do
      let s ← hx s
      pure (showRes dumpParas (Deb822.all s) ++ " ; spec=ok " ++ expected)
  | "d822write", ts => do
      let (kvs, _) ← readCounted readKV ts
      pure (out (paraOfKVs kvs).write)
  | "d822rw", [s] => do
      let s ← hx s
      pure (match Deb822.all s with
        | .error e => showRes dumpParas (.error e)
        | .ok ps =>
          let t1 := Deb822.writeAll ps
          match Deb822.all t1 with
          | .error e => "ok " ++ out t1 ++ " " ++ showRes dumpParas (.error e)
          | .ok ps2 => "ok " ++ out t1 ++ " " ++ dumpParas ps2 ++ " " ++ out (Deb822.writeAll ps2))
  | _, _ => none

end GoDebian.Drv
