import GoDebian.Drv.Util
import GoDebian.Drv.Deb822
import GoDebian.Drv.Deb
import GoDebian.Model.Hashio

namespace GoDebian.Drv
open GoDebian GoDebian.Hashio

/-- the digest parameter as a finite table handed in by the harness (computed with an
    independent implementation on the whole message) -/
def tableDigest (tbl : List (Bytes × Bytes × Bytes)) : Digest :=
  fun alg msg => match tbl.find? (fun (a, m, _) => a = alg && m = msg) with
    | some (_, _, d) => d
    | none => []

def readTriple (ts : List String) : Option ((Bytes × Bytes × Bytes) × List String) := do
  let (a, ts) ← readBytes ts
  let (m, ts) ← readBytes ts
  let (d, ts) ← readBytes ts
  pure ((a, m, d), ts)

def hashioHandler : Handler
  | "compressor", [name] => do pure (if Hashio.knownCompressor (← hx name) then "ok" else "err")
  -- hashpipe <names> <chunks> <digest table>: pass-through, sizes, sums
  | "hashpipe", _mode :: ts => do
      let (names, ts) ← readCounted readBytes ts
      let (chunks, ts) ← readCounted readBytes ts
      let (tbl, _) ← readCounted readTriple ts
      let H := tableDigest tbl
      -- the specification, stated directly (C12_passthrough / C12_sums are the theorems that
      -- the model equals it): the stream passes through, every hasher reports the stream's
      -- length and its true digest
      let all := chunks.flatten
      let spec := if names.all Hashio.supported then
          "ok " ++ fingerprint all ++ " " ++ String.intercalate " "
            (names.map (fun n => s!"{out n}:{all.length}:{out (H n all)}:{out (Hashio.hexEncode (H n all))}"))
        else "err"
      pure ((match Hashio.run names chunks with
        | .error _ => "err"
        | .ok p => "ok " ++ fingerprint p.target ++ " " ++ String.intercalate " "
            (p.hashers.map (fun h => s!"{out h.name}:{h.size}:{out (h.sum H)}:{out (Hashio.fileHashFromHasher H [120] h).hash}")))
        ++ " ; spec=" ++ spec)
  -- verifier <alg> <hash text> <data> <digest table>
  | "verifier", alg :: hash :: data :: ts => do
      let alg ← hx alg
      let hash ← hx hash
      let data ← hx data
      let (tbl, _) ← readCounted readTriple ts
      let H := tableDigest tbl
      -- specification: accepted iff the recorded text is the hex form of the stream's digest
      -- under the entry's own algorithm (either letter case)
      let lower := hash.map (fun c => if 65 ≤ c ∧ c ≤ 70 then c + 32 else c)
      let spec := if !Hashio.supported alg then "err"
        else if lower = Hashio.hexEncode (H alg data) then "accept"
        else if (Hashio.hexDecode hash).isSome then "reject" else "err"
      pure ((match Hashio.verify H alg hash data with
        | .accept => "accept" | .reject => "reject" | .unsupported => "err" | .badHex => "err") ++ " ; spec=" ++ spec)
  | _, _ => none

end GoDebian.Drv
