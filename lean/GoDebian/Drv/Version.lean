import GoDebian.Drv.Util
import GoDebian.Model.Version
import GoDebian.Spec.Version
import GoDebian.Spec.VersionParse

namespace GoDebian.Drv
open GoDebian GoDebian.Version

def showVersion (v : Version) : String := s!"{v.epoch} {out v.upstream} {out v.revision}"

def readVersion (e u r : String) : Option Version := do
  let e ← e.toNat?
  let u ← hx u
  let r ← hx r
  pure ⟨e, u, r⟩

def versionHandler : Handler
  | "vercmp", [ea, ua, ra, eb, ub, rb] => do
      let a ← readVersion ea ua ra
      let b ← readVersion eb ub rb
      let spec := if Spec.Version.nulFree a.upstream && Spec.Version.nulFree a.revision
                    && Spec.Version.nulFree b.upstream && Spec.Version.nulFree b.revision
                  then toString (Spec.Version.ordInt (Spec.Version.compare a b)) else "any"
      pure (toString (sgn (Version.compare a b)) ++ " ; spec=" ++ spec)
  -- verless: `Slice{a, b}.Less(0, 1)`, the sort adapter: Compare(a, b) < 0
  | "verless", [ea, ua, ra, eb, ub, rb] => do
      let a ← readVersion ea ua ra
      let b ← readVersion eb ub rb
      let spec := if Spec.Version.nulFree a.upstream && Spec.Version.nulFree a.revision
                    && Spec.Version.nulFree b.upstream && Spec.Version.nulFree b.revision
                  then toString (decide (Spec.Version.ordInt (Spec.Version.compare a b) < 0)) else "any"
      pure (toString (decide (Version.compare a b < 0)) ++ " ; spec=" ++ spec)
  | "verrev", [a, b] => do
      let a ← hx a
      let b ← hx b
      let spec := if Spec.Version.nulFree a && Spec.Version.nulFree b
                  then toString (Spec.Version.ordInt (Spec.Version.cmp a b)) else "any"
      pure (toString (sgn (verrevcmp a b)) ++ " ; spec=" ++ spec)
  | "verparse", [s] => do
      let s ← hx s
      let spec := match Spec.VersionParse.verdict s with
        | none => "any"
        | some .reject => "err"
        | some (.accept v) => "ok " ++ showVersion v
      pure (showRes showVersion (Version.parse s) ++ " ; spec=" ++ spec)
  | "verstr", [e, u, r] => do
      let v ← readVersion e u r
      pure (out (Version.toString v))
  -- verfull <a> <b>: the Policy order on two full version strings (specification side only;
  -- the "implementation" it is compared with is the real dpkg --compare-versions)
  | "verfull", [a, b] => do
      let a ← hx a
      let b ← hx b
      pure (match Version.parse a, Version.parse b with
        | .ok x, .ok y =>
          let s := toString (Spec.Version.ordInt (Spec.Version.compare x y))
          s ++ " ; spec=" ++ s
        | _, _ => "err ; spec=any")
  | "verstr0", [e, u, r] => do
      let v ← readVersion e u r
      pure (out (Version.stringWithoutEpoch v))
  | "verjson", [s] => do
      let s ← hx s
      pure (showRes showVersion (Version.jsonDecode s))
  | _, _ => none

end GoDebian.Drv
