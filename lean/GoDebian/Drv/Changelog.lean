import GoDebian.Drv.Util
import GoDebian.Drv.Version
import GoDebian.Drv.Deb822
import GoDebian.Model.Changelog

namespace GoDebian.Drv
open GoDebian GoDebian.Changelog

/-- answers: for each date text (hex) either `ok:<unix>:<offset>` or `err` -/
def readDateAnswers : List String → List (Bytes × String)
  | t :: a :: rest => (match hx t with | some b => [(b, a)] | none => []) ++ readDateAnswers rest
  | _ => []

def dumpClEntry (answers : List (Bytes × String)) (e : Entry) : String :=
  let w := match answers.find? (fun (t, _) => t = e.whenText) with | some (_, a) => a | none => "?"
  "(" ++ String.intercalate " " [out e.source, showVersion e.version, out e.target,
    "{" ++ String.intercalate "," (sortStrings (e.arguments.map (fun (k, v) => out k ++ "=" ++ out v))) ++ "}",
    out e.changelog, out e.changedBy, w] ++ ")"

def changelogHandler : Handler
  | "clplan", [s] => do
      let s ← hx s
      pure ("dates " ++ String.intercalate " " ((dateTexts s).map out))
  | "changelog", s :: answers => do
      let s ← hx s
      let ans := readDateAnswers answers
      let dateOK := fun (t : Bytes) => match ans.find? (fun (t', _) => t' = t) with
        | some (_, a) => a != "err"
        | none => false
      pure (showRes (fun es => "[" ++ String.intercalate ";" (es.map (dumpClEntry ans)) ++ "]") (Changelog.parse s dateOK))
  | _, _ => none

end GoDebian.Drv
