import GoDebian.Drv.Util
import GoDebian.Drv.Deb822
import GoDebian.Drv.Dependency
import GoDebian.Model.Codec

namespace GoDebian.Drv
open GoDebian GoDebian.Codec GoDebian.Deb822

/-! token readers (prefix notation, see harness/props/codec.go) -/

partial def readKind : List String → Option (Kind × List String)
  | "str" :: ts => some (.str, ts)
  | "int" :: ts => some (.int, ts)
  | "uint" :: ts => some (.uint, ts)
  | "bool" :: ts => some (.bool, ts)
  | "para" :: ts => some (.para, ts)
  | "cust" :: t :: ts => some (.custom t, ts)
  | "bad" :: t :: ts => some (.unsupported t, ts)
  | "slice" :: ts => do
      let (k, ts) ← readKind ts
      pure (.slice k, ts)
  | "nested" :: ts => do
      let (s, ts) ← readSchemaP ts
      pure (.nested s, ts)
  | _ => none
where
  readSchemaP : List String → Option (List FieldDesc × List String)
    | "S" :: n :: ts => do
        let n ← n.toNat?
        readFieldsP n ts
    | _ => none
  readFieldsP : Nat → List String → Option (List FieldDesc × List String)
    | 0, ts => some ([], ts)
    | n+1, name :: key :: ts => do
        let key ← hx key
        let (k, ts) ← readKind ts
        match ts with
        | delim :: strip :: req :: multi :: anon :: ts =>
          let delim ← hx delim
          let strip ← hx strip
          let (fs, ts) ← readFieldsP n ts
          pure (FieldDesc.mk name key k delim strip (req == "1") (multi == "1") (anon == "1") :: fs, ts)
        | _ => none
    | _, _ => none

def readSchema (ts : List String) : Option (Schema × List String) := readKind.readSchemaP ts

partial def readVal (k : Kind) : List String → Option (Val × List String)
  | "z" :: ts => some (.zero, ts)
  | "s" :: h :: ts => do pure (.str (← hx h), ts)
  | "i" :: n :: ts => do pure (.int (← n.toInt?), ts)
  | "u" :: n :: ts => do pure (.uint (← n.toNat?), ts)
  | "b" :: b :: ts => some (.bool (b == "1"), ts)
  | "p" :: ts => do
      let (kvs, ts) ← readCounted readKV ts
      pure (.para (paraOfKVs kvs), ts)
  | "c" :: h :: ts => do
      let text ← hx h
      match k with
      | .custom typ =>
        match decodeCustom typ text with
        | .ok c => pure (.custom c, ts)
        | .error _ => none
      | _ => none
  | "l" :: n :: ts => do
      let n ← n.toNat?
      let elem := match k with | .slice e => e | _ => .str
      let (vs, ts) ← readVals (List.replicate n elem) ts
      pure (.list vs, ts)
  | "r" :: ts => do
      let sub := match k with | .nested s => s | _ => []
      let (vs, ts) ← readVals (sub.map (·.kind)) ts
      pure (.record vs, ts)
  | _ => none
where
  readVals : List Kind → List String → Option (List Val × List String)
    | [], ts => some ([], ts)
    | k :: ks, ts => do
        let (v, ts) ← readVal k ts
        let (vs, ts) ← readVals ks ts
        pure (v :: vs, ts)

def readRecord (s : Schema) (ts : List String) : Option (List Val × List String) :=
  readVal.readVals (s.map (·.kind)) ts

def dumpCustom : Custom → String
  | .version v => s!"V:{v.epoch}:{out v.upstream}:{out v.revision}"
  | .dep d => dumpDep d
  | .arch a => dumpArch a
  | .hash h => s!"H:{out h.alg}:{out h.hash}:{h.size}:{out h.filename}:{out h.byHash}:{out h.component}:{out h.priority}"

partial def dumpVal (k : Kind) (v : Val) : String :=
  match k, v with
  | .str, .str b => out b
  | .str, _ => "-"
  | .int, .int i => toString i
  | .int, _ => "0"
  | .uint, .uint n => toString n
  | .uint, _ => "0"
  | .bool, .bool b => bool01 b
  | .bool, _ => "0"
  | .para, .para p => dumpPara p
  | .para, _ => "(|)"
  | .custom _, .custom c => dumpCustom c
  | .custom typ, _ => (match customZero typ with | some c => dumpCustom c | none => "?")
  | .slice e, .list vs => "[" ++ String.intercalate ";" (vs.map (dumpVal e)) ++ "]"
  | .slice _, _ => "[]"
  | .nested s, .record vs => dumpRecord s vs
  | .nested s, _ => dumpRecord s []
  | .unsupported _, _ => "?"
where
  dumpRecord (s : Schema) (vs : List Val) : String :=
    "{" ++ String.intercalate " " ((s.zip (vs ++ List.replicate (s.length - vs.length) Val.zero)).map
      (fun (f, v) => dumpVal f.kind v)) ++ "}"

def dumpRec (s : Schema) (vs : List Val) : String := dumpVal.dumpRecord s vs

/-- apply edits `(index, value)` to a record -/
def applyEdits (r : List Val) (es : List (Nat × Val)) : List Val :=
  es.foldl (fun r (i, v) => r.set i v) r

partial def readEdits (s : Schema) : Nat → List String → Option (List (Nat × Val) × List String)
  | 0, ts => some ([], ts)
  | n+1, i :: ts => do
      let i ← i.toNat?
      let f ← s[i]?
      let (v, ts) ← readVal f.kind ts
      let (es, ts) ← readEdits s n ts
      pure ((i, v) :: es, ts)
  | _, _ => none

def codecHandler : Handler
  | "docctl", ts => do
      let (s1, ts) ← readSchema ts
      let (s2, ts) ← readSchema ts
      match ts with
      | [text] =>
        let text ← hx text
        -- ParseControl: the source paragraph, then the binaries, from one buffered reader
        pure (match Deb822.all text with
          | .error e => showRes (fun (_ : Unit) => "") (.error e)
          | .ok [] => "err"
          | .ok (p :: ps) =>
            match Codec.decodeStruct p s1 [], ps.foldlM (fun acc q => (Codec.decodeStruct q s2 []).map (fun r => acc ++ [r])) [] with
            | .ok src, .ok bins => "ok " ++ dumpRec s1 src ++ " [" ++ String.intercalate ";" (bins.map (dumpRec s2)) ++ "]"
            | .error e, _ => showRes (fun (_ : Unit) => "") (.error e)
            | _, .error e => showRes (fun (_ : Unit) => "") (.error e))
      | _ => none
  | "docu", _ :: ts => do
      let (s, ts) ← readSchema ts
      match ts with
      | [text] =>
        let text ← hx text
        pure (showRes (dumpRec s) (Codec.unmarshal s text))
      | _ => none
  | "docus", _ :: ts => do
      let (s, ts) ← readSchema ts
      match ts with
      | [text] =>
        let text ← hx text
        pure (showRes (fun rs => "[" ++ String.intercalate ";" (rs.map (dumpRec s)) ++ "]") (Codec.unmarshalAll s text))
      | _ => none
  | "codecu", _ :: ts => do
      let (s, ts) ← readSchema ts
      match ts with
      | [text] =>
        let text ← hx text
        pure (showRes (dumpRec s) (Codec.unmarshal s text))
      | _ => none
  | "codecus", _ :: ts => do
      let (s, ts) ← readSchema ts
      match ts with
      | [text] =>
        let text ← hx text
        pure (showRes (fun rs => "[" ++ String.intercalate ";" (rs.map (dumpRec s)) ++ "]") (Codec.unmarshalAll s text))
      | _ => none
  | "codecm", _ :: ts => do
      let (s, ts) ← readSchema ts
      let (r, _) ← readRecord s ts
      pure (showRes out (Codec.marshal s r))
  -- codecenc <type> <schema> n recordⁿ : one Encoder, the records one after another
  | "codecenc", _ :: ts => do
      let (s, ts) ← readSchema ts
      match ts with
      | n :: ts =>
        let n ← n.toNat?
        let rec go : Nat → List String → Option (List (List Val))
          | 0, _ => some []
          | k+1, ts => do
              let (r, ts) ← readRecord s ts
              let rest ← go k ts
              pure (r :: rest)
        let rs ← go n ts
        pure (showRes out (Codec.marshalAll s rs))
      | [] => none
  | "codecrt", _ :: ts => do
      let (s, ts) ← readSchema ts
      let (r, _) ← readRecord s ts
      pure (match Codec.marshal s r with
        | .error e => showRes out (.error e)
        | .ok text => "ok " ++ out text ++ " " ++ showRes (dumpRec s) (Codec.unmarshal s text))
  | "codecpt", _ :: ts => do
      let (s, ts) ← readSchema ts
      match ts with
      | text :: n :: ts =>
        let text ← hx text
        let n ← n.toNat?
        let (es, _) ← readEdits s n ts
        pure (match Codec.unmarshal s text with
          | .error e => showRes out (.error e)
          | .ok r => showRes out (Codec.marshal s (applyEdits r es)))
      | _ => none
  | _, _ => none

end GoDebian.Drv
