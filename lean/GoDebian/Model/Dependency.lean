/-
  Model of /repo/dependency: parser.go (cursor, eatWhitespace and the eleven parse*
  functions), arch.go (ParseArch, Matches, IsWildcard, Is), string.go (the String()
  methods), dependency.go (GetPossibilities …, SatisfiedBy).
  Transliteration of the Go text after the fix: commits listed in known_findings.json.

  Conventions: the cursor is the remaining input; `Peek()` past the end is 0, so a NUL
  byte in the input behaves like the end of input wherever the parser tests `peek == 0`
  (but `Next()` still steps over it).  Inner accumulation loops are `span`s; the loops
  that dispatch to sub-parsers are fuelled (fuel = remaining length + 1 always suffices:
  every iteration consumes a byte or returns — proved in Props/C18).
-/
import GoDebian.Base.Str
import GoDebian.Model.Version

namespace GoDebian.Dep
open GoDebian

structure Arch where
  abi : Bytes
  os  : Bytes
  cpu : Bytes
  deriving DecidableEq, Repr, Inhabited

structure ArchSet where
  neg   : Bool
  archs : List Arch
  deriving DecidableEq, Repr, Inhabited

structure VersionRelation where
  number : Bytes
  op     : Bytes
  deriving DecidableEq, Repr, Inhabited

structure Stage where
  neg  : Bool
  name : Bytes
  deriving DecidableEq, Repr, Inhabited

structure Possibility where
  name      : Bytes
  arch      : Option Arch              -- `*Arch`, the `:qualifier`
  archs     : Option ArchSet           -- `*ArchSet`; nil only for substvars
  stageSets : List (List Stage)
  version   : Option VersionRelation
  substvar  : Bool
  deriving DecidableEq, Repr, Inhabited

abbrev Relation := List Possibility
abbrev Dependency := List Relation

def sAny : Bytes := [97, 110, 121]
def sAll : Bytes := [97, 108, 108]
def sGnu : Bytes := [103, 110, 117]
def sLinux : Bytes := [108, 105, 110, 117, 120]

/-! ### arch.go -/

/-- `ParseArch` / `parseArchInto` (every case assigns all three fields). -/
def parseArch (s : Bytes) : Res Arch :=
  match Str.splitN [45] 3 s with
  | [f] => if f = sAll ∨ f = sAny then .ok ⟨f, f, f⟩ else .ok ⟨sGnu, sLinux, f⟩
  | [o, c] => .ok ⟨sAny, o, c⟩
  | [a, o, c] => .ok ⟨a, o, c⟩
  | _ => .error .err

/-- `ParseArchitectures`: split on single spaces, trim each, skip empties. -/
def parseArchitectures (s : Bytes) : Res (List Arch) :=
  (Str.split [32] s).foldlM (fun acc el =>
    let el := Str.trimSet [32, 9, 10, 13] el
    if el.isEmpty then .ok acc else
    match parseArch el with
    | .ok a => .ok (acc ++ [a])
    | .error e => .error e) []

def Arch.isWildcard (a : Arch) : Bool :=
  if a.cpu = sAll then false
  else a.abi = sAny || a.os = sAny || a.cpu = sAny

/-- `Arch.Is`; the recursion `other.Is(arch)` happens at most once (then `other` is
    not a wildcard), so it is unfolded here. -/
def Arch.isCore (a o : Arch) : Bool :=
  (a.cpu = o.cpu || (a.cpu ≠ sAll && o.cpu = sAny)) &&
  (a.os = o.os || o.os = sAny) &&
  (a.abi = o.abi || o.abi = sAny)

def Arch.is (a o : Arch) : Bool :=
  if a.isWildcard && o.isWildcard then false
  else if a.isWildcard then o.isCore a
  else a.isCore o

/-- `ArchSet.Matches` -/
def ArchSet.matches (s : ArchSet) (o : Arch) : Bool :=
  if s.archs.isEmpty then true
  else if s.archs.any (fun el => el.is o) then !s.neg else s.neg

/-! ### string.go -/

def dash : Bytes := [45]

def Arch.render (a : Arch) : Bytes :=
  let wild := a.cpu = sAny ∨ a.cpu = sAll
  if wild ∧ a.abi = a.cpu ∧ a.os = a.cpu then a.cpu
  else if ¬ wild ∧ a.cpu ≠ [] ∧ ¬ a.cpu.contains 45 ∧ a.os = sLinux ∧ a.abi = sGnu then a.cpu
  else if ¬ a.cpu.contains 45 ∧ a.abi = sAny then a.os ++ dash ++ a.cpu
  else a.abi ++ dash ++ a.os ++ dash ++ a.cpu

def ArchSet.render (s : ArchSet) : Bytes :=
  if s.archs.isEmpty then [] else
  let n : Bytes := if s.neg then [33] else []
  [91] ++ Str.joinWith [32] (s.archs.map (fun a => n ++ a.render)) ++ [93]

def VersionRelation.render (v : VersionRelation) : Bytes :=
  [40] ++ v.op ++ [32] ++ v.number ++ [41]

def Stage.render (s : Stage) : Bytes := if s.neg then 33 :: s.name else s.name

def renderStageSet (ss : List Stage) : Bytes :=
  if ss.isEmpty then [] else [60] ++ Str.joinWith [32] (ss.map Stage.render) ++ [62]

def Possibility.render (p : Possibility) : Bytes :=
  if p.substvar then [36, 123] ++ p.name ++ [125] else
  let s := p.name
  let s := match p.arch with | some a => s ++ [58] ++ a.render | none => s
  let s := match p.archs with
    | some as => (let r := as.render; if r.isEmpty then s else s ++ [32] ++ r)
    | none => s
  let s := match p.version with | some v => s ++ [32] ++ v.render | none => s
  p.stageSets.foldl (fun s ss => let r := renderStageSet ss; if r.isEmpty then s else s ++ [32] ++ r) s

def renderRelation (r : Relation) : Bytes := Str.joinWith [32, 124, 32] (r.map Possibility.render)
def render (d : Dependency) : Bytes := Str.joinWith [44, 32] (d.map renderRelation)

/-! ### parser.go -/

def isWs (c : Nat) : Bool := c = 13 || c = 10 || c = 32 || c = 9

def eatWs (l : Bytes) : Bytes := l.dropWhile isWs

def peek : Bytes → Nat
  | [] => 0
  | c :: _ => c

/-- `Next()`: the byte under the cursor (0 past the end) and the advanced cursor. -/
def next : Bytes → Nat × Bytes
  | [] => (0, [])
  | c :: rest => (c, rest)

/-- Accumulate bytes until one satisfying `stop` (or the end / a NUL byte when
    `stop 0`).  All the byte-at-a-time `+= string([]byte{input.Next()})` loops. -/
def takeUntil (stop : Nat → Bool) (l : Bytes) : Bytes × Bytes := l.span (fun c => !stop c)

/-- `parseSubstvar` -/
def parseSubstvar (inp : Bytes) : Res (Possibility × Bytes) :=
  let inp := eatWs inp
  let inp := (next inp).2
  let inp := (next inp).2
  let (name, rest) := takeUntil (fun c => c = 0 || c = 125) inp
  match rest with
  | 125 :: rest' => .ok (⟨name, none, none, [], none, true⟩, rest')
  | _ => .error .err

def multiarchStop (c : Nat) : Bool :=
  c = 44 || c = 124 || c = 0 || c = 32 || c = 9 || c = 13 || c = 10 || c = 40 || c = 91 || c = 60

/-- `parseMultiarch` -/
def parseMultiarch (inp : Bytes) : Res (Arch × Bytes) :=
  let inp := (next inp).2
  let (name, rest) := takeUntil multiarchStop inp
  match parseArch name with
  | .ok a => .ok (a, rest)
  | .error e => .error e

/-- `parsePossibilityOperator` -/
def parseOperator (inp : Bytes) : Res (Bytes × Bytes) :=
  let inp := eatWs inp
  let (leader, inp) := next inp
  if leader = 61 then .ok ([61], inp) else
  let (secondary, inp) := next inp
  if leader = 0 || secondary = 0 then .error .err else
  if (leader = 62 && secondary = 61) || (leader = 60 && secondary = 61)
      || (leader = 60 && secondary = 60) || (leader = 62 && secondary = 62)
  then .ok ([leader, secondary], inp) else .error .err

/-- `parsePossibilityNumber` -/
def parseNumber (inp : Bytes) : Res (Bytes × Bytes) :=
  let inp := eatWs inp
  let (num, rest) := takeUntil (fun c => c = 0 || c = 41) inp
  match rest with
  | 41 :: _ => .ok ((num.reverse.dropWhile isWs).reverse, rest)
  | _ => .error .err

/-- `parsePossibilityVersion` -/
def parseVersion (inp : Bytes) : Res (VersionRelation × Bytes) :=
  let inp := eatWs inp
  let inp := (next inp).2
  match parseOperator inp with
  | .error e => .error e
  | .ok (op, inp) =>
    match parseNumber inp with
    | .error e => .error e
    | .ok (num, inp) => .ok (⟨num, op⟩, (next inp).2)

/-- `parsePossibilityArch`: one entry of a `[...]` list. -/
def parseArchEntry (set : ArchSet) (inp : Bytes) : Res (ArchSet × Bytes) :=
  let inp := eatWs inp
  let hasNot := peek inp = 33
  let inp := if hasNot then (next inp).2 else inp
  if !set.archs.isEmpty && set.neg != hasNot then .error .err else
  let neg := if set.archs.isEmpty then hasNot else set.neg
  let (name, rest) := takeUntil (fun c => c = 0 || c = 33 || c = 93 || isWs c) inp
  match rest with
  | [] => .error .err
  | c :: _ =>
    if c = 0 || c = 33 then .error .err else
    match parseArch name with
    | .ok a => .ok (⟨neg, set.archs ++ [a]⟩, rest)
    | .error e => .error e

/-- `parsePossibilityArchs` after the `[` has been consumed: the entry loop. -/
def parseArchsLoop : Nat → ArchSet → Bytes → Res (ArchSet × Bytes)
  | 0, _, _ => .error .fuel
  | fuel+1, set, inp =>
    let inp := eatWs inp
    match inp with
    | [] => .error .err
    | c :: rest =>
      if c = 0 then .error .err
      else if c = 93 then .ok (set, rest)
      else match parseArchEntry set inp with
        | .error e => .error e
        | .ok (set', inp') => parseArchsLoop fuel set' inp'

def parseArchs (set : ArchSet) (inp : Bytes) : Res (ArchSet × Bytes) :=
  let inp := eatWs inp
  let inp := (next inp).2
  parseArchsLoop (inp.length + 1) set inp

/-- `parsePossibilityStage`: optional leading `!`, then the name up to `>` or white
    space; a `!` anywhere else is an error. -/
def parseStage (inp : Bytes) : Res (Stage × Bytes) :=
  let inp := eatWs inp
  let neg := peek inp = 33
  let inp := if neg then (next inp).2 else inp
  let (name, rest) := takeUntil (fun c => c = 0 || c = 33 || c = 62 || isWs c) inp
  match rest with
  | [] => .error .err
  | c :: _ => if c = 0 || c = 33 then .error .err else .ok (⟨neg, name⟩, rest)

def parseStageSetLoop : Nat → List Stage → Bytes → Res (List Stage × Bytes)
  | 0, _, _ => .error .fuel
  | fuel+1, acc, inp =>
    let inp := eatWs inp
    match inp with
    | [] => .error .err
    | c :: rest =>
      if c = 0 then .error .err
      else if c = 62 then .ok (acc, rest)
      else match parseStage inp with
        | .error e => .error e
        | .ok (st, inp') => parseStageSetLoop fuel (acc ++ [st]) inp'

/-- `parsePossibilityStageSet` -/
def parseStageSet (inp : Bytes) : Res (List Stage × Bytes) :=
  let inp := eatWs inp
  let inp := (next inp).2
  parseStageSetLoop (inp.length + 1) [] inp

/-- `parsePossibilityControllers` -/
def parseControllers : Nat → Possibility → Bytes → Res (Possibility × Bytes)
  | 0, _, _ => .error .fuel
  | fuel+1, p, inp =>
    let inp := eatWs inp
    let c := peek inp
    if c = 44 || c = 124 || c = 0 then .ok (p, inp)
    else if c = 40 then
      if p.version.isSome then .error .err else
      match parseVersion inp with
      | .error e => .error e
      | .ok (v, inp') => parseControllers fuel { p with version := some v } inp'
    else if c = 91 then
      match p.archs with
      | none => .error .panic        -- nil *ArchSet dereference (unreachable: not a substvar)
      | some set =>
        if !set.archs.isEmpty then .error .err else
        match parseArchs set inp with
        | .error e => .error e
        | .ok (set', inp') => parseControllers fuel { p with archs := some set' } inp'
    else if c = 60 then
      match parseStageSet inp with
      | .error e => .error e
      | .ok (ss, inp') =>
        parseControllers fuel (if ss.isEmpty then p else { p with stageSets := p.stageSets ++ [ss] }) inp'
    else .error .err

def nameStop (c : Nat) : Bool :=
  c = 58 || c = 32 || c = 9 || c = 13 || c = 10 || c = 40 || c = 44 || c = 124 || c = 0

/-- The loop of `parsePossibility` for a non-substvar; returns `none` when the name is
    empty at the end (nothing is appended to the relation). -/
def parsePossibilityLoop : Nat → Possibility → Bytes → Res (Option Possibility × Bytes)
  | 0, _, _ => .error .fuel
  | fuel+1, p, inp =>
    let (chunk, rest) := takeUntil nameStop inp
    let p := { p with name := p.name ++ chunk }
    let c := peek rest
    if c = 58 then
      match parseMultiarch rest with
      | .error e => .error e
      | .ok (a, rest') => parsePossibilityLoop fuel { p with arch := some a } rest'
    else if c = 44 || c = 124 || c = 0 then
      .ok (if p.name.isEmpty then none else some p, rest)
    else
      match parseControllers (rest.length + 1) p rest with
      | .error e => .error e
      | .ok (p', rest') => parsePossibilityLoop fuel p' rest'

def emptyPossibility : Possibility := ⟨[], none, some ⟨false, []⟩, [], none, false⟩

/-- `parsePossibility` -/
def parsePossibility (inp : Bytes) : Res (Option Possibility × Bytes) :=
  let inp := eatWs inp
  if peek inp = 36 then
    match parseSubstvar inp with
    | .error e => .error e
    | .ok (p, rest) => .ok (some p, rest)
  else parsePossibilityLoop (inp.length + 1) emptyPossibility inp

/-- The loop of `parseRelation`. -/
def parseRelationLoop : Nat → Relation → Bytes → Res (Relation × Bytes)
  | 0, _, _ => .error .fuel
  | fuel+1, acc, inp =>
    let c := peek inp
    if c = 0 || c = 44 then .ok (acc, inp)
    else if c = 124 then parseRelationLoop fuel acc (eatWs (next inp).2)
    else match parsePossibility inp with
      | .error e => .error e
      | .ok (some p, rest) => parseRelationLoop fuel (acc ++ [p]) rest
      | .ok (none, rest) => parseRelationLoop fuel acc rest

def parseRelation (inp : Bytes) : Res (Relation × Bytes) :=
  let inp := eatWs inp
  parseRelationLoop (inp.length + 1) [] inp

/-- The loop of `parseDependency`. -/
def parseDependencyLoop : Nat → Dependency → Bytes → Res Dependency
  | 0, _, _ => .error .fuel
  | fuel+1, acc, inp =>
    let c := peek inp
    if c = 0 then .ok acc
    else if c = 44 then parseDependencyLoop fuel acc (eatWs (next inp).2)
    else match parseRelation inp with
      | .error e => .error e
      | .ok (rel, rest) => parseDependencyLoop fuel (if rel.isEmpty then acc else acc ++ [rel]) rest

/-- `Parse(in)` -/
def parse (inp : Bytes) : Res Dependency :=
  let inp := eatWs inp
  parseDependencyLoop (inp.length + 1) [] inp

/-! ### dependency.go -/

def possMatches (p : Possibility) (a : Arch) : Res Bool :=
  match p.archs with
  | none => .error .panic            -- nil pointer method call dereferences `set.Architectures`
  | some s => .ok (s.matches a)

/-- `GetPossibilities`: per relation the first non-substvar alternative that matches. -/
def firstMatch (a : Arch) : Relation → Res (Option Possibility)
  | [] => .ok none
  | p :: rest =>
    if p.substvar then firstMatch a rest else
    match possMatches p a with
    | .error e => .error e
    | .ok true => .ok (some p)
    | .ok false => firstMatch a rest

def getPossibilities (d : Dependency) (a : Arch) : Res (List Possibility) :=
  d.foldlM (fun acc rel => match firstMatch a rel with
    | .error e => .error e
    | .ok none => .ok acc
    | .ok (some p) => .ok (acc ++ [p])) []

def getAllPossibilities (d : Dependency) : List Possibility :=
  d.flatMap (fun rel => rel.filter (fun p => !p.substvar))

def getSubstvars (d : Dependency) : List Possibility :=
  d.flatMap (fun rel => rel.filter (fun p => p.substvar))

def opGE : Bytes := [62, 61]
def opLE : Bytes := [60, 61]
def opGT : Bytes := [62, 62]
def opLT : Bytes := [60, 60]
def opEQ : Bytes := [61]

/-- `VersionRelation.SatisfiedBy` -/
def satisfiedBy (v : VersionRelation) (ver : Version.Version) : Bool :=
  match Version.parse v.number with
  | .error _ => false
  | .ok n =>
    let q := Version.compare ver n
    if v.op = opGE then q ≥ 0
    else if v.op = opLE then q ≤ 0
    else if v.op = opGT then q > 0
    else if v.op = opLT then q < 0
    else if v.op = opEQ then q = 0
    else false

end GoDebian.Dep
