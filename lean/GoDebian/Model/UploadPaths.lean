/-
  The paths Copy / Move / Remove hand to the file system (control/dsc.go, changes.go):
  for every listed file `AbsFiles()` gives the source path, the destination is
  `dest + "/" + filepath.Base(source)`; the control file itself comes last.  The abstract
  file-system model (Model/Upload.lean) works on names inside two directories; this is the
  layer that says which paths those names become.  Core Lean only.
-/
import GoDebian.Model.Accessors
import GoDebian.Model.Upload

namespace GoDebian.Upload
open GoDebian

/-- (source, destination) per file-system call of a Copy / Move, in call order -/
def planPaths (filename dest : Bytes) (names : List Bytes) : List (Bytes × Bytes) :=
  (names.map (fun n => (Acc.absFile filename n, dest ++ [47] ++ Path.base (Acc.absFile filename n))))
    ++ [(filename, dest ++ [47] ++ Path.base filename)]

/-- the handle's Filename after a successful Copy / Move -/
def newFilename (filename dest : Bytes) : Bytes := dest ++ [47] ++ Path.base filename

/-- the paths a Remove deletes, in call order -/
def removePaths (filename : Bytes) (names : List Bytes) : List Bytes :=
  names.map (Acc.absFile filename) ++ [filename]

end GoDebian.Upload
