/-
  Model of DSC/Changes Copy, Move, Remove (control/dsc.go, control/changes.go) and
  internal.Copy over an abstract file system: the control file's directory, the
  destination directory and "everything else".  Faults are file-system states (a source
  that is missing or a directory, a destination name occupied by a directory, a missing
  destination), so every failure point of every step is reachable without hooks.
  Transliteration of the Go text after the fix: commits.
-/
import GoDebian.Base.Path

namespace GoDebian.Upload
open GoDebian

inductive Node where
  | file (content : Nat)
  | dir (nonempty : Bool)
  deriving DecidableEq, Repr

inductive DestKind where
  | dir | missing | file
  deriving DecidableEq, Repr

abbrev Dir := List (Bytes × Node)

structure State where
  src      : Dir          -- the control file's directory
  destKind : DestKind
  dest     : Dir          -- entries of the destination (meaningful when destKind = dir)
  outside  : Bool         -- has anything outside the two directories been touched?
  deriving DecidableEq, Repr

def get (d : Dir) (n : Bytes) : Option Node := (d.find? (·.1 = n)).map (·.2)
def del (d : Dir) (n : Bytes) : Dir := d.filter (·.1 ≠ n)
def put (d : Dir) (n : Bytes) (x : Node) : Dir := del d n ++ [(n, x)]

/-- `checkListedFilename`: a plain file name -/
def plain (n : Bytes) : Bool := !n.isEmpty && n ≠ [46] && n ≠ [46, 46] && !n.contains 47 && Path.base n = n

/-- `internal.Copy(src/name, dest/name)` -/
def copyFile (s : State) (n : Bytes) : State × Bool :=
  match get s.src n with
  | none => (s, false)                                   -- os.Open fails
  | some node =>
    if s.destKind ≠ .dir then (s, false) else            -- os.Create: no such directory
    match get s.dest n with
    | some (.dir _) => (s, false)                        -- os.Create: is a directory
    | _ =>
      match node with
      | .dir _ => ({ s with dest := del s.dest n }, false)   -- io.Copy fails; partial file removed
      | .file c => ({ s with dest := put s.dest n (.file c) }, true)

/-- `os.Rename(src/name, dest/name)` -/
def moveFile (s : State) (n : Bytes) : State × Bool :=
  match get s.src n with
  | none => (s, false)
  | some node =>
    if s.destKind ≠ .dir then (s, false) else
    let ok : Bool := match node, get s.dest n with
      | .file _, some (.dir _) => false
      | .file _, _ => true
      | .dir _, none => true
      | .dir _, some (.file _) => false
      | .dir _, some (.dir _) => false          -- Go's os.Rename refuses an existing directory as target
    if ok then ({ s with src := del s.src n, dest := put s.dest n node }, true) else (s, false)

/-- `os.Remove(src/name)` -/
def removeFile (s : State) (n : Bytes) : State × Bool :=
  match get s.src n with
  | none => (s, false)
  | some (.dir true) => (s, false)
  | some _ => ({ s with src := del s.src n }, true)

inductive Op where
  | copy | move | remove
  deriving DecidableEq, Repr

def step (op : Op) : State → Bytes → State × Bool :=
  match op with | .copy => copyFile | .move => moveFile | .remove => removeFile

/-- the referenced files in order, stopping at the first failure -/
def runFiles (op : Op) : State → List Bytes → State × Bool
  | s, [] => (s, true)
  | s, n :: rest =>
    match step op s n with
    | (s', true) => runFiles op s' rest
    | (s', false) => (s', false)

structure Outcome where
  state      : State
  ok         : Bool
  handleDest : Bool        -- does the handle's Filename point into the destination?
  deriving DecidableEq, Repr

/-- `Copy` / `Move` / `Remove` on a handle whose control file is `ctl` and which lists `names` -/
def exec (op : Op) (s : State) (ctl : Bytes) (names : List Bytes) : Outcome :=
  if !names.all plain then ⟨s, false, false⟩ else
  if names.contains ctl then ⟨s, false, false⟩ else      -- a control file that lists itself
  if op ≠ .remove ∧ s.destKind = .file then ⟨s, false, false⟩ else
  match runFiles op s names with
  | (s', false) => ⟨s', false, false⟩
  | (s', true) =>
    match step op s' ctl with
    | (s'', true) => ⟨s'', true, op ≠ .remove⟩
    | (s'', false) => ⟨s'', false, false⟩

/-! ### one handle used for several operations

A handle (`*DSC` / `*Changes`) is a value the caller keeps: after a successful `Copy` or
`Move` its `Filename` points into the destination and the next operation starts from
there.  `World` has any number of directories; `here` is the one holding the handle's
control file. -/

structure World where
  dirs : List Dir
  here : Nat
  deriving DecidableEq, Repr

/-- one operation of the handle towards directory `target` (ignored by `remove`).  An
    operation onto the handle's own directory is not modelled (`none`). -/
def execW (op : Op) (w : World) (target : Nat) (ctl : Bytes) (names : List Bytes) : Option (World × Bool) :=
  if target = w.here then none else
  match w.dirs[w.here]?, w.dirs[target]? with
  | some s, some d =>
    let o := exec op ⟨s, .dir, d, false⟩ ctl names
    some (⟨(w.dirs.set w.here o.state.src).set target o.state.dest,
           if o.handleDest then target else w.here⟩, o.ok)
  | _, _ => none

/-- a sequence of operations on the same handle; the results of the individual calls -/
def runW (ctl : Bytes) (names : List Bytes) : World → List (Op × Nat) → Option (World × List Bool)
  | w, [] => some (w, [])
  | w, (op, t) :: rest =>
    match execW op w t ctl names with
    | none => none
    | some (w', ok) =>
      match runW ctl names w' rest with
      | none => none
      | some (w'', oks) => some (w'', ok :: oks)

end GoDebian.Upload
