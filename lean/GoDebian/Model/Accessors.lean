/-
  The accessors derived from decoded fields (control/dsc.go, changes.go, control.go,
  index.go) and the path arithmetic of the file entry points:

    DSC.Maintainers / SourceParagraph.Maintainers, DSC.HasArchAll, DSC.DebianSource,
    BinaryIndex.SourcePackage, BestChecksums.Checksums, Paragraph.getOptionalDependencyField
    (behind the Get*Depends accessors), DSC.AbsFiles / Changes.AbsFiles,
    filepath.Abs as used by ParseDscFile / ParseChangesFile / ParseControlFile, and
    Changes.GetDSC's path.

  Hand transliteration; tied by the `acc-*` operations of the correspondence stream
  (the harness builds the structs with the given field values and calls the real methods).
  Core Lean only.
-/
import GoDebian.Base.Path
import GoDebian.Model.Dependency
import GoDebian.Model.Deb822

namespace GoDebian.Acc
open GoDebian

/-- `Maintainers()`: the maintainer, then the uploaders -/
def maintainers (maintainer : Bytes) (uploaders : List Bytes) : List Bytes := maintainer :: uploaders

/-- `HasArchAll()` -/
def hasArchAll (archs : List Dep.Arch) : Bool :=
  archs.any (fun a => a.cpu = Dep.sAll && a.os = Dep.sAll && a.abi = Dep.sAll)

/-- `DebianSource()`: the first listed file whose name contains ".debian." -/
def debianSource (files : List Bytes) : Res Bytes :=
  match files.find? (fun f => Str.contains f (Bytes.ofString ".debian.")) with
  | some f => .ok f
  | none => .error .err

/-- `BinaryIndex.SourcePackage()` -/
def sourcePackage (package source : Bytes) : Bytes :=
  if source.isEmpty then package
  else if !Str.contains source [32] then source
  else (Str.split [32] source).headD []

/-- `deb.Control.SourceName()`: the Source field, or the package's own name without one -/
def sourceName (package source : Bytes) : Bytes := if source.isEmpty then package else source

/-- a checksum entry as the accessors see it: the algorithm tag and the rest -/
structure Hash where
  algorithm : Bytes
  hash : Bytes
  size : Int
  filename : Bytes
  deriving DecidableEq, Repr

/-- `BestChecksums.Checksums()`: SHA-256 entries when there are any, else the SHA-512 ones,
    else nothing (nil) -/
def bestChecksums (sha256 sha512 : List Hash) : List Hash :=
  if sha256.length > 0 then sha256 else if sha512.length > 0 then sha512 else []

/-- `FileHash.ByHashPath(path)`: the by-hash location next to an index file -/
def byHashPath (path byHash hash : Bytes) : Bytes :=
  Path.dir path ++ Bytes.ofString "/by-hash/" ++ byHash ++ [47] ++ hash

/-- `getOptionalDependencyField`: the field parsed as a relationship field; an absent field
    is the empty text; a malformed one gives the empty dependency -/
def optionalDependency (p : Deb822.Paragraph) (field : Bytes) : Dep.Dependency :=
  match Dep.parse (p.get field) with
  | .ok d => d
  | .error _ => []

/-! ### paths -/

/-- `filepath.IsAbs` (Unix) -/
def isAbs (p : Bytes) : Bool := p.head? = some 47

/-- `filepath.Abs` relative to the working directory `cwd` -/
def abs (cwd p : Bytes) : Bytes := if isAbs p then Path.clean p else Path.join cwd p

/-- one entry of `AbsFiles()`: `path.Join(filepath.Dir(Filename), name)` -/
def absFile (filename name : Bytes) : Bytes := Path.join (Path.dir filename) name

/-- `AbsFiles()` (the names; hash, size, section and priority are copied) -/
def absFiles (filename : Bytes) (names : List Bytes) : List Bytes := names.map (absFile filename)

/-- the `Filename` of the handle `ParseDscFile(path)` returns when the working directory is `cwd` -/
def parseFileName (cwd path : Bytes) : Bytes := abs cwd path

/-- `Changes.GetDSC()`: the path handed to `ParseDscFile` for the first listed name ending in
    ".dsc" (`filepath.Dir(Filename) + "/" + name`), and the Filename of the resulting handle -/
def getDSCPath (cwd filename : Bytes) (names : List Bytes) : Res Bytes :=
  match names.find? (fun n => Str.hasSuffix n (Bytes.ofString ".dsc")) with
  | some n => .ok (abs cwd (Path.dir filename ++ [47] ++ n))
  | none => .error .err

end GoDebian.Acc
