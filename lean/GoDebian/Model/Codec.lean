/-
  Model of /repo/control/decode.go and encode.go: the reflection walkers reduced to a
  *schema interpreter*.  A `Schema` is what `reflect` tells the Go code about a struct
  type (field name, tags, kind); the harness reads it off the real types at run time
  and sends it with every operation, so model and implementation always interpret the
  same schema.  Custom (self-decoding) field types plug in the Version / Dependency /
  FileHash models.  Transliteration of the Go text after the fix: commits.
-/
import GoDebian.Model.Deb822
import GoDebian.Model.Version
import GoDebian.Model.Dependency

namespace GoDebian.Codec
open GoDebian GoDebian.Deb822

/-! ### Custom values (types implementing `UnmarshalControl`) -/

structure FileHash where
  alg : Bytes
  hash : Bytes
  size : Int
  filename : Bytes
  byHash : Bytes
  component : Bytes := []     -- FileListChangesFileHash only
  priority : Bytes := []
  deriving DecidableEq, Repr, Inhabited

inductive Custom where
  | version (v : Version.Version)
  | dep (d : Dep.Dependency)
  | arch (a : Dep.Arch)
  | hash (h : FileHash)
  deriving Repr, Inhabited

def sMd5 : Bytes := [109, 100, 53]
def sSha1 : Bytes := [115, 104, 97, 49]
def sSha256 : Bytes := [115, 104, 97, 50, 53, 54]
def sSha512 : Bytes := [115, 104, 97, 53, 49, 50]

/-- `FileHash.unmarshalControl(algorithm, data)` -/
def parseFileHash (alg data : Bytes) : Res FileHash :=
  match Str.fields data with
  | [h, s, f] =>
    match Str.parseInt64 s with
    | none => .error .err
    | some n =>
      let bh : Bytes := if alg = sSha256 then [83, 72, 65, 50, 53, 54]
        else if alg = sSha512 then [83, 72, 65, 53, 49, 50] else []
      .ok { alg := alg, hash := h, size := n, filename := f, byHash := bh }
  | [f, h] => .ok { alg := alg, hash := h, size := 0, filename := f, byHash := [] }
  | _ => .error .err

/-- `FileListChangesFileHash.UnmarshalControl` -/
def parseChangesHash (data : Bytes) : Res FileHash :=
  match Str.split [32] data with
  | h :: s :: c :: p :: f :: _ =>
    match Str.parseInt64 s with
    | none => .error .err
    | some n => .ok { alg := sMd5, hash := h, size := n, filename := f, byHash := [], component := c, priority := p }
  | _ => .error .err

/-- `FileHash.marshalControl` -/
def renderFileHash (h : FileHash) : Bytes := h.hash ++ [32] ++ Str.fmtInt h.size ++ [32] ++ h.filename

/-- kinds of self-decoding types, by Go type name -/
def decodeCustom (typ : String) (data : Bytes) : Res Custom :=
  match typ with
  | "Version" => (Version.parse data).map .version
  | "Dependency" => (Dep.parse data).map .dep
  | "Arch" => (Dep.parseArch data).map .arch
  | "MD5FileHash" => (parseFileHash sMd5 data).map .hash
  | "SHA1FileHash" => (parseFileHash sSha1 data).map .hash
  | "SHA256FileHash" => (parseFileHash sSha256 data).map .hash
  | "SHA512FileHash" => (parseFileHash sSha512 data).map .hash
  | "FileListChangesFileHash" => (parseChangesHash data).map .hash
  | _ => .error .err

/-- does the type implement `Marshallable`? (FileListChangesFileHash does not) -/
def encodeCustom (typ : String) (c : Custom) : Res Bytes :=
  match typ, c with
  | "FileListChangesFileHash", _ => .error .err
  | _, .version v => .ok (Version.toString v)
  | _, .dep d => .ok (Dep.render d)
  | _, .arch a => .ok a.render
  | _, .hash h => .ok (renderFileHash h)

/-! ### Schemas and records -/

mutual
  inductive Kind where
    | str | int | uint | bool
    | para                         -- control.Paragraph (struct kind, not self-decoding)
    | custom (typ : String)        -- struct kind implementing Unmarshallable
    | slice (elem : Kind)
    | nested (fields : List FieldDesc)   -- any other struct
    | unsupported (name : String)  -- map, float, pointer, int64 …: both walkers report an error
  inductive FieldDesc where
    | mk (name : String) (key : Bytes) (kind : Kind) (delim strip : Bytes)
         (required multiline anonymous : Bool)
end

abbrev Schema := List FieldDesc

def FieldDesc.name : FieldDesc → String | .mk n _ _ _ _ _ _ _ => n
def FieldDesc.key : FieldDesc → Bytes | .mk _ k _ _ _ _ _ _ => k
def FieldDesc.kind : FieldDesc → Kind | .mk _ _ k _ _ _ _ _ => k
def FieldDesc.delim : FieldDesc → Bytes | .mk _ _ _ d _ _ _ _ => d
def FieldDesc.strip : FieldDesc → Bytes | .mk _ _ _ _ s _ _ _ => s
def FieldDesc.required : FieldDesc → Bool | .mk _ _ _ _ _ r _ _ => r
def FieldDesc.multiline : FieldDesc → Bool | .mk _ _ _ _ _ _ m _ => m
def FieldDesc.anonymous : FieldDesc → Bool | .mk _ _ _ _ _ _ _ a => a

/-- Values of struct fields. `zero` is the untouched Go zero value of any kind. -/
inductive Val where
  | zero
  | str (b : Bytes)
  | int (i : Int)
  | uint (n : Nat)
  | bool (b : Bool)
  | para (p : Paragraph)
  | custom (c : Custom)
  | list (vs : List Val)
  | record (fields : List Val)
  deriving Repr, Inhabited

/-! ### decode.go -/

/-- `decodeStructValue(field, fieldType, value)`: the new content of the field.
    Fuel bounds the nesting depth of slice kinds. -/
def decodeValue : Nat → Kind → Bytes → Bytes → Val → Bytes → Res Val
  | 0, _, _, _, _, _ => .error .fuel
  | fuel+1, k, delim, strip, _old, value =>
    match k with
    | .str => .ok (.str value)
    | .int =>
      if value.isEmpty then .ok (.int 0) else
      match Str.parseInt64 value with
      | some i => .ok (.int i)
      | none => .error .err
    | .uint =>
      if value.isEmpty then .ok (.uint 0) else
      -- strconv.ParseUint(value, 10, 0): digits only, no sign, < 2^64
      if value.all Str.isDigit then
        (match Str.digitsVal value 0 with
         | some n => if n < 2^64 then .ok (.uint n) else .error .err
         | none => .error .err)
      else .error .err
    | .bool => .ok (.bool (value = [121, 101, 115]))
    | .custom typ => (decodeCustom typ value).map .custom
    | .para => .error .err                 -- struct kind without UnmarshalControl
    | .nested _ => .error .err
    | .unsupported _ => .error .err
    | .slice elem =>
      let delim' := if delim.isEmpty then [32] else delim
      -- field.Set(reflect.Zero(...)): the list is what the field says, whatever `old` held
      let v := Str.trimSet strip value
      if v.isEmpty then .ok .zero else
      let els := if delim' = [32] then Str.fields v else Str.split delim' v
      let start : List Val := []
      (els.foldlM (fun acc el =>
        (decodeValue fuel elem delim strip .zero (Str.trimSet strip el)).map (fun v => acc ++ [v])) start).map .list

def isStructKind : Kind → Bool
  | .para | .custom _ | .nested _ => true
  | _ => false

/-- `decodeStruct(p, into)`: fields are visited in order; `olds` holds the current field
    values (Go decodes into existing memory).  Fuel bounds the number of fields visited,
    nested structs included. -/
def decodeFields : Nat → Paragraph → Schema → List Val → Res (List Val)
  | 0, _, _, _ => .error .fuel
  | _, _, [], _ => .ok []
  | fuel+1, p, f :: fs, olds =>
    let old := olds.headD .zero
    let rest := olds.tail
    -- plain nested structs share the paragraph's fields
    let afterNested : Res Val := match f.kind with
      | .nested sub =>
        let oldFields := match old with | .record r => r | _ => []
        (decodeFields fuel p sub oldFields).map .record
      | _ => .ok old
    match afterNested with
    | .error e => .error e
    | .ok cur =>
      let continueWith (v : Val) : Res (List Val) :=
        (decodeFields fuel p fs rest).map (v :: ·)
      if f.key = [45] then continueWith cur else
      let afterAnon : Option Val :=        -- none = `continue` (anonymous non-Paragraph)
        if f.anonymous then (match f.kind with | .para => some (.para p) | _ => none) else some cur
      match afterAnon with
      | none => continueWith cur
      | some cur =>
        match lookup f.key p.values with
        | some value =>
          (match decodeValue 16 f.kind f.delim f.strip cur value with
           | .error e => .error e
           | .ok v => continueWith v)
        | none => if f.required then .error .err else continueWith cur

def decodeStruct (p : Paragraph) (s : Schema) (old : List Val) : Res (List Val) :=
  decodeFields 100000 p s old

/-! ### encode.go -/

/-- zero values of the custom types (what `MarshalControl` renders for them) -/
def customZero (typ : String) : Option Custom :=
  match typ with
  | "Version" => some (.version ⟨0, [], []⟩)
  | "Dependency" => some (.dep [])
  | "Arch" => some (.arch ⟨[], [], []⟩)
  | "MD5FileHash" | "SHA1FileHash" | "SHA256FileHash" | "SHA512FileHash"
  | "FileListChangesFileHash" => some (.hash { alg := [], hash := [], size := 0, filename := [], byHash := [] })
  | _ => none

/-- `marshalStructValue` -/
def marshalValue : Nat → Kind → Bytes → Val → Res Bytes
  | 0, _, _, _ => .error .fuel
  | fuel+1, k, delim, v =>
    match k, v with
    | .str, .str b => .ok b
    | .str, _ => .ok []
    | .int, .int i => .ok (Str.fmtInt i)
    | .int, _ => .ok [48]
    | .uint, .uint n => .ok (Str.fmtNat n)
    | .uint, _ => .ok [48]
    | .bool, .bool true => .ok [121, 101, 115]
    | .bool, _ => .ok [110, 111]
    | .custom typ, .custom c => encodeCustom typ c
    | .custom typ, _ =>
      (match customZero typ with
       | some c => encodeCustom typ c
       | none => .error .err)
    | .slice elem, .list vs =>
      let delim' := if delim.isEmpty then [32] else delim
      (vs.foldlM (fun acc v => (marshalValue fuel elem delim v).map (fun b => acc ++ [b])) []).map (Str.joinWith delim')
    | .slice _, _ => .ok []
    | .para, _ => .error .err
    | .nested _, _ => .error .err
    | .unsupported _, _ => .error .err

/-- `convertToParagraph` -/
def convertToParagraph (s : Schema) (r : List Val) : Res Paragraph :=
  let step (acc : Res (Paragraph × List Bytes × List (Bytes × Bytes) × List Bytes))
      (fv : FieldDesc × Val) : Res (Paragraph × List Bytes × List (Bytes × Bytes) × List Bytes) :=
    match acc with
    | .error e => .error e
    | .ok (found, order, values, omitted) =>
      let (f, v) := fv
      if f.anonymous then
        (match f.kind, v with
         | .para, .para p => .ok (p, order, values, omitted)
         | .para, _ => .ok (Deb822.empty, order, values, omitted)
         | _, _ => .ok (found, order, values, omitted))
      else if f.key = [45] then .ok (found, order, values, omitted)
      else match marshalValue 16 f.kind f.delim v with
        | .error e => .error e
        | .ok data =>
          if data.isEmpty && !f.required then .ok (found, order, values, omitted ++ [f.key])
          else
            let data := if f.multiline then 10 :: data else data
            .ok (found, order ++ [f.key], insert f.key data values, omitted)
  match (s.zip r).foldl step (.ok (Deb822.empty, [], [], [])) with
  | .error e => .error e
  | .ok (found, order, values, omitted) =>
    let base : Paragraph := found.order.foldl (fun b k =>
      if omitted.contains k then b else b.set k (found.get k)) Deb822.empty
    .ok (base.update ⟨order, values⟩)

/-- `Marshal(writer, &struct)` -/
def marshal (s : Schema) (r : List Val) : Res Bytes :=
  (convertToParagraph s r).map Paragraph.write

/-- `Encoder.Encode` of a slice of structs: blank line between paragraphs -/
def marshalAll (s : Schema) (rs : List (List Val)) : Res Bytes :=
  (rs.foldlM (fun acc r => (marshal s r).map (fun b => acc ++ [b])) []).map (Str.joinWith [10])

/-- `Unmarshal(&struct, reader)`: one paragraph (io.EOF is an error here) -/
def unmarshal (s : Schema) (input : Bytes) : Res (List Val) :=
  match Deb822.next (Deb822.physLines input) with
  | .eof => .error .err
  | .bad => .error .err
  | .para p _ => decodeStruct p s []

/-- `Unmarshal(&[]struct, reader)` -/
def unmarshalAll (s : Schema) (input : Bytes) : Res (List (List Val)) :=
  match Deb822.all input with
  | .error e => .error e
  | .ok ps => ps.foldlM (fun acc p => (decodeStruct p s []).map (fun r => acc ++ [r])) []

end GoDebian.Codec
