/-
  Model of /repo/hashio (Hasher, NewHasherWriter(s), NewHasherReader(s)) and of
  control/filehash.go (Verifier, FileHashFromHasher) and BestChecksums.Checksums.
  The digest functions are a parameter `H : algorithm name → message → digest`; a
  running hash is modelled by the bytes fed so far (the streaming law of Go's
  hash.Hash — Sum after Write a, Write b equals the digest of a ++ b — is the contract).
-/
import GoDebian.Model.Codec

namespace GoDebian.Hashio
open GoDebian

abbrev Digest := Bytes → Bytes → Bytes        -- algorithm name → message → digest

def supported (name : Bytes) : Bool :=
  name = Codec.sMd5 || name = Codec.sSha1 || name = Codec.sSha256 || name = Codec.sSha512

structure Hasher where
  name : Bytes
  fed  : Bytes        -- everything written so far
  size : Nat
  deriving DecidableEq, Repr

/-- `GetCompressor`: "gz" is the one compressor; every other name is an error -/
def knownCompressor (name : Bytes) : Bool := name = [103, 122]

/-- `NewHasher` / `GetHash`: unknown names are an error -/
def newHasher (name : Bytes) : Res Hasher :=
  if supported name then .ok ⟨name, [], 0⟩ else .error .err

/-- `Hasher.Write` -/
def Hasher.write (h : Hasher) (p : Bytes) : Hasher := ⟨h.name, h.fed ++ p, h.size + p.length⟩

def Hasher.sum (H : Digest) (h : Hasher) : Bytes := H h.name h.fed

/-- `io.MultiWriter(hashers…, target)`: every chunk goes to every hasher, then to the target -/
structure Pipe where
  hashers : List Hasher
  target  : Bytes        -- what the underlying writer received / the reader's consumer saw
  deriving DecidableEq, Repr

def Pipe.write (p : Pipe) (chunk : Bytes) : Pipe := ⟨p.hashers.map (·.write chunk), p.target ++ chunk⟩

/-- `NewHasherWriters(names, target)` / `NewHasherReaders`: an error if any name is unknown -/
def newPipe (names : List Bytes) : Res Pipe :=
  (names.foldlM (fun acc n => (newHasher n).map (fun h => acc ++ [h])) []).map (fun hs => ⟨hs, []⟩)

/-- writing the chunks one after the other; reading through a TeeReader in the same
    chunking has the same effect on hashers and consumer -/
def run (names : List Bytes) (chunks : List Bytes) : Res Pipe :=
  (newPipe names).map (fun p => chunks.foldl Pipe.write p)

/-! ### control/filehash.go -/

def hexVal (c : Nat) : Option Nat :=
  if 48 ≤ c ∧ c ≤ 57 then some (c - 48)
  else if 97 ≤ c ∧ c ≤ 102 then some (c - 87)
  else if 65 ≤ c ∧ c ≤ 70 then some (c - 55)
  else none

/-- `hex.DecodeString` -/
def hexDecode : Bytes → Option Bytes
  | [] => some []
  | [_] => none
  | a :: b :: rest => do
    let x ← hexVal a
    let y ← hexVal b
    let r ← hexDecode rest
    pure ((x * 16 + y) :: r)

def hexDigit (n : Nat) : Nat := if n < 10 then 48 + n else 87 + n

/-- `fmt.Sprintf("%x", digest)` -/
def hexEncode (b : Bytes) : Bytes := b.flatMap (fun x => [hexDigit (x / 16), hexDigit (x % 16)])

inductive Verdict where
  | accept | reject | unsupported | badHex
  deriving DecidableEq, Repr

/-- `FileHash.Verifier()` then writing `data` in any chunking and `Close()` -/
def verify (H : Digest) (alg hash data : Bytes) : Verdict :=
  if !supported alg then .unsupported else
  match hexDecode hash with
  | none => .badHex
  | some want => if H alg data = want then .accept else .reject

/-- `FileHashFromHasher(path, hasher)` -/
def fileHashFromHasher (H : Digest) (path : Bytes) (h : Hasher) : Codec.FileHash :=
  { alg := h.name, hash := hexEncode (h.sum H), size := h.size, filename := path, byHash := [] }

/-- `BestChecksums.Checksums()`: SHA-256 entries if any, else SHA-512 entries -/
def bestChecksums (sha256 sha512 : List Codec.FileHash) : List Codec.FileHash :=
  if !sha256.isEmpty then sha256 else sha512

end GoDebian.Hashio
