/-
  Model of /repo/deb/ar.go: checkAr, Ar.Next, parseArEntry over an immutable byte string
  (`io.ReaderAt` = random access; a member's `*io.SectionReader` = an (offset, length)
  view).  Transliteration of the Go text after the fix: commits.
-/
import GoDebian.Base.Str

namespace GoDebian.Ar
open GoDebian

structure Entry where
  name      : Bytes
  timestamp : Int
  ownerID   : Int
  groupID   : Int
  fileMode  : Bytes
  size      : Int
  hdrOff    : Nat          -- offset of the 60-byte header (not a Go field; for the theorems)
  dataOff   : Nat          -- SectionReader base
  deriving DecidableEq, Repr, Inhabited

def magic : Bytes := [33, 60, 97, 114, 99, 104, 62, 10]   -- "!<arch>\n"

/-- `ReadAt(buf[n], off)` on a byte string: the bytes available, at most `n`. -/
def readAt (bs : Bytes) (off n : Nat) : Bytes := (bs.drop off).take n

/-- `checkAr` -/
def checkAr (bs : Bytes) : Res Nat :=
  let h := readAt bs 0 8
  if h.length < 8 then .error .err
  else if h ≠ magic then .error .err
  else .ok 8

/-- blank numeric columns are 0; otherwise `strconv.Atoi` (sign accepted) -/
def numField (col : Bytes) : Res Int :=
  let s := Str.trimSpace col
  if s.isEmpty then .ok 0 else
  match Str.parseInt64 s with
  | some i => .ok i
  | none => .error .err

/-- `parseArEntry(line)` for a 60-byte line -/
def parseEntry (line : Bytes) (hdrOff : Nat) : Res Entry :=
  if line.length ≠ 60 then .error .err else
  if (line.getD 58 0) ≠ 96 ∨ (line.getD 59 0) ≠ 10 then .error .err else
  let col (a b : Nat) := (line.drop a).take (b - a)
  match numField (col 16 28), numField (col 28 34), numField (col 34 40), numField (col 48 58) with
  | .ok ts, .ok uid, .ok gid, .ok size =>
    .ok { name := Str.trimSuffix (Str.trimSpace (col 0 16)) [47],
          timestamp := ts, ownerID := uid, groupID := gid,
          fileMode := Str.trimSpace (col 40 48), size := size,
          hdrOff := hdrOff, dataOff := hdrOff + 60 }
  | _, _, _, _ => .error .err

inductive NextResult where
  | entry (e : Entry) (newOff : Nat)
  | eof                      -- `io.EOF` from the header read (also for a truncated header)
  | bad
  deriving Repr

/-- `Ar.Next` at offset `off` -/
def next (bs : Bytes) (off : Nat) : NextResult :=
  let line := readAt bs off 60
  if line.length < 60 then .eof else
  match parseEntry line off with
  | .error _ => .bad
  | .ok e =>
    if e.size < 0 then .bad else
    let size := e.size.toNat
    if size > 0 ∧ (readAt bs (off + 60 + size - 1) 1).length ≠ 1 then .bad else
    .entry e (off + 60 + size + size % 2)

inductive End where
  | eof | bad | fuel
  deriving DecidableEq, Repr

/-- iterate `Next` to the end -/
def readFrom : Nat → Bytes → Nat → List Entry → List Entry × End
  | 0, _, _, acc => (acc, .fuel)
  | fuel+1, bs, off, acc =>
    match next bs off with
    | .eof => (acc, .eof)
    | .bad => (acc, .bad)
    | .entry e off' => readFrom fuel bs off' (acc ++ [e])

/-- `LoadAr` + iteration; `none` when the global magic is wrong.  Fuel: one step per 60
    bytes always suffices (proved in Props/C15). -/
def readAll (bs : Bytes) : Option (List Entry × End) :=
  match checkAr bs with
  | .error _ => none
  | .ok off => some (readFrom (bs.length / 60 + 1) bs off [])

/-! ### the same iterator over any random-access source

`nextR` / `readFromR` are `next` / `readFrom` with the `ReadAt` function as a parameter
(`next_eq_nextR` below keeps the two texts identical).  A source given by runs (literal
bytes and runs of zero bytes) lets archives with members of 10^9 bytes and more be
iterated without materialising them; `Lemmas/ArSparse.lean` proves that this is the
iterator above on the flattened bytes. -/

def nextR (rd : Nat → Nat → Bytes) (off : Nat) : NextResult :=
  let line := rd off 60
  if line.length < 60 then .eof else
  match parseEntry line off with
  | .error _ => .bad
  | .ok e =>
    if e.size < 0 then .bad else
    let size := e.size.toNat
    if size > 0 ∧ (rd (off + 60 + size - 1) 1).length ≠ 1 then .bad else
    .entry e (off + 60 + size + size % 2)

theorem next_eq_nextR (bs : Bytes) (off : Nat) : next bs off = nextR (readAt bs) off := rfl

def readFromR (rd : Nat → Nat → Bytes) : Nat → Nat → List Entry → List Entry × End
  | 0, _, acc => (acc, .fuel)
  | fuel+1, off, acc =>
    match nextR rd off with
    | .eof => (acc, .eof)
    | .bad => (acc, .bad)
    | .entry e off' => readFromR rd fuel off' (acc ++ [e])

inductive Seg where
  | lit (b : Bytes)
  | zeros (n : Nat)
  deriving Repr

def Seg.len : Seg → Nat
  | .lit b => b.length
  | .zeros n => n

def Seg.bytes : Seg → Bytes
  | .lit b => b
  | .zeros n => List.replicate n 0

/-- the byte string a list of runs stands for (specification only: never evaluated on
    large runs) -/
def flatten (segs : List Seg) : Bytes := segs.flatMap Seg.bytes

def totalLen (segs : List Seg) : Nat := (segs.map Seg.len).sum

/-- at most `n` bytes of one run from `off` on -/
def Seg.slice : Seg → Nat → Nat → Bytes
  | .lit b, off, n => (b.drop off).take n
  | .zeros k, off, n => List.replicate (min n (k - off)) 0

/-- `ReadAt` on a list of runs, without expanding them -/
def readAtS : List Seg → Nat → Nat → Bytes
  | [], _, _ => []
  | s :: rest, off, n =>
    if s.len ≤ off then readAtS rest (off - s.len) n else
    s.slice off n ++ readAtS rest 0 (n - (s.slice off n).length)

/-- `LoadAr` + iteration over a list of runs -/
def readAllS (segs : List Seg) : Option (List Entry × End) :=
  let h := readAtS segs 0 8
  if h.length < 8 then none
  else if h ≠ magic then none
  else some (readFromR (readAtS segs) (totalLen segs / 60 + 1) 8 [])

/-- what the member's reader delivers -/
def data (bs : Bytes) (e : Entry) : Bytes := readAt bs e.dataOff e.size.toNat

end GoDebian.Ar
