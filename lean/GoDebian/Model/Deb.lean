/-
  Model of /repo/deb/deb.go (Load, loadDeb, loadDeb2, loadDeb2Control, loadDeb2Data),
  tarfile.go (IsTarfile) and sigcheck.go (CheckDebsig).  Decompression + tar reading and
  OpenPGP verification are external parameters: the harness evaluates the real
  components on the byte ranges the model selects and passes the answers in.
  Transliteration of the Go text after the fix: commits.
-/
import GoDebian.Model.Ar
import GoDebian.Model.Codec
import GoDebian.Base.Path

namespace GoDebian.Deb
open GoDebian GoDebian.Ar

def sDebianBinary : Bytes := [100, 101, 98, 105, 97, 110, 45, 98, 105, 110, 97, 114, 121]
def sControlDot : Bytes := [99, 111, 110, 116, 114, 111, 108, 46]
def sDataDot : Bytes := [100, 97, 116, 97, 46]
def sControl : Bytes := [99, 111, 110, 116, 114, 111, 108]
def sDotTar : Bytes := [46, 116, 97, 114]
def sGpg : Bytes := [95, 103, 112, 103]

/-- `ArEntry.IsTarfile` -/
def isTarfile (name : Bytes) : Bool :=
  let ext := Path.ext name
  ext = sDotTar || Path.ext (Str.trimSuffix name ext) = sDotTar

/-- members by name, as `loadDeb` collects them; a duplicate name is an error -/
def collect : List Entry → List Entry → Res (List Entry)
  | [], acc => .ok acc
  | e :: rest, acc => if acc.any (·.name = e.name) then .error .err else collect rest (acc ++ [e])

def find (name : Bytes) (ms : List Entry) : Option Entry := ms.find? (·.name = name)

structure Plan where
  members : List Entry
  control : Entry
  data    : Entry
  deriving Repr

/-- everything `Load` decides before it needs a decompressor: iteration to the end,
    debian-binary present and equal to "2.0\n", exactly one control.* and one data.*
    member, both named like tar files -/
def plan (bs : Bytes) : Res Plan :=
  match Ar.readAll bs with
  | none => .error .err
  | some (_, .bad) => .error .err
  | some (_, .fuel) => .error .fuel
  | some (entries, .eof) =>
    match collect entries [] with
    | .error e => .error e
    | .ok ms =>
      match find sDebianBinary ms with
      | none => .error .err
      | some b =>
        -- bufio.ReadString('\n') on the member's bytes
        let content := Ar.data bs b
        match Str.indexByte 10 content with
        | none => .error .err
        | some k =>
          if content.take (k + 1) ≠ [50, 46, 48, 10] then .error .err else
          let cs := ms.filter (fun m => Str.hasPrefix m.name sControlDot)
          let ds := ms.filter (fun m => Str.hasPrefix m.name sDataDot)
          match cs, ds with
          | [c], [d] =>
            if !isTarfile c.name || !isTarfile d.name then .error .err
            else .ok ⟨ms, c, d⟩
          | _, _ => .error .err

/-- answer of (decompressor for the member's extension ∘ archive/tar) on the control member -/
inductive TarAnswer where
  | openError
  | entries (es : List (Bytes × Option Bytes)) (closeErr : Bool)
      -- (name, content; none = reading the body failed) until the tar reader stops or ./control
      -- has been read; closeErr = the decompressor's Close() reports an error afterwards
  deriving Repr

structure Loaded where
  control    : List Codec.Val
  controlExt : Bytes
  dataExt    : Bytes
  members    : List Bytes
  deriving Repr

/-- `Load`: the plan, then the control file out of the control tar, then the data stream -/
def load (bs : Bytes) (schema : Codec.Schema) (ctl : TarAnswer) (dataOpens : Bool) : Res Loaded :=
  match plan bs with
  | .error e => .error e
  | .ok p =>
    match ctl with
    | .openError => .error .err
    | .entries es closeErr =>
      match es.find? (fun (n, _) => Path.clean n = sControl) with
      | none => .error .err                      -- tar ended (or failed) before ./control
      | some (_, none) => .error .err               -- the decompressor failed inside ./control
      | some (_, some content) =>
        match Codec.unmarshal schema content with
        | .error e => .error e
        | .ok rec =>
          if closeErr then .error .err else
          if !dataOpens then .error .err else
          .ok ⟨rec, p.control.name.drop 8, p.data.name.drop 5, p.members.map (·.name)⟩

/-- `CheckDebsig`: which byte ranges are verified; `none` = error before verification -/
def debsigPlan (p : Plan) (role : Bytes) : Option (Entry × Entry × Entry × Entry) :=
  match find (sGpg ++ role) p.members, find sDebianBinary p.members with
  | some sig, some b => some (sig, b, p.control, p.data)
  | _, _ => none

/-- the signed message: debian-binary ++ control member ++ data member -/
def signedBytes (bs : Bytes) (p : Plan) : Bytes :=
  match find sDebianBinary p.members with
  | some b => Ar.data bs b ++ Ar.data bs p.control ++ Ar.data bs p.data
  | none => []

end GoDebian.Deb
