/-
  Model of NewParagraphReader / decodeClearsig (control/parse.go) and Decoder.Signer.
  Parameters (answers of the real x/crypto library, supplied by the harness):
    `decoded : Option (Bytes × Bytes)`  clearsign.Decode(input): (block.Bytes, signature body) or nil
    `verified : Option Bytes`           CheckDetachedSignature(keyring, block.Bytes, sig): signer id or error
-/
import GoDebian.Model.Deb822

namespace GoDebian.Clearsign
open GoDebian GoDebian.Deb822

def armorStart : Bytes := [45, 45, 45, 45, 45, 66, 69, 71, 73, 78, 32, 80, 71, 80, 32]   -- "-----BEGIN PGP "

/-- `bufioReader.Peek(15)` equals the armor start -/
def startsWithArmor (input : Bytes) : Bool := input.take 15 = armorStart

structure Reader where
  source : Bytes            -- what the paragraph reader will parse
  signer : Option Bytes     -- key id of the verified signer
  deriving DecidableEq, Repr

/-- `NewParagraphReader(reader, keyring)`; `hasKeyring = false` is the nil keyring -/
def newReader (input : Bytes) (hasKeyring : Bool) (decoded : Option Bytes) (verified : Option Bytes) : Res Reader :=
  if !startsWithArmor input then .ok ⟨input, none⟩ else
  match decoded with
  | none => .error .err                                   -- "Invalid clearsigned input"
  | some blockBytes =>
    if !hasKeyring then .ok ⟨blockBytes, none⟩ else       -- nil keyring: pass through unverified
    match verified with
    | none => .error .err
    | some id => .ok ⟨blockBytes, some id⟩

/-- reader + `All()` -/
def readAll (input : Bytes) (hasKeyring : Bool) (decoded verified : Option Bytes) : Res (List Paragraph × Option Bytes) :=
  match newReader input hasKeyring decoded verified with
  | .error e => .error e
  | .ok r => (Deb822.all r.source).map (fun ps => (ps, r.signer))

end GoDebian.Clearsign
