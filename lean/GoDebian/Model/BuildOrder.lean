/-
  Model of control.OrderDSCForBuild (control/dsc.go) together with the third-party
  pault.ag/go/topsort@v0.1.1 algorithm it calls (Network.AddNode / AddEdge / Sort,
  sortNodes / sortSingleNodes), which is modelled, not assumed.
-/
import GoDebian.Model.Dependency

namespace GoDebian.BuildOrder
open GoDebian

/-- what OrderDSCForBuild reads from a DSC -/
structure Src where
  source   : Bytes
  binaries : List Bytes
  deps     : List Dep.Dependency      -- Build-Depends, Build-Depends-Arch, Build-Depends-Indep
  deriving Repr

def mapInsert (k v : Bytes) : List (Bytes × Bytes) → List (Bytes × Bytes)
  | [] => [(k, v)]
  | (k', v') :: rest => if k' = k then (k, v) :: rest else (k', v') :: mapInsert k v rest

def mapGet (k : Bytes) : List (Bytes × Bytes) → Option Bytes
  | [] => none
  | (k', v) :: rest => if k' = k then some v else mapGet k rest

/-- binary → source (a later source overrides) -/
def sourceMapping (srcs : List Src) : List (Bytes × Bytes) :=
  srcs.foldl (fun m s => s.binaries.foldl (fun m b => mapInsert b s.source m) m) []

/-- `network.order`: source names in first-insertion order -/
def nodeOrder (srcs : List Src) : List Bytes :=
  srcs.foldl (fun o s => if o.contains s.source then o else o ++ [s.source]) []

/-- the names a source build-depends on for `arch`: per relation the first applicable
    alternative, across the three fields in order -/
def wanted (s : Src) (arch : Dep.Arch) : Res (List Bytes) :=
  s.deps.foldlM (fun acc d => (Dep.getPossibilities d arch).map (fun ps => acc ++ ps.map (·.name))) []

/-- inbound edges: (to, from) pairs in AddEdge order -/
def edges (srcs : List Src) (arch : Dep.Arch) : Res (List (Bytes × Bytes)) :=
  let m := sourceMapping srcs
  srcs.foldlM (fun acc s => (wanted s arch).map (fun ws =>
    acc ++ ws.filterMap (fun w => (mapGet w m).map (fun from_ => (s.source, from_))))) []

def inbound (es : List (Bytes × Bytes)) (n : Bytes) : List Bytes :=
  (es.filter (·.1 = n)).map (·.2)

/-- `sortSingleNodes`: one pass in node order; marking happens inside the scan -/
def pass (es : List (Bytes × Bytes)) : List Bytes → List Bytes → List Bytes → Bool → List Bytes × List Bytes × Bool
  | [], marked, gen, unpruned => (marked, gen, unpruned)
  | n :: rest, marked, gen, unpruned =>
    if marked.contains n then pass es rest marked gen unpruned
    else if (inbound es n).all (marked.contains ·) then pass es rest (n :: marked) (gen ++ [n]) true
    else pass es rest marked gen true

/-- `sortNodes`: generations until an empty one; a pass that sees unmarked nodes but
    outputs none is a cycle -/
def sortNodes (es : List (Bytes × Bytes)) (nodes : List Bytes) : Nat → List Bytes → List Bytes → Res (List Bytes)
  | 0, _, _ => .error .fuel
  | fuel+1, marked, out =>
    let (marked', gen, unpruned) := pass es nodes marked [] false
    if unpruned && gen.isEmpty then .error .err
    else if gen.isEmpty then .ok out
    else sortNodes es nodes fuel marked' (out ++ gen)

/-- `OrderDSCForBuild`: the source names in build order -/
def order (srcs : List Src) (arch : Dep.Arch) : Res (List Bytes) :=
  match edges srcs arch with
  | .error e => .error e
  | .ok es =>
    let nodes := nodeOrder srcs
    sortNodes es nodes (nodes.length + 1) [] []

end GoDebian.BuildOrder
