/-
  Model of /repo/control/parse.go: Paragraph (Set, Update, WriteTo), ParagraphReader
  (Next, All) on plain input.  Transliteration of the Go text after the fix: commits.
  The clearsign front end (NewParagraphReader / decodeClearsig) is in Model/Clearsign.lean.
-/
import GoDebian.Base.Str

namespace GoDebian.Deb822
open GoDebian

/-- Go `map[string]string` as an association list with unique keys, plus `Order`. -/
structure Paragraph where
  order  : List Bytes
  values : List (Bytes × Bytes)
  deriving DecidableEq, Repr, Inhabited

def empty : Paragraph := ⟨[], []⟩

def lookup (k : Bytes) : List (Bytes × Bytes) → Option Bytes
  | [] => none
  | (k', v) :: rest => if k' = k then some v else lookup k rest

/-- `m[k] = v` -/
def insert (k v : Bytes) : List (Bytes × Bytes) → List (Bytes × Bytes)
  | [] => [(k, v)]
  | (k', v') :: rest => if k' = k then (k, v) :: rest else (k', v') :: insert k v rest

/-- `p.Values[k]` (the zero value "" when absent) -/
def Paragraph.get (p : Paragraph) (k : Bytes) : Bytes := (lookup k p.values).getD []

/-- `Paragraph.Set` -/
def Paragraph.set (p : Paragraph) (k v : Bytes) : Paragraph :=
  match lookup k p.values with
  | some _ => { p with values := insert k v p.values }
  | none => ⟨p.order ++ [k], insert k v p.values⟩

/-- `Paragraph.Update(other)`: p's keys in order, then other's new keys; other's values win. -/
def Paragraph.update (p other : Paragraph) : Paragraph :=
  let base : Paragraph := p.order.foldl (fun (acc : Paragraph × List Bytes) el =>
      (⟨acc.1.order ++ [el], insert el (p.get el) acc.1.values⟩, el :: acc.2)) (empty, []) |>.1
  let seen0 := p.order
  (other.order.foldl (fun (acc : Paragraph × List Bytes) el =>
      let (r, seen) := acc
      let r' : Paragraph := if seen.contains el then r else { r with order := r.order ++ [el] }
      (⟨r'.order, insert el (other.get el) r'.values⟩, el :: seen)) (base, seen0)).1

/-! ### Physical lines: `bufio.Reader.ReadString('\n')`, an unterminated last line gets "\n". -/

def linesAux : Bytes → Bytes → List Bytes
  | [], cur => if cur.isEmpty then [] else [(10 :: cur).reverse]
  | c :: rest, cur => if c = 10 then (10 :: cur).reverse :: linesAux rest [] else linesAux rest (c :: cur)

def physLines (b : Bytes) : List Bytes := linesAux b []

inductive Step where
  | para (p : Paragraph) (rest : List Bytes)
  | eof
  | bad
  deriving Repr

/-- `ParagraphReader.Next` over the remaining physical lines. -/
def nextAux : List Bytes → Paragraph → Bytes → Step
  | [], p, _ => if p.order.isEmpty then .eof else .para p []
  | line :: rest, p, lastKey =>
    if line = [10] ∨ line = [13, 10] then
      if p.order.isEmpty then nextAux rest p lastKey else .para p rest
    else if Str.hasPrefix line [35] then nextAux rest p lastKey
    else if Str.hasPrefix line [32] ∨ Str.hasPrefix line [9] then
      if p.order.isEmpty then .bad else
      let l := Str.trimRightSpace (line.drop 1)
      let l := if l = [46] then [] else l
      let cur := p.get lastKey
      let new := if cur.isEmpty then l ++ [10]
        else (if Str.hasSuffix cur [10] then cur else cur ++ [10]) ++ l ++ [10]
      nextAux rest { p with values := insert lastKey new p.values } lastKey
    else
      match Str.splitN [58] 2 line with
      | [k, v] =>
        let key := Str.trimSpace k
        let value := Str.trimSpace v
        if Str.hasPrefix key [35] then .bad else     -- written back it would be a comment
        let order := if (lookup key p.values).isSome then p.order else p.order ++ [key]
        nextAux rest ⟨order, insert key value p.values⟩ key
      | _ => .bad

def next (lines : List Bytes) : Step := nextAux lines empty []

/-- `ParagraphReader.All`; structurally decreasing because `next` consumes lines
    (fuel = number of lines + 1). -/
def allAux : Nat → List Bytes → List Paragraph → Res (List Paragraph)
  | 0, _, _ => .error .fuel
  | fuel+1, lines, acc =>
    match next lines with
    | .eof => .ok acc
    | .bad => .error .err
    | .para p rest => allAux fuel rest (acc ++ [p])

def all (input : Bytes) : Res (List Paragraph) :=
  let ls := physLines input
  allAux (ls.length + 1) ls []

/-! ### Writing -/

/-- the value as written by `WriteTo`: one trailing newline dropped, every further line
    a continuation line, empty ones as " ." -/
def foldValue (v : Bytes) : Bytes :=
  match Str.split [10] (Str.trimSuffix v [10]) with
  | [] => []
  | first :: rest =>
    -- a first line starting with white space can only be kept on a continuation line
    let ls := if Str.trimLeftSpace first ≠ first then [] :: first :: rest else first :: rest
    match ls with
    | [] => []
    | f :: r => Str.joinWith [10] (f :: r.map (fun l => 32 :: (if l.isEmpty then [46] else l)))

/-- `Paragraph.WriteTo` -/
def Paragraph.write (p : Paragraph) : Bytes :=
  (p.order.map (fun k => k ++ [58, 32] ++ foldValue (p.get k) ++ [10])).flatten

/-- paragraphs written one after another with the blank line the Encoder puts between -/
def writeAll (ps : List Paragraph) : Bytes := Str.joinWith [10] (ps.map Paragraph.write)

end GoDebian.Deb822
