/-
  Model of /repo/version/version.go: order, verrevcmp, Compare, parseInto, String,
  the marshalling wrappers.  Transliteration of the Go text; see Spec/Version.lean for
  the independent statement of the dpkg order.
-/
import GoDebian.Base.Str

namespace GoDebian.Version
open GoDebian

structure Version where
  epoch    : Nat
  upstream : Bytes      -- Go field `Version`
  revision : Bytes
  deriving DecidableEq, Repr, Inhabited

def cisdigit (c : Nat) : Bool := 48 ≤ c && c ≤ 57
def cisalpha (c : Nat) : Bool := (97 ≤ c && c ≤ 122) || (65 ≤ c && c ≤ 90)

/-- `order(r rune) int` -/
def order (c : Nat) : Int :=
  if cisdigit c then 0
  else if cisalpha c then (c : Int)
  else if c = 126 then -1
  else if c ≠ 0 then (c : Int) + 256
  else 0

/-- `i < len(a) && !cisdigit(a[i])` on the remaining suffix. -/
def atNonDigit : Bytes → Bool
  | [] => false
  | c :: _ => !cisdigit c

/-- `i < len(a) && cisdigit(a[i])` -/
def atDigit : Bytes → Bool
  | [] => false
  | c :: _ => cisdigit c

/-- `ac := 0; if i < len(a) { ac = order(a[i]) }` -/
def ordHead : Bytes → Int
  | [] => 0
  | c :: _ => order c

/-- First inner loop of `verrevcmp`.  `i++`/`j++` past the end is `tail` of `[]`. -/
def skipNonDigit : Nat → Bytes → Bytes → Except Int (Bytes × Bytes)
  | 0, a, b => .ok (a, b)
  | n+1, a, b =>
    if atNonDigit a || atNonDigit b then
      if ordHead a ≠ ordHead b then .error (ordHead a - ordHead b)
      else skipNonDigit n a.tail b.tail
    else .ok (a, b)

def dropZeros (a : Bytes) : Bytes := a.dropWhile (· == 48)

/-- Third inner loop: advance over the common-length digit prefix, remembering the
    first difference. -/
def digitRun : Bytes → Bytes → Int → Bytes × Bytes × Int
  | x :: a, y :: b, fd =>
    if cisdigit x && cisdigit y then
      digitRun a b (if fd = 0 then (x : Int) - (y : Int) else fd)
    else (x :: a, y :: b, fd)
  | a, b, fd => (a, b, fd)

/-- Outer loop of `verrevcmp`, fuelled. -/
def verrevcmpN : Nat → Bytes → Bytes → Int
  | 0, _, _ => 0
  | n+1, a, b =>
    if a.isEmpty && b.isEmpty then 0 else
    match skipNonDigit (a.length + b.length + 1) a b with
    | .error d => d
    | .ok (a1, b1) =>
      let (a2, b2, fd) := digitRun (dropZeros a1) (dropZeros b1) 0
      if atDigit a2 then 1
      else if atDigit b2 then -1
      else if fd ≠ 0 then fd
      else verrevcmpN n a2 b2

def verrevcmp (a b : Bytes) : Int := verrevcmpN (a.length + b.length + 1) a b

/-- `Compare(a, b)` -/
def compare (a b : Version) : Int :=
  if a.epoch > b.epoch then 1
  else if a.epoch < b.epoch then -1
  else
    let rc := verrevcmp a.upstream b.upstream
    if rc ≠ 0 then rc else verrevcmp a.revision b.revision

def sgn (i : Int) : Int := if i < 0 then -1 else if i > 0 then 1 else 0

/-! ### Parsing -/

def upstreamChar (c : Nat) : Bool :=
  cisdigit c || cisalpha c || c = 46 || c = 45 || c = 43 || c = 126 || c = 58
def revisionChar (c : Nat) : Bool :=
  cisdigit c || cisalpha c || c = 46 || c = 43 || c = 126

/-- `parseInto(result, input)`: the destination is reset first, so the result is a
    function of the input alone. -/
def parse (input : Bytes) : Res Version :=
  let trimmed := Str.trimSpace input
  if trimmed.isEmpty then .error .err else
  if Str.hasSpaceRune trimmed then .error .err else
  let colon := Str.indexByte 58 trimmed
  let epochR : Res Nat := match colon with
    | none => .ok 0
    | some k => match Str.parseInt64 (trimmed.take k) with
      | none => .error .err
      | some e => if e < 0 then .error .err else .ok e.toNat
  match epochR with
  | .error e => .error e
  | .ok epoch =>
    let rest := match colon with | none => trimmed | some k => trimmed.drop (k + 1)
    if rest.isEmpty then .error .err else
    let (up, rev) := match Str.lastIndexByte 45 rest with
      | none => (rest, [])
      | some h => (rest.take h, rest.drop (h + 1))
    if up.isEmpty then .error .err else
    if (match up with | [] => false | c :: _ => !cisdigit c) then .error .err else
    if up.any (fun c => !upstreamChar c) then .error .err else
    if rev.any (fun c => !revisionChar c) then .error .err else
    .ok ⟨epoch, up, rev⟩

/-! ### Rendering -/

/-- `StringWithoutEpoch()` -/
def stringWithoutEpoch (v : Version) : Bytes :=
  if v.revision.length > 0 || v.upstream.contains 45 then v.upstream ++ [45] ++ v.revision
  else v.upstream

/-- `String()` -/
def toString (v : Version) : Bytes :=
  if v.epoch > 0 || v.upstream.contains 58 then Str.fmtNat v.epoch ++ [58] ++ stringWithoutEpoch v
  else stringWithoutEpoch v

/-- `MarshalText` / `MarshalControl` return `String()`; `UnmarshalText` /
    `UnmarshalControl` are `parse`.  `encoding/json` wraps the text in quotes (no byte
    of a parser-accepted version needs escaping) and strips them again. -/
def marshalText (v : Version) : Bytes := toString v
def jsonEncode (v : Version) : Bytes := [34] ++ toString v ++ [34]
def jsonDecode (b : Bytes) : Res Version :=
  match b with
  | 34 :: rest =>
    if rest.getLast? = some 34 then parse rest.dropLast else .error .err
  | _ => .error .err

end GoDebian.Version
