/-
  Model of /repo/changelog/changelog.go: readLine, trim, partition, ParseOne, Parse.
  `time.Parse(RFC1123Z, …)` is an external parameter: the model extracts the date text,
  the harness has the real library parse it and hands the answer back.
  Transliteration of the Go text after the fix: commits.
-/
import GoDebian.Model.Version

namespace GoDebian.Changelog
open GoDebian

/-- lines as `readLine` delivers them: newline-terminated, except possibly the last -/
def linesAux : Bytes → Bytes → List Bytes
  | [], cur => if cur.isEmpty then [] else [cur.reverse]
  | c :: rest, cur => if c = 10 then (10 :: cur).reverse :: linesAux rest [] else linesAux rest (c :: cur)

def lines (b : Bytes) : List Bytes := linesAux b []

/-- `trim`: strings.Trim(line, "\n\r\t ") -/
def trim (b : Bytes) : Bytes := Str.trimSet [10, 13, 9, 32] b

/-- `partition(line, delim)` -/
def partition (line delim : Bytes) : Bytes × Bytes :=
  match Str.cut delim line with
  | some (a, b) => (a, b)
  | none => (line, [])

structure Entry where
  source    : Bytes
  version   : Version.Version
  target    : Bytes
  arguments : List (Bytes × Bytes)      -- map: later keys overwrite
  changelog : Bytes
  changedBy : Bytes
  whenText  : Bytes                      -- the text handed to time.Parse
  deriving Repr, Inhabited

def mapInsert (k v : Bytes) : List (Bytes × Bytes) → List (Bytes × Bytes)
  | [] => [(k, v)]
  | (k', v') :: rest => if k' = k then (k, v) :: rest else (k', v') :: mapInsert k v rest

inductive One where
  | entry (e : Entry) (rest : List Bytes)
  | eof                         -- io.EOF: nothing but blank lines left
  | bad
  deriving Repr

/-- header scan: skip "\n" lines; a line starting with a space is an error -/
def findHeader : List Bytes → Option (Option (Bytes × List Bytes))   -- none = error, some none = EOF
  | [] => some none
  | l :: rest =>
    if l = [10] then findHeader rest
    else if Str.hasPrefix l [32] then none
    else some (some (l, rest))

/-- body accumulation until the " -- " line; EOF before it is an error -/
def findSignoff : List Bytes → Bytes → Option (Bytes × Bytes × List Bytes)
  | [], _ => none
  | l :: rest, acc =>
    if !Str.hasPrefix l [32] && !(trim l).isEmpty then none
    else if Str.hasPrefix l [32, 45, 45, 32] then some (acc, l, rest)
    else findSignoff rest (acc ++ l)

/-- `ParseOne`; `dateOK` is the external verdict of time.Parse on the extracted text -/
def parseOne (ls : List Bytes) (dateOK : Bytes → Bool) : One :=
  match findHeader ls with
  | none => .bad
  | some none => .eof
  | some (some (header, rest)) =>
    let (arguments, options) := partition header [59]
    let (source, remainder) := partition arguments [40]
    let (versionString, suite) := partition remainder [41]
    match Version.parse (trim versionString) with
    | .error _ => .bad
    | .ok v =>
      let args := (Str.split [44] options).foldl (fun m entry =>
        let (k, val) := partition (trim entry) [61]
        mapInsert (trim k) (trim val) m) []
      match findSignoff rest [] with
      | none => .bad
      | some (body, signoff, rest') =>
        let (_, so) := partition signoff [45, 45]
        let (whom, when) := partition so [32, 32]
        if !dateOK (trim when) then .bad else
        .entry ⟨trim source, v, trim suite, args, body, trim whom, trim when⟩ rest'

/-- `Parse`: entries until a clean EOF; any error discards everything -/
def parseAux : Nat → List Bytes → (Bytes → Bool) → List Entry → Res (List Entry)
  | 0, _, _, _ => .error .fuel
  | fuel+1, ls, dateOK, acc =>
    match parseOne ls dateOK with
    | .eof => .ok acc
    | .bad => .error .err
    | .entry e rest => parseAux fuel rest dateOK (acc ++ [e])

def parse (b : Bytes) (dateOK : Bytes → Bool) : Res (List Entry) :=
  let ls := lines b
  parseAux (ls.length + 1) ls dateOK []

/-- the date texts `Parse` would hand to time.Parse if every date were accepted -/
def dateTexts (b : Bytes) : List Bytes :=
  let rec go : Nat → List Bytes → List Bytes → List Bytes
    | 0, _, acc => acc
    | fuel+1, ls, acc =>
      match parseOne ls (fun _ => true) with
      | .entry e rest => go fuel rest (acc ++ [e.whenText])
      | _ => acc
  let ls := lines b
  go (ls.length + 1) ls []

end GoDebian.Changelog
