import GoDebian.Lemmas.DocsStruct
import GoDebian.Tie.Docs
open GoDebian GoDebian.Codec GoDebian.Extracted.Schemas GoDebian.Spec.Docs GoDebian.Spec.DocsValue
open GoDebian.Lemmas.Res

def B := Bytes.ofString
example : wfValue (.version (B "1:2.30-10") ⟨1, B "2.30", B "10"⟩) := by decide +kernel
example : Version.parse (B "1:2.30-10") = .ok ⟨1, B "2.30", B "10"⟩ := by decide +kernel
example : wfValue (.int (-5)) ∧ valueText (.int (-5)) [] = B "-5" := by decide +kernel
def d : Spec.Dependency.SDep :=
      [[⟨false, B "debhelper", none, some (Dep.opGE, B "9"), false, [], []⟩],
       [⟨false, B "libc6-dev", none, none, false, [B "amd64"], []⟩]]
example : wfValue (.dep d) := by decide +kernel
#eval valueText (.dep d) [0, 0, 0, 1, 1, 0, 0, 0, 6, 0, 1, 0, 0, 6] == B "debhelper (>= 9),\nlibc6-dev [amd64]\n"
#eval String.fromUTF8! (ByteArray.mk ((valueText (.dep d) [0, 0, 0, 1, 1, 0, 0, 0, 6, 0, 1, 0, 0, 6]).map (·.toUInt8)).toArray)
